import sys, os; sys.path.insert(0, os.path.join(os.path.dirname(os.path.abspath(__file__)), "src"))
"""
Differential equivalence check for the C03 performance clean-up (NP2.4 shank splitting / reconstruction).

The ORIGINAL implementations of the four methods that were changed (NP2Converter._split2shanks,
NP2Converter._ind2save, NP2Reconstructor._get_chans, NP2Reconstructor._reconstruct) are copied verbatim
below as reference functions and run side by side with the methods of the imported module on
 * A. _ind2save     : all 65536 int16 values x NP2 volts-per-bit settings, float32 (ap) / float64 (lf) chunks,
                      first / middle / last / only window, short last windows, empty windows, out of range, nan,
                      inf, odd dtypes, mismatching shapes (same exception type)
 * B. _split2shanks : random channel -> shank maps, negative / repeated / empty / out of range indices, empty chunks
 * C. _get_chans    : channel subset strings produced by spikeglx._get_savedChans_subset and hand-made edge cases
 * D. _reconstruct  : random shank maps with gaps, recording lengths not aligned with the window, empty recordings
 * F. _prepare_files_NP24 : shank maps of 1 to 4 shanks, bin / cbin names, existing folders, overwrite, nshank
 * E. end to end    : NP2Converter.process + NP2Reconstructor.process on synthetic NP2.4 recordings, every file
                      written is compared byte for byte
Exits 0 if everything is identical, 1 with a message otherwise.
"""
import logging
import re
import shutil
import tempfile
import time
import types
import warnings
from pathlib import Path

import numpy as np

import neuropixel
import spikeglx
from ibldsp.utils import WindowGenerator

_logger = logging.getLogger("ibllib")  # used by the reference copy of _prepare_files_NP24
HERE = Path(__file__).resolve().parent
META_NP24 = HERE.joinpath("src", "tests", "fixtures", "np2split", "NP24_meta", "_spikeglx_ephysData_g0_t0.imec0.ap.meta")


# ----------------------------------------------------------------------------------------------------------------
# verbatim copies of the ORIGINAL implementations (only de-indented to module level)
# ----------------------------------------------------------------------------------------------------------------
def ref_prepare_files_NP24(self, overwrite=False):
    """
    Creates folders for individual shanks and creates and opens ap.bin and lf.bin files for
    each shank. Checks to see if and of the expected shank folders already exist
    and will only rerun if overwrite=True. Don't call this function directly but access through
    process() method

    :param overwrite: set to True to force rerunning even if lf.bin file already exists
    :return:
    """
    chn_info = spikeglx._map_channels_from_meta(self.sr.meta)
    n_shanks = self.nshank or np.unique(chn_info["shank"]).astype(np.int16)
    label = self.ap_file.parent.parts[-1]
    shank_info = {}
    self.already_exists = False

    for sh in n_shanks:
        _shank_info = {}
        # channels for individual shank + sync channel
        _shank_info["chns"] = np.r_[
            np.where(chn_info["shank"] == sh)[0],
            np.array(spikeglx._get_sync_trace_indices_from_meta(self.sr.meta)),
        ]

        probe_path = self.ap_file.parent.parent.joinpath(
            label + chr(97 + int(sh)) + self.extra
        )

        if not probe_path.exists() or overwrite:
            if self.sr.is_mtscomp:
                ap_file_bin = self.ap_file.with_suffix(".bin").name
            else:
                ap_file_bin = self.ap_file.name
            probe_path.mkdir(parents=True, exist_ok=True)
            _shank_info["ap_file"] = probe_path.joinpath(ap_file_bin)
            _shank_info["ap_open_file"] = open(_shank_info["ap_file"], "wb")
            _shank_info["lf_file"] = probe_path.joinpath(
                ap_file_bin.replace("ap", "lf")
            )
            _shank_info["lf_open_file"] = open(_shank_info["lf_file"], "wb")

            shank_info[f"shank{sh}"] = _shank_info
        else:
            self.already_exists = True
            _logger.warning(
                "One or more of the sub shank folders already exists, "
                "to force reprocessing set overwrite to True"
            )

    return shank_info


def ref_split2shanks(self, chunk, etype="ap"):
    """
    Splits the signal on the 384 channels into the individual shanks and saves to file

    :param chunk: portion of signal with all 384 channels
    :param type: ephys type, either 'ap' or 'lf'
    :return:
    """

    for sh in self.shank_info.keys():
        open = self.shank_info[sh][f"{etype}_open_file"]
        (chunk[:, self.shank_info[sh]["chns"]]).tofile(open)


def ref_ind2save(self, chunk, chunk_sync, wg, ratio=1, etype="ap"):
    """
    Determines the portion of the full chunk to save based on the window and taper used. Cuts
    off beginning and end to get rid of filtering/ decimating artefacts

    :param chunk: chunk of ephys signal
    :param chunk_sync: chunk of sync signal
    :param wg: Window generator object
    :param ratio: downsample ratio
    :param etype: ephys type, either 'ap' or 'lf'
    :return:
    """

    ind2save = [
        int(self.samples_taper * 2 / ratio),
        int((self.samples_window - self.samples_taper * 2) / ratio),
    ]
    if wg.iw == 0:
        ind2save[0] = 0
    if wg.iw == wg.nwin - 1:
        ind2save[1] = int(self.samples_window / ratio)

    chunk2save = np.round(
        np.c_[
            chunk[:, slice(*ind2save)].T
            / self.sr.channel_conversion_sample2v[etype][: self.napch],
            chunk_sync[:, slice(*ind2save)].T
            / self.sr.channel_conversion_sample2v[etype][self.idxsyncch:],
        ]
    ).astype(np.int16)

    return chunk2save


def ref_get_chans(self, meta):
    chn_subset = meta.get("snsSaveChanSubset_orig")
    chn_subset = chn_subset.split(",")
    for ich, ch_sub in enumerate(chn_subset):
        sub = ch_sub.split(":")
        if len(sub) > 1:
            chns = np.arange(int(sub[0]), int(sub[1]) + 1)
        else:
            chns = np.array(int(sub[0]))

        if ich == 0:
            chns_all = chns
        else:
            chns_all = np.r_[chns_all, chns]

    return chns_all


def ref_reconstruct(self):
    """
    Reconstructs the original file from the subshank files
    :return:
    """

    file_out = open(self.save_file, "wb")

    wg = WindowGenerator(self.nsamples, self.samples_window, 0)
    for first, last in wg.firstlast:
        ns = int(last - first)
        chunk = np.zeros((ns, self.nch), dtype=np.int16)
        for ish, sh in enumerate(self.shank_info.keys()):
            if ish == 0:
                chunk[:, self.shank_info[sh]["chns"]] = self.shank_info[sh]["sr"]._raw[first:last, :]
            else:
                chunk[:, self.shank_info[sh]["chns"][:-1]] = self.shank_info[sh]["sr"]._raw[first:last, :-1]
        chunk.tofile(file_out)

    # close the sglx instances once we are done converting
    for sh in self.shank_info.keys():
        sr = self.shank_info[sh].pop("sr")
        sr.close()

    file_out.close()

    return 1


class RefConverter(neuropixel.NP2Converter):
    _prepare_files_NP24 = ref_prepare_files_NP24
    _split2shanks = ref_split2shanks
    _ind2save = ref_ind2save


class RefReconstructor(neuropixel.NP2Reconstructor):
    _get_chans = ref_get_chans
    _reconstruct = ref_reconstruct


new_prepare_files_NP24 = neuropixel.NP2Converter._prepare_files_NP24
new_split2shanks = neuropixel.NP2Converter._split2shanks
new_ind2save = neuropixel.NP2Converter._ind2save
new_get_chans = neuropixel.NP2Reconstructor._get_chans
new_reconstruct = neuropixel.NP2Reconstructor._reconstruct


# ----------------------------------------------------------------------------------------------------------------
# comparison helpers
# ----------------------------------------------------------------------------------------------------------------
class Mismatch(Exception):
    pass


N_CASES = {}


def count(section):
    N_CASES[section] = N_CASES.get(section, 0) + 1


def outcome(fcn, *args, **kwargs):
    """Runs fcn and returns ('ok', result) or ('exc', exception type)"""
    with warnings.catch_warnings():
        warnings.simplefilter("ignore")
        try:
            return "ok", fcn(*args, **kwargs)
        except Exception as e:  # noqa
            return "exc", type(e)


def same_array(a, b):
    return (
        type(a) is type(b)
        and a.dtype == b.dtype
        and a.shape == b.shape
        and a.flags["C_CONTIGUOUS"] == b.flags["C_CONTIGUOUS"]
        and (a.dtype.kind == "O" or a.tobytes() == b.tobytes())  # bit for bit, nan included
        and np.array_equal(a, b, equal_nan=a.dtype.kind == "f")
    )


def check_outcomes(label, ref, new):
    if ref[0] != new[0]:
        raise Mismatch(f"{label}: reference gives {ref}, refactored code gives {new}")
    if ref[0] == "exc":
        if ref[1] is not new[1]:
            raise Mismatch(f"{label}: reference raises {ref[1].__name__}, refactored code raises {new[1].__name__}")
    elif isinstance(ref[1], np.ndarray) or isinstance(new[1], np.ndarray):
        if not same_array(ref[1], new[1]):
            raise Mismatch(f"{label}: arrays differ (dtype, shape, layout or values)\nref={ref[1]!r}\nnew={new[1]!r}")
    elif ref[1] != new[1]:
        raise Mismatch(f"{label}: {ref[1]!r} != {new[1]!r}")


def tree(folder):
    """Relative path -> content of all the files below folder"""
    return {str(f.relative_to(folder)): f.read_bytes() for f in sorted(Path(folder).rglob("*")) if f.is_file()}


def check_trees(label, dir_ref, dir_new):
    tref, tnew = tree(dir_ref), tree(dir_new)
    if list(tref.keys()) != list(tnew.keys()):
        raise Mismatch(f"{label}: files written differ: {list(tref.keys())} vs {list(tnew.keys())}")
    for k in tref:
        if tref[k] != tnew[k]:
            raise Mismatch(f"{label}: content of {k} differs ({len(tref[k])} vs {len(tnew[k])} bytes)")


# ----------------------------------------------------------------------------------------------------------------
# A. _ind2save
# ----------------------------------------------------------------------------------------------------------------
# full scale (V) / max int of the NP2 probes as written by spikeglx, the NP2 gain is 80
NP2_SCALES = [(0.5, 8192), (0.62, 2048), (0.6, 512), (0.62, 8192), (0.5, 512), (0.6, 32768)]


def np2_s2v(full_scale, maxint, nap, nsync):
    """Same arithmetic as spikeglx._conversion_sample2v_from_meta for NP2: float32 vector, sync gain of 1"""
    int2volt = full_scale / maxint
    return np.hstack((int2volt / 80 * np.ones(nap).astype(np.float32), np.ones(nsync, dtype=np.float32)))


def fake_converter(s2v, napch, samples_window, samples_taper=144, idxsyncch=None):
    self = types.SimpleNamespace()
    self.samples_window = samples_window
    self.samples_taper = samples_taper
    self.napch = napch
    self.idxsyncch = napch if idxsyncch is None else idxsyncch
    self.sr = types.SimpleNamespace(channel_conversion_sample2v={"ap": s2v, "lf": s2v.copy()})
    return self


def fake_wg(iw, nwin):
    return types.SimpleNamespace(iw=iw, nwin=nwin)


def compare_ind2save(label, self, chunk, chunk_sync, wg, ratio, etype):
    chunk_ref, sync_ref = (chunk.copy(order="K"), chunk_sync.copy(order="K")) if isinstance(chunk, np.ndarray) and \
        isinstance(chunk_sync, np.ndarray) else (chunk, chunk_sync)
    ref = outcome(ref_ind2save, self, chunk, chunk_sync, wg, ratio=ratio, etype=etype)
    new = outcome(new_ind2save, self, chunk, chunk_sync, wg, ratio=ratio, etype=etype)
    check_outcomes(label, ref, new)
    if isinstance(chunk, np.ndarray) and isinstance(chunk_sync, np.ndarray):
        # the inputs must not be modified
        if chunk.tobytes() != chunk_ref.tobytes() or chunk_sync.tobytes() != sync_ref.tobytes():
            raise Mismatch(f"{label}: inputs were modified")
    count("A _ind2save")


def read_like_reader(raw, s2v):
    """What spikeglx.Reader.read does: int16 -> float32 times the conversion factors, returns (nc, ns) view"""
    darray = raw.astype(np.float32, copy=True)[..., slice(None)]
    darray *= s2v
    return darray


def section_ind2save(rng):
    # A1: every int16 value, every NP2 volts per bit setting, as read by the spikeglx reader
    all_values = np.arange(-32768, 32768, dtype=np.int32).astype(np.int16)
    for full_scale, maxint in NP2_SCALES:
        nap, nsync = 8, 1
        s2v = np2_s2v(full_scale, maxint, nap, nsync)
        ns = 65536 // nap
        raw = np.c_[rng.permutation(all_values).reshape(ns, nap), rng.integers(0, 128, ns).astype(np.int16)]
        volts = read_like_reader(raw, s2v)
        for iw, nwin in [(0, 1), (0, 3), (1, 3), (2, 3)]:
            self = fake_converter(s2v, nap, samples_window=ns)
            compare_ind2save(f"A1 scale {full_scale}/{maxint} window {iw}/{nwin}", self,
                             volts[:, :nap].T, volts[:, nap:].T, fake_wg(iw, nwin), 1, "ap")
            # the conversion is the identity on the int16 samples
            kept = new_ind2save(self, volts[:, :nap].T, volts[:, nap:].T, fake_wg(0, 1), ratio=1, etype="ap")
            if not np.array_equal(kept, raw):
                raise Mismatch("A1: volts -> int16 is not the inverse of the reader")

    # A2: random shapes, windows multiple of 12, short / empty last windows, float32 ap and float64 lf chunks
    for i in range(260):
        nap = int(rng.integers(1, 24))
        nsync = int(rng.choice([1, 1, 1, 2, 0]))
        ratio = int(rng.choice([1, 12]))
        samples_window = 12 * int(rng.integers(50, 120))
        nwin = int(rng.integers(1, 5))
        iw = int(rng.integers(0, nwin))
        # length of the chunk: full window, or a last window of any length (0 included)
        nfull = samples_window // ratio
        ns = nfull if (iw < nwin - 1 or rng.random() < 0.3) else int(rng.integers(0, nfull + 1))
        full_scale, maxint = NP2_SCALES[i % len(NP2_SCALES)]
        s2v = np2_s2v(full_scale, maxint, nap, nsync)
        if i % 7 == 3:
            s2v = s2v.astype(np.float64)
        raw = rng.integers(-32768, 32768, size=(ns, nap + nsync)).astype(np.int16)
        volts = read_like_reader(raw, s2v.astype(np.float32))
        chunk, chunk_sync = volts[:, :nap].T, volts[:, nap:].T
        etype = "ap"
        if ratio == 12:
            # lf chunks are float64 (output of sosfiltfilt), strided, not exact multiples of the volts per bit
            etype = "lf"
            big = rng.normal(0, 1, size=(nap, ns * 3)) * float(s2v[0]) * float(rng.choice([10, 3000, 40000]))
            chunk = big[:, ::3]
            chunk_sync = np.ascontiguousarray(chunk_sync)[:, ::1]
        if i % 11 == 5 and ns > 2:
            chunk = chunk.copy()
            chunk[0, 0], chunk[-1, 1], chunk[0, 2] = np.nan, np.inf, -np.inf
        if i % 13 == 6:
            chunk = np.ascontiguousarray(chunk)
        if i % 17 == 2 and ns > 0:
            # ties of the rounding
            chunk = chunk.copy()
            chunk[:, 0] = (rng.integers(-100, 100, nap) + 0.5) * s2v[:nap].astype(chunk.dtype)
        self = fake_converter(s2v, nap, samples_window)
        compare_ind2save(f"A2 case {i}", self, chunk, chunk_sync, fake_wg(iw, nwin), ratio, etype)

    # A3: inputs off the beaten track: other dtypes, mismatching shapes, wrong types -> same result or exception
    nap, nsync, ns = 6, 1, 600
    s2v = np2_s2v(0.5, 8192, nap, nsync)
    raw = rng.integers(-32768, 32768, size=(ns, nap + nsync)).astype(np.int16)
    volts = read_like_reader(raw, s2v)
    c, s = volts[:, :nap].T, volts[:, nap:].T
    odd = [
        ("int16 chunk", raw[:, :nap].T, raw[:, nap:].T, s2v),
        ("float16 chunk", c.astype(np.float16), s.astype(np.float16), s2v),
        ("longdouble chunk", c.astype(np.longdouble), s, s2v),
        ("big endian chunk", c.astype(">f4"), s, s2v),
        ("int s2v", c, s, np.ones(nap + nsync, dtype=np.int64)),
        ("zero s2v", c, s, np.zeros(nap + nsync, dtype=np.float32)),
        ("short s2v", c, s, s2v[:-2]),
        ("long s2v", c, s, np.r_[s2v, s2v]),
        ("scalar-like s2v", c[:1], s, s2v),
        ("too few rows in chunk", c[:3], s, s2v),
        ("sync of another length", c, s[:, :-5], s2v),
        ("1d chunk", c[0], s, s2v),
        ("1d sync", c, s[0], s2v),
        ("3d chunk", c[None], s[None], s2v),
        ("list chunk", c.tolist(), s, s2v),
        ("list s2v", c, s, list(s2v)),
        ("matrix subclass", np.asmatrix(c), np.asmatrix(s), s2v),
        ("ndarray subclass", c.view(type("Sub", (np.ndarray,), {})), s, s2v),
        ("empty", c[:, :0], s[:, :0], s2v),
        ("bool sync", c, s > 0, s2v),
        ("complex chunk", c.astype(np.complex64), s, s2v),
    ]
    for name, cc, ss, conv in odd:
        for iw, nwin in [(0, 1), (1, 3)]:
            for etype in ("ap", "lf", "nidq"):
                self = fake_converter(np.asarray(conv), nap, ns)
                if isinstance(conv, list):
                    self.sr.channel_conversion_sample2v = {"ap": conv, "lf": conv}
                compare_ind2save(f"A3 {name} {etype} {iw}/{nwin}", self, cc, ss, fake_wg(iw, nwin), 1, etype)
    # napch different from idxsyncch (never the case in the converter, but the code allows it)
    self = fake_converter(np2_s2v(0.62, 2048, nap, 3), nap, ns, idxsyncch=nap + 2)
    compare_ind2save("A3 idxsyncch", self, c, s, fake_wg(0, 1), 1, "ap")


# ----------------------------------------------------------------------------------------------------------------
# B. _split2shanks
# ----------------------------------------------------------------------------------------------------------------
def random_shank_map(rng, nch, nshanks):
    """Arbitrary assignment of nch channels to nshanks shanks (each shank may be interleaved, or empty)"""
    kind = rng.integers(0, 4)
    if kind == 0:  # fully random
        return rng.integers(0, nshanks, nch)
    if kind == 1:  # blocks
        block = int(rng.choice([1, 2, 8, 48, 96]))
        return (np.arange(nch) // block) % nshanks
    if kind == 2:  # contiguous
        return np.sort(rng.integers(0, nshanks, nch))
    return np.zeros(nch, dtype=int) + int(rng.integers(0, nshanks))  # all on one shank


def compare_split2shanks(label, tmp, chunk, list_chns, etype="ap"):
    written = []
    outs = []
    for name, fcn in (("ref", ref_split2shanks), ("new", new_split2shanks)):
        self = types.SimpleNamespace(shank_info={})
        files = []
        for ish, chns in enumerate(list_chns):
            ff = tmp.joinpath(f"split_{name}_{ish}.bin")
            files.append(ff)
            self.shank_info[f"shank{ish}"] = {"chns": chns, "ap_open_file": open(ff, "wb"), "lf_open_file": None}
        if etype == "lf":
            for v in self.shank_info.values():
                v["lf_open_file"], v["ap_open_file"] = v["ap_open_file"], None
        # two chunks in a row: the files are appended to
        out = outcome(fcn, self, chunk, etype=etype)
        if out[0] == "ok":
            out = outcome(fcn, self, chunk[: len(chunk) // 2], etype=etype)
        outs.append(out)
        for v in self.shank_info.values():
            (v["ap_open_file"] or v["lf_open_file"]).close()
        written.append([ff.read_bytes() for ff in files])
    check_outcomes(label, *outs)
    if written[0] != written[1]:
        raise Mismatch(f"{label}: bytes written to the shank files differ")
    count("B _split2shanks")


def section_split2shanks(rng, tmp):
    for i in range(150):
        nch = int(rng.choice([384, 384, 96, 17, 5]))
        nshanks = int(rng.integers(1, 5))
        ns = int(rng.choice([0, 1, 2, 7, 40, 133]))
        shank_map = random_shank_map(rng, nch, nshanks)
        list_chns = [np.r_[np.where(shank_map == sh)[0], np.array([nch])] for sh in range(nshanks)]
        chunk = rng.integers(-32768, 32768, size=(ns, nch + 1)).astype(np.int16)
        if i % 9 == 4:
            chunk = np.asfortranarray(chunk)
        if i % 9 == 5:
            chunk = rng.integers(-32768, 32768, size=(ns, 2 * (nch + 1))).astype(np.int16)[:, ::2]
        if i % 10 == 7:
            list_chns = [c.astype(rng.choice([np.int32, np.uint16, np.uint64, np.int64])) for c in list_chns]
        compare_split2shanks(f"B case {i}", tmp, chunk, list_chns, etype="lf" if i % 4 == 0 else "ap")
    # edge cases of the column selection
    chunk = rng.integers(-32768, 32768, size=(20, 9)).astype(np.int16)
    edge = [
        [np.array([-1, 0, -9, 8])], [np.array([2, 2, 2, 0])], [np.array([], dtype=np.int64)], [np.array([9])],
        [np.array([-10])], [np.array([0, 3]), np.array([12])], [np.array([True, False] * 4 + [True])],
        [np.array([1.0, 2.0])], [np.array(3)], [np.array([[0, 1], [2, 3]])], [[0, 5, 8]], [slice(0, 4)],
        [np.array([2 ** 63 + 1], dtype=np.uint64)], [np.array([1, 2], dtype=object)], [(1, 2)],
    ]
    for i, list_chns in enumerate(edge):
        for ck in (chunk, chunk[:0], chunk[:, :0], chunk.astype(np.float32), np.asfortranarray(chunk)):
            compare_split2shanks(f"B edge {i} {list_chns}", tmp, ck, list_chns)


# ----------------------------------------------------------------------------------------------------------------
# C. _get_chans
# ----------------------------------------------------------------------------------------------------------------
def section_get_chans(rng):
    strings = ["5", "3:7", "5,9", "0:95,384", "0,2,4,6,384", "", ",", "a", "1:2:3", "7:3", " 4 , 6:8", "3:", ":3",
               "1,,2", "0:3,a", "0:0", "384", "-3:2", "1.5", "0:383,384", "10:12,10:12,5", None, 5, "99999999999999999999"]
    for i in range(180):
        nch = int(rng.choice([384, 384, 96, 12]))
        nshanks = int(rng.integers(1, 5))
        shank_map = random_shank_map(rng, nch, nshanks)
        for sh in range(nshanks):
            chns = np.r_[np.where(shank_map == sh)[0], np.array([nch])]
            strings.append(spikeglx._get_savedChans_subset(chns))
    for i, st in enumerate(strings):
        meta = {"snsSaveChanSubset_orig": st}
        check_outcomes(f"C string {st!r}", outcome(ref_get_chans, None, meta), outcome(new_get_chans, None, meta))
        count("C _get_chans")
    check_outcomes("C no key", outcome(ref_get_chans, None, {}), outcome(new_get_chans, None, {}))


# ----------------------------------------------------------------------------------------------------------------
# D. _reconstruct
# ----------------------------------------------------------------------------------------------------------------
class FakeReader:
    def __init__(self, raw):
        self._raw = raw
        self.closed = 0

    def close(self):
        self.closed += 1


def compare_reconstruct(label, tmp, list_chns, list_raw, nsamples, samples_window, nch):
    outs, files, states = [], [], []
    for name, fcn in (("ref", ref_reconstruct), ("new", new_reconstruct)):
        readers = [FakeReader(raw) for raw in list_raw]
        self = types.SimpleNamespace(
            save_file=tmp.joinpath(f"reconstruct_{name}.bin"), nsamples=nsamples, samples_window=samples_window, nch=nch,
            shank_info={f"shank{i}": {"chns": chns, "sr": sr} for i, (chns, sr) in enumerate(zip(list_chns, readers))})
        outs.append(outcome(fcn, self))
        files.append(self.save_file.read_bytes() if self.save_file.exists() else None)
        states.append(([r.closed for r in readers], [sorted(v.keys()) for v in self.shank_info.values()]))
    check_outcomes(label, *outs)
    if files[0] != files[1]:
        raise Mismatch(f"{label}: reconstructed files differ")
    if states[0] != states[1]:
        raise Mismatch(f"{label}: readers closed / shank_info left in a different state {states}")
    count("D _reconstruct")
    return files[1]


def section_reconstruct(rng, tmp):
    for i in range(150):
        nchp = int(rng.choice([384, 96, 24, 7]))
        nshanks = int(rng.integers(1, 5))
        samples_window = int(rng.choice([12, 60, 240, 600]))
        nsamples = int(rng.choice([0, 1, samples_window - 1, samples_window, samples_window + 1,
                                   3 * samples_window, int(rng.integers(1, 4 * samples_window))]))
        shank_map = random_shank_map(rng, nchp, nshanks)
        if i % 5 == 1:
            shank_map[rng.integers(0, nchp, 3)] = 9  # channels of no shank: columns stay at zero
        list_chns = [np.r_[np.where(shank_map == sh)[0], np.array([nchp])] for sh in range(nshanks)]
        nch = int(np.max(list_chns[0]) + 1)
        if i % 6 == 2:
            nch += 3
        full = rng.integers(-32768, 32768, size=(nsamples, nchp + 1)).astype(np.int16)
        list_raw = [full[:, chns] for chns in list_chns]
        if i % 8 == 3:  # sync of the other shanks differs: only the one of the first shank is used
            list_raw = [r.copy() for r in list_raw]
            for r in list_raw[1:]:
                r[:, -1] += 1
        out = compare_reconstruct(f"D case {i}", tmp, list_chns, list_raw, nsamples, samples_window, nch)
        if i % 5 != 1 and i % 6 != 2 and np.unique(shank_map).size == nshanks:
            if out != full.tobytes():
                raise Mismatch(f"D case {i}: the reconstruction is not the original frame")
    # edge cases: fewer samples in the files than announced, 0d channel arrays, repeated / negative channels
    full = rng.integers(-32768, 32768, size=(50, 9)).astype(np.int16)
    a, b = np.array([0, 2, 4, 8]), np.array([1, 3, 5, 6, 7, 8])
    edge = [
        ([a, b], [full[:40, a], full[:, b]], 50, 20, 9),
        ([a, b], [full[:, a], full[:41, b]], 50, 20, 9),
        ([a, b], [full[:1, a], full[:1, b]], 50, 20, 9),
        ([a, b], [full[:, a], full[:, b]], 50, 20, 4),
        ([a, b], [full[:, a], full[:, b]], -5, 20, 9),
        ([a, b], [full[:, a], full[:, b]], 50, 50, 9),
        ([a, np.array(8)], [full[:, a], full[:, [8]]], 50, 20, 9),
        ([np.array(8), b], [full[:, [8]], full[:, b]], 50, 20, 9),
        ([np.array([0, 0, -1, 8]), b], [full[:, a], full[:, b]], 50, 20, 9),
        ([a, b, np.array([2, 8])], [full[:, a], full[:, b], full[:, [7, 8]]], 50, 20, 9),
        ([a, b], [full[:, a], full[:, a]], 50, 20, 9),
        ([], [], 50, 20, 9),
        ([a.astype(float), b], [full[:, a], full[:, b]], 50, 20, 9),
        ([list(a), list(b)], [full[:, a], full[:, b]], 50, 20, 9),
    ]
    for i, (list_chns, list_raw, nsamples, samples_window, nch) in enumerate(edge):
        compare_reconstruct(f"D edge {i}", tmp, list_chns, list_raw, nsamples, samples_window, nch)


# ----------------------------------------------------------------------------------------------------------------
# E. end to end on synthetic NP2.4 recordings
# ----------------------------------------------------------------------------------------------------------------
def np24_meta_text(nsamples, full_scale, maxint, shank_map):
    """Text of a NP2.4 meta file with the given length, volts per bit setting and channel -> shank assignment"""
    meta = META_NP24.read_text()
    fs = float(re.search(r"imSampRate=(.*)", meta).group(1))
    nchar = [0]

    def shank_entry(m):
        out = f"({shank_map[nchar[0]]}:{m.group(2)}:{m.group(3)}:{m.group(4)})"
        nchar[0] += 1
        return out

    line = re.search(r"snsShankMap=.*", meta).group(0)
    new_line = re.sub(r"\(([0-9]*):([0-9]*):([0-9]*):([0-9]*)\)", shank_entry, line)
    assert nchar[0] == 384
    meta = meta.replace(line, new_line)
    meta = re.sub(r"fileTimeSecs=.*", f"fileTimeSecs={nsamples / fs:.9f}", meta)
    meta = re.sub(r"fileSizeBytes=.*", f"fileSizeBytes={nsamples * 385 * 2}", meta)
    meta = re.sub(r"imAiRangeMax=.*", f"imAiRangeMax={full_scale}", meta)
    meta = re.sub(r"imAiRangeMin=.*", f"imAiRangeMin=-{full_scale}", meta)
    meta = re.sub(r"imMaxInt=.*", f"imMaxInt={maxint}", meta)
    return meta


def write_recording(folder, rng, nsamples, full_scale, maxint, shank_map):
    folder.mkdir(parents=True)
    ap_file = folder.joinpath("_spikeglx_ephysData_g0_t0.imec0.ap.bin")
    ap_file.with_suffix(".meta").write_text(np24_meta_text(nsamples, full_scale, maxint, shank_map))
    data = rng.integers(-32768, 32768, size=(nsamples, 385)).astype(np.int16)
    data[:, -1] = rng.integers(0, 2, nsamples) * 64
    data[:5, :5] = np.array([-32768, 32767, 0, -1, 1], dtype=np.int16)
    data.tofile(ap_file)
    return ap_file


def section_end_to_end(rng, tmp):
    cases = [
        # nsamples, window, (full scale, maxint), number of shanks
        (4000, 1200, (0.5, 8192), 4),
        (3611, 1212, (0.62, 2048), 3),
        (2400, 2400, (0.6, 512), 2),
        (1500, 6000, (0.62, 8192), 1),
        (3000, 1188, (0.5, 8192), 4),
    ]
    for icase, (nsamples, nwindow, (full_scale, maxint), nshanks) in enumerate(cases):
        shank_map = random_shank_map(rng, 384, nshanks)
        shank_map[: nshanks] = np.arange(nshanks)  # every shank has at least one channel
        root = tmp.joinpath(f"e2e_{icase}")
        ap_src = write_recording(root.joinpath("source", "probe00"), rng, nsamples, full_scale, maxint, shank_map)
        dirs = {}
        for name, cls_conv, cls_rec in (("ref", RefConverter, RefReconstructor),
                                        ("new", neuropixel.NP2Converter, neuropixel.NP2Reconstructor)):
            dirs[name] = root.joinpath(name)
            shutil.copytree(root.joinpath("source"), dirs[name])
            ap_file = dirs[name].joinpath("probe00", ap_src.name)
            conv = cls_conv(ap_file, post_check=True, compress=False, delete_original=True)
            conv.init_params(nwindow=nwindow)
            status = conv.process()
            conv.sr.close()
            if status != 1 or not conv.check_completed:
                raise Mismatch(f"E case {icase} {name}: conversion failed")
        check_trees(f"E case {icase} split", dirs["ref"], dirs["new"])
        count("E end to end split")
        for name, cls_conv, cls_rec in (("ref", RefConverter, RefReconstructor),
                                        ("new", neuropixel.NP2Converter, neuropixel.NP2Reconstructor)):
            rec = cls_rec(dirs[name], "probe00", compress=False)
            status = rec.process()
            if status != 1:
                raise Mismatch(f"E case {icase} {name}: reconstruction failed")
            if rec.save_file.read_bytes() != ap_src.read_bytes():
                raise Mismatch(f"E case {icase} {name}: the reconstructed file is not the original")
        check_trees(f"E case {icase} reconstruction", dirs["ref"], dirs["new"])
        count("E end to end reconstruction")
        shutil.rmtree(root)


# ----------------------------------------------------------------------------------------------------------------
# F. _prepare_files_NP24
# ----------------------------------------------------------------------------------------------------------------
def section_prepare_files(rng, tmp):
    for i in range(40):
        nshanks = int(rng.integers(1, 5))
        shank_map = random_shank_map(rng, 384, nshanks)
        full_scale, maxint = NP2_SCALES[i % len(NP2_SCALES)]
        results = []
        for name, fcn in (("ref", ref_prepare_files_NP24), ("new", new_prepare_files_NP24)):
            root = tmp.joinpath(f"prep_{name}")
            ap_file = root.joinpath("probe01", "_spikeglx_ephysData_g0_t0.imec0.ap" + (".cbin" if i % 3 == 0 else ".bin"))
            ap_file.parent.mkdir(parents=True)
            ap_file.with_suffix(".meta").write_text(np24_meta_text(1000, full_scale, maxint, shank_map))
            if i % 4 == 1:  # one of the shank folders exists already
                root.joinpath("probe01b_x").mkdir()
            self = types.SimpleNamespace(
                sr=types.SimpleNamespace(meta=spikeglx.read_meta_data(ap_file.with_suffix(".meta")), is_mtscomp=i % 3 == 0),
                ap_file=ap_file, extra="_x" if i % 2 else "", nshank=[[0], [1, 3], None, None][i % 4])
            out = outcome(fcn, self, overwrite=i % 8 == 5)
            if out[0] == "ok":
                info = {}
                for sh, v in out[1].items():
                    v["ap_open_file"].close(), v["lf_open_file"].close()
                    info[sh] = {k: (str(Path(w.name if k.endswith("open_file") else w).relative_to(root)), w.__class__.__name__)
                                for k, w in v.items() if k != "chns"}
                    info[sh]["mode"] = (v["ap_open_file"].mode, v["lf_open_file"].mode)
                chns = {sh: v["chns"] for sh, v in out[1].items()}
                out = ("ok", (info, self.already_exists, sorted(vars(self).keys()), tree(root),
                              sorted(str(f.relative_to(root)) for f in root.rglob("*"))))
            else:
                chns = {}
            results.append((out, chns))
            shutil.rmtree(root)
        (ref, chns_ref), (new, chns_new) = results
        check_outcomes(f"F case {i}", ref, new)
        if list(chns_ref.keys()) != list(chns_new.keys()):
            raise Mismatch(f"F case {i}: shanks differ")
        for sh in chns_ref:
            check_outcomes(f"F case {i} chns {sh}", ("ok", chns_ref[sh]), ("ok", chns_new[sh]))
        count("F _prepare_files_NP24")


# ----------------------------------------------------------------------------------------------------------------
def main():
    t0 = time.time()
    logging.getLogger("ibllib").setLevel(logging.CRITICAL)
    rng = np.random.default_rng(20261004)
    scratch = HERE.joinpath(".tmp")
    scratch.mkdir(exist_ok=True)
    tmp = Path(tempfile.mkdtemp(prefix="demo_c03_", dir=scratch))
    try:
        section_ind2save(rng)
        section_split2shanks(rng, tmp)
        section_get_chans(rng)
        section_reconstruct(rng, tmp)
        section_prepare_files(rng, tmp)
        section_end_to_end(rng, tmp)
    except Mismatch as e:
        print(f"MISMATCH between the original and the refactored implementation\n{e}")
        return 1
    finally:
        shutil.rmtree(tmp, ignore_errors=True)
    for k, v in N_CASES.items():
        print(f"{k:32s}: {v} cases identical")
    print(f"all {sum(N_CASES.values())} cases identical in {time.time() - t0:.1f} s")
    return 0


if __name__ == "__main__":
    sys.exit(main())
