import sys, os; sys.path.insert(0, os.path.join(os.path.dirname(os.path.abspath(__file__)), "src"))
"""
C03 - NP2.4 shank splitting is lossless and reconstruction is its exact inverse.

Builds a small NP2.4 recording whose 384 channels are spread UNEVENLY over three shanks
(192 / 96 / 96 channels - an admissible IMRO selection, the usual hStripe layout has 96 on each of
four shanks), splits it with NP2Converter (post_check disabled, no compression) and checks

  1. every per-shank ap.bin against the definition: the original int16 samples of the columns
     np.where(shank == sh) followed by the sync column, in the original order;
  2. that NP2Reconstructor rebuilds the original binary byte for byte.

Exit code 0: property holds. Exit code 1: property violated (the reason is printed).
"""
import logging
import shutil
import tempfile
from pathlib import Path

import numpy as np

import spikeglx
from neuropixel import NP2Converter, NP2Reconstructor

logging.disable(logging.CRITICAL)

NC, NS, FS = 385, 3000, 30000
# shank of each block of 48 consecutive channels: shank 0 holds 192 channels, shanks 1 and 2 hold 96
BLOCK_SHANK = [0, 0, 1, 0, 0, 2, 1, 2]
SHANK = np.repeat(BLOCK_SHANK, 48)


def write_recording(folder, rng):
    """A NP2.4 (probe type 2013, 0.62 V / 2048 full scale) ap.bin + ap.meta pair, written from scratch"""
    folder.mkdir(parents=True)
    data = rng.integers(-32768, 32768, size=(NS, NC), dtype=np.int64).astype(np.int16)
    data[:4, :384] = np.array([-32768, 32767, -1, 0], dtype=np.int16)[:, np.newaxis]
    data[:, -1] = (np.arange(NS) // 7 % 2) * 64  # sync square wave on bit 6
    bin_file = folder.joinpath("_spikeglx_ephysData_g0_t0.imec0.ap.bin")
    data.tofile(bin_file)
    row = np.zeros(4, dtype=int)  # running site counter of each shank
    shank_map = ""
    for sh in SHANK:
        shank_map += f"({sh}:{row[sh] % 2}:{row[sh] // 2}:1)"
        row[sh] += 1
    meta = {
        "acqApLfSy": "384,0,1",
        "fileSizeBytes": NS * NC * 2,
        "fileTimeSecs": NS / FS,
        "imAiRangeMax": 0.62,
        "imAiRangeMin": -0.62,
        "imDatPrb_port": 1,
        "imDatPrb_slot": 2,
        "imDatPrb_sn": 19011110513,
        "imDatPrb_type": 2013,
        "imMaxInt": 2048,
        "imSampRate": FS,
        "nSavedChans": NC,
        "snsApLfSy": "384,0,1",
        "snsSaveChanSubset": "0:384",
        "typeThis": "imec",
        "imroTbl": "(2013,384)" + "".join(f"({c} 0 0 0 {c})" for c in range(384)),
        "snsShankMap": "(4,2,640)" + shank_map,
    }
    with open(bin_file.with_suffix(".meta"), "w") as fid:
        fid.write("".join(f"{k}={v}\n" for k, v in meta.items()))
    return bin_file, data


def main():
    rng = np.random.default_rng(20240603)
    root = Path(tempfile.mkdtemp(prefix="c03_demo_", dir=os.environ.get("TMPDIR")))
    problems = []
    try:
        bin_file, data = write_recording(root.joinpath("probe00"), rng)
        original_bytes = bin_file.read_bytes()

        conv = NP2Converter(bin_file, post_check=False, compress=False)
        conv.init_params(nwindow=1200)
        status = conv.process()
        conv.sr.close()
        assert status == 1, f"the converter did not run (status {status})"

        # 1. per-shank files against the definition
        for sh in np.unique(SHANK):
            expected = data[:, np.r_[np.where(SHANK == sh)[0], NC - 1]]
            ap_file = root.joinpath(f"probe00{chr(97 + sh)}", bin_file.name)
            written = np.fromfile(ap_file, dtype=np.int16)
            if written.size != expected.size:
                problems.append(
                    f"shank {sh}: {ap_file.parent.name}/{ap_file.name} holds {written.size} samples, "
                    f"expected {expected.shape[0]} x {expected.shape[1]} = {expected.size}"
                )
                continue
            written = written.reshape(expected.shape)
            if not np.array_equal(written, expected):
                bad = np.flatnonzero(np.any(written != expected, axis=0))
                problems.append(
                    f"shank {sh}: {bad.size} of {expected.shape[1]} columns of {ap_file.parent.name}/{ap_file.name} "
                    f"differ from the original channels (first wrong column {bad[0]})"
                )

        # 2. reconstruction is the exact inverse
        bin_file.unlink()
        bin_file.with_suffix(".meta").unlink()
        try:
            status = NP2Reconstructor(root, pname="probe00", compress=False).process()
            rebuilt = bin_file.read_bytes() if bin_file.exists() else b""
            if status != 1 or rebuilt != original_bytes:
                problems.append(
                    f"reconstruction: status {status}, {len(rebuilt)} bytes rebuilt, "
                    f"identical to the {len(original_bytes)} original bytes: {rebuilt == original_bytes}"
                )
        except Exception as e:  # noqa
            problems.append(f"reconstruction from the split files failed: {type(e).__name__}: {e}")
    finally:
        shutil.rmtree(root, ignore_errors=True)

    if problems:
        print("C03 VIOLATED: splitting a recording with 192/96/96 channels per shank is not lossless")
        for p in problems:
            print("  - " + p)
        return 1
    print("C03 holds: every shank file equals its original columns + sync, reconstruction is byte-identical")
    return 0


if __name__ == "__main__":
    sys.exit(main())
