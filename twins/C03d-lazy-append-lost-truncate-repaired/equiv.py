import sys, os; sys.path.insert(0, os.path.join(os.path.dirname(os.path.abspath(__file__)), "src"))
"""
C03 - NP2.4 shank splitting is lossless and reconstruction is its exact inverse.

Scenario: a recording is split with compress=False (the per-shank .bin files stay on disk), then
split a second time with overwrite=True ("to force reprocessing set overwrite to True").
After EACH run the per-shank ap.bin must hold exactly original[:, shank channels + sync] and the
reconstruction must give back the original binary byte for byte and the original metadata.

The oracle is plain NumPy on the array that was written to disk.
"""
import logging
import shutil
import tempfile
from pathlib import Path

import numpy as np

import spikeglx
import neuropixel
from neuropixel import NP2Converter, NP2Reconstructor

logging.disable(logging.CRITICAL)
assert Path(neuropixel.__file__).parent == Path(__file__).resolve().parent / "src", neuropixel.__file__

FS = 30000
NS = 5000  # not aligned with the processing window
NWINDOW = 1200  # multiple of 12
BIN_NAME = "_spikeglx_ephysData_g0_t0.imec0.ap.bin"
errors = []


def make_recording(folder, rng):
    """385 channel NP2.4 recording: random int16 samples, uneven shanks, 0.62 / 2048 gain"""
    folder.mkdir(parents=True)
    data = rng.integers(-32768, 32768, size=(NS, 385), dtype=np.int16)
    data[:4, :3] = np.array([-32768, 32767, -1, 0], dtype=np.int16)[:, np.newaxis]
    # arbitrary assignment of the 384 channels to 4 shanks of different sizes
    shank = np.r_[np.zeros(40), np.ones(120), 2 * np.ones(24), 3 * np.ones(100), np.zeros(60), 2 * np.ones(40)]
    shank = shank.astype(int)
    assert shank.size == 384
    shank_map = "(4,2,640)" + "".join(f"({s}:{i % 2}:{i // 2}:1)" for i, s in enumerate(shank))
    meta = {
        "acqApLfSy": "384,0,1",
        "fileSizeBytes": data.nbytes,
        "fileTimeSecs": NS / FS,
        "imAiRangeMax": 0.62,
        "imAiRangeMin": -0.62,
        "imDatPrb_type": 2013,
        "imDatPrb_sn": 19011116954,
        "imMaxInt": 2048,
        "imSampRate": FS,
        "nSavedChans": 385,
        "snsApLfSy": "384,0,1",
        "snsSaveChanSubset": "0:384",
        "typeThis": "imec",
        "~imroTbl": "(2013,384)" + "".join(f"({i} 0 0 0 {i})" for i in range(384)),
        "~snsShankMap": shank_map,
    }
    bin_file = folder / BIN_NAME
    data.tofile(bin_file)
    with open(bin_file.with_suffix(".meta"), "w") as fid:
        fid.write("".join(f"{k}={v}\n" for k, v in meta.items()))
    assert spikeglx.Reader(bin_file, open=False).ns == NS
    return bin_file, data, shank


def check_split(tag, conv, data, shank):
    """each ap.bin == original samples of the channels of the shank followed by the sync channel"""
    ok = True
    for sh in np.unique(shank):
        chns = np.r_[np.flatnonzero(shank == sh), 384]
        expected = data[:, chns]
        ap_file = Path(conv.shank_info[f"shank{sh}"]["ap_file"])
        got = np.fromfile(ap_file, dtype=np.int16)
        if got.size != expected.size:
            ok = False
            errors.append(
                f"{tag}: {ap_file.parent.name}/{ap_file.name} holds {got.size / chns.size:g} sample frames "
                f"of {chns.size} channels, expected {NS}"
                + (" (the last %d frames are the expected content, they were written after the frames left over from"
                   " the previous run)" % NS
                   if got.size > expected.size and np.array_equal(got[-expected.size:], expected.ravel()) else "")
            )
        elif not np.array_equal(got.reshape(expected.shape), expected):
            ok = False
            nbad = int(np.sum(got.reshape(expected.shape) != expected))
            errors.append(f"{tag}: {ap_file.parent.name}/{ap_file.name} differs from the original in {nbad} samples")
    return ok


def check_reconstruction(tag, root, bin_file, data):
    """the reassembled file is the original, byte for byte, and so is the metadata (but for one flag)"""
    recon_root = root / f"recon_{tag}"
    for folder in sorted(root.glob("probe00?")):
        shutil.copytree(folder, recon_root / folder.name)
    recon = NP2Reconstructor(recon_root, pname="probe00", compress=False)
    status = recon.process()
    if status != 1:
        errors.append(f"{tag}: reconstruction returned status {status}")
        return
    got = Path(recon.save_file).read_bytes()
    if got != data.tobytes():
        errors.append(
            f"{tag}: reconstructed binary differs from the original ({len(got)} bytes instead of {data.nbytes}, "
            f"status returned: {status})"
        )
    meta_orig = spikeglx.read_meta_data(bin_file.with_suffix(".meta"))
    meta_recon = spikeglx.read_meta_data(Path(recon.save_file).with_suffix(".meta"))
    meta_recon.pop("original_meta", None)
    if dict(meta_orig) != dict(meta_recon):
        diff = {k: (meta_orig.get(k), meta_recon.get(k)) for k in set(meta_orig) | set(meta_recon)
                if meta_orig.get(k) != meta_recon.get(k)}
        errors.append(f"{tag}: reconstructed metadata differs from the original: {diff}")


def main():
    root = Path(tempfile.mkdtemp(prefix="c03_demo_"))
    try:
        bin_file, data, shank = make_recording(root / "probe00", np.random.default_rng(20240313))

        # first run, the flat binaries are kept
        conv = NP2Converter(bin_file, post_check=True, compress=False)
        conv.init_params(nwindow=NWINDOW)
        assert conv.process() == 1
        conv.sr.close()
        check_split("first split", conv, data, shank)
        check_reconstruction("first", root, bin_file, data)

        # second run over the existing shank folders: without overwrite nothing happens ...
        conv = NP2Converter(bin_file, post_check=True, compress=False)
        conv.init_params(nwindow=NWINDOW)
        assert conv.process() == 0 and conv.already_exists
        conv.sr.close()
        # ... with overwrite=True the split is redone, the built-in post check passes
        conv = NP2Converter(bin_file, post_check=True, compress=False)
        conv.init_params(nwindow=NWINDOW)
        status = conv.process(overwrite=True)
        conv.sr.close()
        if status != 1 or not conv.check_completed:
            errors.append(f"second split: status {status}, check_completed {conv.check_completed}")
        check_split("second split (overwrite=True)", conv, data, shank)
        check_reconstruction("second", root, bin_file, data)
    finally:
        shutil.rmtree(root, ignore_errors=True)

    if errors:
        print("C03 VIOLATED: splitting is not lossless / reconstruction is not the inverse of splitting")
        for e in errors:
            print("  -", e)
        return 1
    print("C03 holds: every shank file equals original[:, channels + sync] after both runs, "
          "reconstruction is byte-identical, metadata identical")
    return 0


if __name__ == "__main__":
    sys.exit(main())
