import sys, os; sys.path.insert(0, os.path.join(os.path.dirname(os.path.abspath(__file__)), "src"))
"""
C03: splitting an NP2.4 recording into shanks must be lossless for every int16 sample value and
every volts-per-bit setting, and the reconstruction must give back the original binary.

The program builds its own 4-shank NP2.4 recordings (all 65536 int16 values present, recording
length not aligned with the processing window), one per full-scale / max-int setting written by
SpikeGLX for NP2 probes, splits them with NP2Converter and compares every per-shank AP file with
the columns of the original int16 matrix (plain NumPy oracle).  It then reassembles the shanks with
NP2Reconstructor and compares the bytes with the original file.

exit 0: property holds, exit 1: property broken (details printed)
"""
import logging
import shutil
import tempfile
from pathlib import Path

import numpy as np

import spikeglx
from neuropixel import NP2Converter, NP2Reconstructor

logging.disable(logging.CRITICAL)

NC, NS, NWINDOW = 385, 20011, 6000  # 6000 is a multiple of 12, 20011 is not aligned with it
GAINS = [(0.5, 8192, 24), (0.62, 2048, 2013), (0.6, 512, 24), (0.62, 8192, 2013)]


def shank_of_channel():
    # usual 4 shanks layout: blocks of 48 channels alternate between shanks
    return (np.arange(384) // 48) % 4


def write_meta(meta_file, ai_range, max_int, prb_type):
    shank = shank_of_channel()
    row = np.zeros(384, dtype=int)
    for sh in range(4):
        isel = np.where(shank == sh)[0]
        row[isel] = np.arange(isel.size) // 2
    col = np.arange(384) % 2
    shank_map = "(4,2,640)" + "".join(f"({s}:{c}:{r}:1)" for s, c, r in zip(shank, col, row))
    imro = f"({prb_type},384)" + "".join(f"({i} 0 0 0 {i})" for i in range(384))
    lines = [
        "acqApLfSy=384,0,1",
        "appVersion=20201103",
        f"fileSizeBytes={NS * NC * 2}",
        f"fileTimeSecs={NS / 30000}",
        f"imAiRangeMax={ai_range}",
        f"imAiRangeMin=-{ai_range}",
        "imDatPrb_port=1",
        "imDatPrb_slot=2",
        "imDatPrb_sn=19011116954",
        f"imDatPrb_type={prb_type}",
        f"imMaxInt={max_int}",
        "imSampRate=30000",
        "nSavedChans=385",
        "snsApLfSy=384,0,1",
        "snsSaveChanSubset=0:384",
        "typeThis=imec",
        f"~imroTbl={imro}",
        f"~snsShankMap={shank_map}",
    ]
    Path(meta_file).write_text("\n".join(lines) + "\n")


def make_data():
    # every int16 value occurs: each channel is a ramp, channels are offset by 171 (384 * 171 > 65536)
    t = np.arange(NS, dtype=np.int64)[:, np.newaxis]
    c = np.arange(NC, dtype=np.int64)[np.newaxis, :]
    d = ((t + 171 * c) % 65536 - 32768).astype(np.int16)
    d[:, -1] = ((t[:, 0] * 7) % 65536 - 32768).astype(np.int16)  # sync word: any 16 bits pattern
    assert np.unique(d[:, :-1]).size == 65536
    return d


def check_one(root, data, ai_range, max_int, prb_type):
    errors = []
    probe = root.joinpath(f"g_{ai_range}_{max_int}", "raw_ephys_data", "probe00")
    probe.mkdir(parents=True)
    ap_file = probe.joinpath("_spikeglx_ephysData_g0_t0.imec0.ap.bin")
    data.tofile(ap_file)
    write_meta(ap_file.with_suffix(".meta"), ai_range, max_int, prb_type)
    original_bytes = ap_file.read_bytes()

    conv = NP2Converter(ap_file, post_check=False, compress=False)
    conv.init_params(nwindow=NWINDOW)
    assert conv.np_version == "NP2.4"
    status = conv.process()
    conv.sr.close()
    assert status == 1

    shank = shank_of_channel()
    for sh in range(4):
        chns = np.r_[np.where(shank == sh)[0], 384]  # definition: the shank's channels, then sync
        fbin = conv.shank_info[f"shank{sh}"]["ap_file"]
        got = np.fromfile(fbin, dtype=np.int16)
        if got.size != NS * chns.size:
            errors.append(f"shank {sh}: {got.size} samples written, expected {NS * chns.size}")
            continue
        got = got.reshape(NS, chns.size)
        expected = data[:, chns]
        bad = got != expected
        if np.any(bad):
            i, j = np.argwhere(bad)[0]
            errors.append(
                f"shank {sh}: {int(bad.sum())} samples differ from the original "
                f"({np.unique(expected[bad]).size} distinct int16 values), e.g. sample {i} of channel "
                f"{chns[j]}: original {expected[i, j]}, split file {got[i, j]}"
            )

    # reassemble: must be the original file byte for byte
    ap_file.unlink()
    ap_file.with_suffix(".meta").unlink()
    recon = NP2Reconstructor(probe.parent, pname="probe00", compress=False)
    assert recon.process() == 1
    if recon.save_file.read_bytes() != original_bytes:
        rec = np.fromfile(recon.save_file, dtype=np.int16)
        ndiff = int(np.sum(rec != data.ravel())) if rec.size == data.size else -1
        errors.append(f"reconstructed binary differs from the original ({ndiff} int16 words differ)")
    return errors


def main():
    root = Path(tempfile.mkdtemp(prefix="c03_demo_", dir=os.environ.get("TMPDIR")))
    data = make_data()
    failed = False
    try:
        for ai_range, max_int, prb_type in GAINS:
            errors = check_one(root, data, ai_range, max_int, prb_type)
            tag = f"imAiRangeMax={ai_range} imMaxInt={max_int} (gain 80)"
            if errors:
                failed = True
                print(f"FAIL {tag}")
                for e in errors:
                    print(f"    {e}")
            else:
                print(f"ok   {tag}: 4 shank files identical to the original columns, "
                      f"reconstruction identical byte for byte")
    finally:
        shutil.rmtree(root, ignore_errors=True)
    if failed:
        print("C03 broken: NP2.4 shank splitting is not lossless")
        return 1
    print("C03 holds on all settings")
    return 0


if __name__ == "__main__":
    sys.exit(main())
