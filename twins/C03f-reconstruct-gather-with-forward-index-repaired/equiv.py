import sys, os; sys.path.insert(0, os.path.join(os.path.dirname(os.path.abspath(__file__)), "src"))
"""
C03 demo: NP2.4 shank splitting must be lossless for any shank map.

Builds small NP2.4 recordings (random int16 samples incl. the extreme values, 0.62/2048 full scale,
sync word on the last channel) with several assignments of the 8 banks of 48 channels to the
shanks: the one of the test fixture (0101 2323), the shanks taken in turn (0123 0123) and two
uneven ones (240/144 channels on 2 shanks, 192/96/48/48 on 4 shanks).  Each one is split with
NP2Converter (window of 1200 samples, recording length not a multiple of it) and every per-shank
AP file is compared with the definition: original[:, channels of that shank + sync], where the
expected channel lists are parsed here from the snsShankMap text, not by the library.
The shank files are then reassembled with NP2Reconstructor and the result is compared with the
original, byte for byte for the binary and key for key for the metadata.
"""
import logging
import re
import shutil
import tempfile
from pathlib import Path

import numpy as np

import neuropixel
import spikeglx

logging.disable(logging.CRITICAL)
NS, NC, WINDOW = 4100, 385, 1200  # window is a multiple of 12, recording is not aligned with it


def write_recording(folder, shank_of_block, rng):
    """shank_of_block: shank number of each of the 8 blocks of 48 consecutive channels"""
    folder.mkdir(parents=True)
    shank = np.repeat(np.array(shank_of_block), 48)
    data = rng.integers(-32768, 32768, size=(NS, NC)).astype(np.int16)
    data[:8, :384] = np.array([-32768, 32767, -1, 0, 1, -2047, 2047, 12345], dtype=np.int16)[:, None]
    data[:, -1] = (64 * ((np.arange(NS) // 37) % 2)).astype(np.int16)
    bin_file = folder.joinpath("mock_g0_t0.imec0.ap.bin")
    data.tofile(bin_file)
    shank_map = "(4,2,640)" + "".join(f"({int(s)}:{c % 2}:{c // 2}:1)" for c, s in enumerate(shank))
    imro = "(24,384)" + "".join(f"({c} {int(s)} 0 0 {c})" for c, s in enumerate(shank))
    chan_map = "(384,0,1)" + "".join(f"(AP{c};{c}:{c})" for c in range(384)) + "(SY0;384:384)"
    meta = {
        "acqApLfSy": "384,0,1", "fileSizeBytes": data.nbytes, "fileTimeSecs": NS / 30000,
        "imAiRangeMax": 0.62, "imAiRangeMin": -0.62, "imDatPrb_type": 24, "imDatPrb_sn": 19011110513,
        "imDatPrb_port": 1, "imDatPrb_slot": 2, "imMaxInt": 2048, "imSampRate": 30000,
        "nSavedChans": NC, "snsApLfSy": "384,0,1", "snsSaveChanSubset": "0:384", "typeThis": "imec",
        "~imroTbl": imro, "~snsChanMap": chan_map, "~snsShankMap": shank_map,
    }
    bin_file.with_suffix(".meta").write_text("".join(f"{k}={v}\n" for k, v in meta.items()))
    return bin_file, data, shank_map


def expected_channels(shank_map_text):
    """{shank: channel indices in recording order}, straight from the snsShankMap text"""
    shank = np.array([int(e.split(":")[0]) for e in re.findall(r"\((\d+:\d+:\d+:\d+)\)", shank_map_text)])
    return {int(s): np.flatnonzero(shank == s) for s in np.unique(shank)}


def check_case(root, name, shank_of_block, rng):
    errors = []
    bin_file, data, shank_map = write_recording(root.joinpath(name, "probe00"), shank_of_block, rng)
    conv = neuropixel.NP2Converter(bin_file, compress=False)  # post_check left on, as by default
    conv.init_params(nwindow=WINDOW)
    try:
        status = conv.process()
    except Exception as e:  # noqa
        conv.sr.close()
        return [f"{name}: NP2Converter.process() raised {type(e).__name__}: {e}"]
    conv.sr.close()
    if status != 1:
        return [f"{name}: NP2Converter.process() returned {status}"]
    for sh, chans in expected_channels(shank_map).items():
        expected = data[:, np.r_[chans, 384]]
        ap_file = bin_file.parent.parent.joinpath("probe00" + "abcd"[sh], bin_file.name)
        if not ap_file.exists():
            errors.append(f"{name}: no AP file for shank {sh} ({ap_file})")
            continue
        written = np.fromfile(ap_file, dtype=np.int16)
        if written.size != expected.size:
            errors.append(f"{name}: shank {sh} AP file holds {written.size / NS:g} channels per sample, "
                          f"the shank has {chans.size} + sync")
            continue
        written = written.reshape(NS, -1)
        bad = np.flatnonzero(np.any(written != expected, axis=0))
        if bad.size:
            errors.append(f"{name}: shank {sh} AP file differs from the original in {bad.size} of "
                          f"{expected.shape[1]} columns (first at column {bad[0]}, which should be "
                          f"original channel {np.r_[chans, 384][bad[0]]})")
    if errors:
        return errors
    # reassemble and compare with the original
    orig_bytes = bin_file.read_bytes()
    orig_meta = spikeglx.read_meta_data(bin_file.with_suffix(".meta"))
    shutil.rmtree(bin_file.parent)
    recon = neuropixel.NP2Reconstructor(bin_file.parent.parent, pname="probe00", compress=False)
    try:
        status = recon.process()
    except Exception as e:  # noqa
        return [f"{name}: NP2Reconstructor.process() raised {type(e).__name__}: {e}"]
    if status != 1:
        return [f"{name}: NP2Reconstructor.process() returned {status}"]
    recon_bytes = bin_file.read_bytes()
    if len(recon_bytes) != len(orig_bytes):
        errors.append(f"{name}: reconstructed binary is {len(recon_bytes)} bytes, the original {len(orig_bytes)}")
    elif recon_bytes != orig_bytes:
        rec = np.frombuffer(recon_bytes, dtype=np.int16).reshape(NS, NC)
        bad = np.flatnonzero(np.any(rec != data, axis=0))
        src = np.flatnonzero(np.all(data == rec[:, bad[:1]], axis=0))
        errors.append(f"{name}: shank files are correct but the reconstructed binary differs from the original in "
                      f"{bad.size} of {NC} channels (first: channel {bad[0]}, which holds the samples of original "
                      f"channel {src[0] if src.size else '?'})")
    recon_meta = spikeglx.read_meta_data(bin_file.with_suffix(".meta"))
    recon_meta.pop("original_meta", None)
    if recon_meta != orig_meta:
        diff = [k for k in set(orig_meta) | set(recon_meta) if orig_meta.get(k) != recon_meta.get(k)]
        errors.append(f"{name}: reconstructed metadata differs from the original in {sorted(diff)}")
    return errors


def main():
    rng = np.random.default_rng(3)
    scratch = Path(__file__).resolve().parent.joinpath(".tmp")
    scratch.mkdir(exist_ok=True)
    root = Path(tempfile.mkdtemp(prefix="c03_demo_", dir=scratch))
    try:
        errors = []
        errors += check_case(root, "4x96 map, banks 0101 2323 (as the test fixture)", [0, 1, 0, 1, 2, 3, 2, 3], rng)
        errors += check_case(root, "4x96 map, banks 0123 0123", [0, 1, 2, 3, 0, 1, 2, 3], rng)
        errors += check_case(root, "uneven 240/144 map", [0, 0, 1, 0, 1, 0, 1, 0], rng)
        errors += check_case(root, "uneven 192/96/48/48 map", [0, 1, 0, 2, 0, 3, 1, 0], rng)
    finally:
        shutil.rmtree(root, ignore_errors=True)
    if errors:
        print("C03 VIOLATED: splitting into shanks and reassembling is not lossless")
        for e in errors:
            print("  - " + e)
        return 1
    print("C03 holds: every shank file equals original[:, shank channels + sync]; reconstruction is exact")
    return 0


if __name__ == "__main__":
    sys.exit(main())
