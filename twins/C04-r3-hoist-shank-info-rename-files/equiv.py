"""
Differential check for refactor_N.diff of property C04 (NP2Converter run histories).

Loads the ORIGINAL src/neuropixel.py (git HEAD, pristine copy under /tmp/wt_C04_tmp/orig/src) and the
REFACTORED one (the worktree file /tmp/wt_C04/src/neuropixel.py when the patch is applied there; if the
worktree is clean the patch refactor_N.diff is applied to a private copy under /tmp/wt_C04_tmp/refN/src)
and drives both through the same run histories (first run, rerun, forced overwrite, interrupted + retried
runs, already split input, NP2.1 / NP1 probes, all option combinations), comparing return status, raised
exceptions, log messages, converter state and the complete on-disk file tree (names, sizes, SHA-1).

Prints EQUIVALENT and exits 0 when no difference is found.
"""
import hashlib
import importlib.util
import io
import itertools
import logging
import os
import shutil
import subprocess
import sys
import time
from pathlib import Path

N = 3  # which refactoring this script checks

WT = Path("/tmp/wt_C04")
TMP = Path("/tmp/wt_C04_tmp")
ORIG_SRC = TMP / "orig" / "src"
REF_SRC = TMP / f"ref{N}" / "src"
WORK = TMP / f"equiv{N}_work"
FIXTURES = WT / "src" / "tests" / "fixtures" / "np2split"
BIN_NAME = "_spikeglx_ephysData_g0_t0.imec0.ap.bin"
META_NAME = "_spikeglx_ephysData_g0_t0.imec0.ap.meta"

os.environ.setdefault("TMPDIR", str(TMP))
TMP.mkdir(exist_ok=True)


# ----------------------------------------------------------------------------------------------
# module loading
# ----------------------------------------------------------------------------------------------
def _git_show(relpath):
    return subprocess.run(
        ["git", "-C", str(WT), "show", f"HEAD:{relpath}"], check=True, capture_output=True
    ).stdout


def prepare_sources():
    """Returns (path of original neuropixel.py, path of refactored neuropixel.py)"""
    ORIG_SRC.mkdir(parents=True, exist_ok=True)
    orig_bytes = _git_show("src/neuropixel.py")
    (ORIG_SRC / "neuropixel.py").write_bytes(orig_bytes)
    wt_file = WT / "src" / "neuropixel.py"
    if wt_file.read_bytes() != orig_bytes:
        ref_file = wt_file  # patch is applied in the worktree
    else:
        # clean worktree: build the refactored copy from the stored patch
        if REF_SRC.parent.exists():
            shutil.rmtree(REF_SRC.parent)
        REF_SRC.mkdir(parents=True)
        (REF_SRC / "neuropixel.py").write_bytes(orig_bytes)
        subprocess.run(
            ["patch", "-p1", "-s", "-d", str(REF_SRC.parent), "-i", str(WT / f"refactor_{N}.diff")],
            check=True,
        )
        ref_file = REF_SRC / "neuropixel.py"
        print(f"note: worktree is clean, refactored module built from refactor_{N}.diff in {ref_file}")
    assert ref_file.read_bytes() != orig_bytes, "refactored source is identical to the original"
    return ORIG_SRC / "neuropixel.py", ref_file


# shared dependencies (spikeglx, ibldsp) always come from the worktree sources
sys.path.insert(0, str(WT / "src"))
import numpy as np  # noqa: E402
import spikeglx  # noqa: E402
import ibldsp.utils  # noqa: E402

assert Path(spikeglx.__file__).resolve() == (WT / "src" / "spikeglx.py").resolve(), spikeglx.__file__
assert Path(ibldsp.utils.__file__).resolve() == (WT / "src" / "ibldsp" / "utils.py").resolve()
assert _git_show("src/spikeglx.py") == (WT / "src" / "spikeglx.py").read_bytes(), "spikeglx.py must be pristine"


def load_module(name, path):
    spec = importlib.util.spec_from_file_location(name, str(path))
    mod = importlib.util.module_from_spec(spec)
    spec.loader.exec_module(mod)
    assert Path(mod.__file__).resolve() == Path(path).resolve(), (mod.__file__, path)
    assert mod.spikeglx is spikeglx
    return mod


# ----------------------------------------------------------------------------------------------
# observation helpers
# ----------------------------------------------------------------------------------------------
class InjectedFault(Exception):
    pass


def sha1(path):
    h = hashlib.sha1()
    with open(path, "rb") as fid:
        for blk in iter(lambda: fid.read(1 << 20), b""):
            h.update(blk)
    return h.hexdigest()


def snapshot(root):
    out = []
    for p in sorted(root.rglob("*")):
        rel = str(p.relative_to(root))
        if p.is_dir():
            out.append((rel, "dir"))
        else:
            out.append((rel, p.stat().st_size, sha1(p)))
    return out


def describe(value, root):
    if isinstance(value, Path):
        try:
            return ("Path", str(value.relative_to(root)))
        except ValueError:
            return ("Path", str(value))
    if isinstance(value, np.ndarray):
        return ("ndarray", str(value.dtype), value.shape, hashlib.sha1(np.ascontiguousarray(value).tobytes()).hexdigest())
    if isinstance(value, spikeglx.Reader):
        return ("Reader", describe(Path(value.file_bin), root), bool(value.is_open))
    if isinstance(value, io.IOBase):
        return ("file", describe(Path(value.name), root), value.mode, value.closed)
    if isinstance(value, dict):
        return ("dict", [(k, describe(v, root)) for k, v in value.items()])  # keeps insertion order
    if isinstance(value, (list, tuple)):
        return (type(value).__name__, [describe(v, root) for v in value])
    return (type(value).__name__, repr(value))


_MISSING = "<missing>"


def conv_state(conv, root):
    names = ["already_processed", "already_exists", "check_completed", "post_check", "compress",
             "delete_original", "np_version", "ap_file", "shank_info", "nshank", "extra", "nsamples"]
    st = [(n, describe(getattr(conv, n, _MISSING), root)) for n in names]
    sr = getattr(conv, "sr", None)
    st.append(("sr", describe(sr, root)))
    st.append(("attrs", sorted(vars(conv).keys())))
    return st


class LogCapture(logging.Handler):
    def __init__(self, root):
        super().__init__(level=logging.DEBUG)
        self.root = str(root)
        self.records = []

    def emit(self, record):
        self.records.append((record.levelname, record.getMessage().replace(self.root, "<root>"), record.funcName))


def outcome(fn, root):
    """Runs fn, returns ('ok', described result) or ('exc', type, message)"""
    try:
        return ("ok", describe(fn(), root))
    except BaseException as e:  # noqa
        return ("exc", type(e).__name__, str(e).replace(str(root), "<root>"))


def reader_closed(sr):
    """True when the memory map behind a spikeglx.Reader has been closed (reading it would crash python)"""
    raw = getattr(sr, "_raw", None)
    mm = getattr(raw, "_mmap", None)
    return bool(mm is not None and mm.closed)


def close_all(conv):
    """Close every reader / file handle a converter may still hold (emulates process exit)"""
    if conv is None:
        return
    sr = getattr(conv, "sr", None)
    if sr is not None:
        try:
            sr.close()
        except Exception:
            pass
    for info in getattr(conv, "shank_info", {}).values():
        for v in info.values():
            if isinstance(v, (spikeglx.Reader, io.IOBase)):
                try:
                    v.close()
                except Exception:
                    pass


# ----------------------------------------------------------------------------------------------
# fault injection: patches SHARED code (spikeglx) or methods of the converter that are not part of
# the refactored mechanisms, so that both implementations see exactly the same interruptions
# ----------------------------------------------------------------------------------------------
class Fault:
    """
    kind: 'getitem'   -> k-th spikeglx.Reader.__getitem__ call raises (windows of splitting and of verification)
          'split'     -> k-th NP2Converter._split2shanks call raises
          'meta'      -> k-th spikeglx.write_meta_data call raises (before writing)
          'meta_post' -> k-th spikeglx.write_meta_data call raises after writing
          'compress'  -> k-th spikeglx.Reader.compress_file call raises before compressing
          'compress_post' -> k-th compress_file call raises after the cbin has been written
          'reader'    -> k-th spikeglx.Reader construction raises
          'unlink'    -> k-th Path.unlink call raises
    """

    def __init__(self, kind, k):
        self.kind, self.k, self.count, self.fired = kind, k, 0, False
        self._undo = []

    def __repr__(self):
        return f"Fault({self.kind},{self.k})"

    def _tick(self):
        self.count += 1
        if self.count == self.k:
            self.fired = True
            return True
        return False

    def _patch(self, obj, name, wrapper_factory):
        orig = obj.__dict__[name] if isinstance(obj, type) else getattr(obj, name)
        setattr(obj, name, wrapper_factory(orig))
        self._undo.append((obj, name, orig))

    def install(self, mod):
        fault = self
        kind = self.kind
        if kind == "getitem":
            def fac(orig):
                def __getitem__(self, item):
                    if fault._tick():
                        raise InjectedFault("getitem")
                    return orig(self, item)
                return __getitem__
            self._patch(spikeglx.Reader, "__getitem__", fac)
        elif kind == "split":
            def fac(orig):
                def _split2shanks(self, chunk, etype="ap"):
                    if fault._tick():
                        raise InjectedFault("split")
                    return orig(self, chunk, etype=etype)
                return _split2shanks
            self._patch(mod.NP2Converter, "_split2shanks", fac)
        elif kind in ("meta", "meta_post"):
            def fac(orig):
                def write_meta_data(md, md_file):
                    hit = fault._tick()
                    if hit and kind == "meta":
                        raise InjectedFault("meta")
                    orig(md, md_file)
                    if hit:
                        raise InjectedFault("meta_post")
                return write_meta_data
            self._patch(spikeglx, "write_meta_data", fac)
        elif kind in ("compress", "compress_post"):
            def fac(orig):
                def compress_file(self, *args, **kwargs):
                    hit = fault._tick()
                    if hit and kind == "compress":
                        raise InjectedFault("compress")
                    out = orig(self, *args, **kwargs)
                    if hit:
                        raise InjectedFault("compress_post")
                    return out
                return compress_file
            self._patch(spikeglx.Reader, "compress_file", fac)
        elif kind == "reader":
            def fac(orig):
                def __init__(self, *args, **kwargs):
                    if fault._tick():
                        raise InjectedFault("reader")
                    return orig(self, *args, **kwargs)
                return __init__
            self._patch(spikeglx.Reader, "__init__", fac)
        elif kind == "unlink":
            def fac(orig):
                def unlink(self, *args, **kwargs):
                    if fault._tick():
                        raise InjectedFault("unlink")
                    return orig(self, *args, **kwargs)
                return unlink
            self._patch(Path, "unlink", fac)
        else:
            raise ValueError(kind)

    def remove(self):
        for obj, name, orig in reversed(self._undo):
            setattr(obj, name, orig)
        self._undo = []


# ----------------------------------------------------------------------------------------------
# data sets
# ----------------------------------------------------------------------------------------------
NS = 2400
NWINDOW = 1200


def make_dataset(root, kind, seed):
    """Creates <root>/probe00/{bin,meta}; returns path to the ap file to hand to the converter"""
    rng = np.random.default_rng(seed)
    d = root / "probe00"
    d.mkdir(parents=True)
    if seed % 3 == 0:
        dat = np.tile(np.arange(385)[np.newaxis, :] + 10000, [NS, 1]).astype(np.int16)
    else:
        dat = rng.integers(-3000, 3000, size=(NS, 385)).astype(np.int16)
        dat[:, -1] = rng.integers(0, 64, size=NS)
    dat.tofile(d / BIN_NAME)
    meta_dir = {"NP2.4": "NP24_meta", "NP2.4c": "NP24_meta", "NP2.1": "NP21_meta", "NP2.1c": "NP21_meta",
                "NP1": "NP1_meta"}[kind]
    shutil.copy(FIXTURES / meta_dir / META_NAME, d / META_NAME)
    ap_file = d / BIN_NAME
    if kind.endswith("c"):  # input already mtscomp compressed
        sr = spikeglx.Reader(ap_file)
        cbin = sr.compress_file(check_after_compress=False)
        sr.close()
        ap_file.unlink()
        ap_file = cbin
    return ap_file


# ----------------------------------------------------------------------------------------------
# scenario runner
# ----------------------------------------------------------------------------------------------
def run_scenario(mod, sc, tag):
    """
    sc = dict(kind=, seed=, opts=(post_check, compress, delete_original), steps=[...], reuse=bool,
              init=dict(extra=, nshank=))
    step = dict(op='process', overwrite=bool, fault=Fault-spec or None)
         | dict(op='method', name=..., args=..., kwargs=..., set=dict of attributes to set first)
         | dict(op='precreate', dirs=[...]) | dict(op='corrupt', rel=...) | dict(op='retarget', rel=...)
         | dict(op='touch', rel=...)
    """
    root = WORK / tag
    if root.exists():
        shutil.rmtree(root)
    root.mkdir(parents=True)
    ap_file = make_dataset(root, sc["kind"], sc["seed"])
    target = ap_file
    trace = [("initial", snapshot(root))]
    handler = LogCapture(root)
    logger = logging.getLogger("ibllib")
    old_level, old_prop = logger.level, logger.propagate
    logger.addHandler(handler)
    logger.setLevel(logging.DEBUG)
    logger.propagate = False
    conv = None
    post_check, compress, delete_original = sc["opts"]
    try:
        for i, step in enumerate(sc["steps"]):
            op = step["op"]
            handler.records = []
            if op == "precreate":
                for dname in step["dirs"]:
                    (root / dname).mkdir(parents=True, exist_ok=True)
                trace.append((i, op, snapshot(root)))
                continue
            if op == "touch":
                p = root / step["rel"]
                p.parent.mkdir(parents=True, exist_ok=True)
                p.write_bytes(step.get("content", b"stale"))
                trace.append((i, op, snapshot(root)))
                continue
            if op == "corrupt":
                p = root / step["rel"]
                res = "absent"
                if p.exists():
                    with open(p, "r+b") as f:
                        f.seek(step.get("offset", 0))
                        f.write(b"\x0a\x14\x1e\x28")
                    res = "corrupted"
                trace.append((i, op, res))
                continue
            if op == "retarget":
                target = root / step["rel"]
                close_all(conv)
                conv = None
                trace.append((i, op, str(step["rel"])))
                continue

            if conv is not None and reader_closed(getattr(conv, "sr", None)):
                # a re-used converter whose main reader was closed (after deletion of the original or an
                # interrupted in-place compression): reading would segfault in BOTH implementations,
                # so continue with a fresh converter as a new process would
                trace.append((i, "reader of re-used converter is closed -> fresh converter"))
                close_all(conv)
                conv = None
            new_conv = conv is None or not sc.get("reuse", False) or step.get("fresh", False)
            if new_conv:
                close_all(conv)
                conv = None

                def construct():
                    c = mod.NP2Converter(target, post_check=post_check, compress=compress,
                                         delete_original=delete_original)
                    return c
                holder = {}

                def construct_and_hold():
                    holder["c"] = construct()
                    return None
                res = outcome(construct_and_hold, root)
                if res[0] == "exc":
                    trace.append((i, "construct", res, list(handler.records), snapshot(root)))
                    continue
                conv = holder["c"]
                init = dict(nwindow=NWINDOW)
                init.update(sc.get("init", {}))
                init.update(step.get("init", {}))
                res = outcome(lambda: conv.init_params(**init), root)
                if res[0] == "exc":
                    trace.append((i, "init_params", res, list(handler.records), snapshot(root)))
                    continue

            for k, v in step.get("set", {}).items():
                setattr(conv, k, v)
            for k, v in step.get("setmeta", {}).items():
                if v is _MISSING:
                    conv.sr.meta.pop(k, None)
                else:
                    conv.sr.meta[k] = v

            fault = Fault(*step["fault"]) if step.get("fault") else None
            if fault is not None:
                fault.install(mod)
            try:
                if op == "process":
                    res = outcome(lambda: conv.process(overwrite=step["overwrite"]), root)
                elif op == "method":
                    meth = getattr(conv, step["name"])
                    res = outcome(lambda: meth(*step.get("args", ()), **step.get("kwargs", {})), root)
                else:
                    raise ValueError(op)
            finally:
                if fault is not None:
                    fault.remove()
            trace.append((i, op, step.get("name"), res, None if fault is None else (repr(fault), fault.fired, fault.count),
                          conv_state(conv, root), list(handler.records), snapshot(root)))
    finally:
        close_all(conv)
        logger.removeHandler(handler)
        logger.setLevel(old_level)
        logger.propagate = old_prop
    # the property's observable: is the original still recoverable (bytes present somewhere)?
    shutil.rmtree(root)
    return trace


def P(overwrite=False, fault=None, **kw):
    return dict(op="process", overwrite=overwrite, fault=fault, **kw)


def M(name, *args, fault=None, **extra):
    d = dict(op="method", name=name, args=args, fault=fault)
    d.update(extra)
    return d


ALL_OPTS = list(itertools.product([False, True], repeat=3))  # post_check, compress, delete_original
SHANK_DIRS = ["probe00a", "probe00b", "probe00c", "probe00d"]
AP = BIN_NAME
LF = BIN_NAME.replace("ap", "lf")


def build_scenarios(rng, quick=False):
    scs = []

    def add(kind, opts, steps, seed=None, **kw):
        scs.append(dict(kind=kind, seed=len(scs) if seed is None else seed, opts=opts, steps=steps, **kw))

    # --- 1. plain histories, all option combinations, NP2.4 -------------------------------------
    for opts in ALL_OPTS:
        add("NP2.4", opts, [P(False), P(False), P(True), P(True), P(False)])
        add("NP2.4", opts, [P(True), P(False), P(True)])
        add("NP2.4", opts, [P(False), P(True), P(False)], reuse=True)  # same converter object re-used
    # input already compressed / restricted shanks / extra suffix
    for opts in [(True, True, False), (True, True, True), (False, False, True), (True, False, False)]:
        add("NP2.4c", opts, [P(False), P(False), P(True)])
        add("NP2.4", opts, [P(False), P(True)], init=dict(nshank=[0], extra="_x"))
        add("NP2.4", opts, [P(False), P(True)], init=dict(nshank=[1, 3]))

    # --- 2. interruptions followed by retries ----------------------------------------------------
    # number of Reader.__getitem__ calls: 4 per split window then (1 + nshank) per verification window
    faults = (
        [("getitem", k) for k in (1, 3, 6, 11, 17, 18, 19, 21, 23, 26)]
        + [("split", k) for k in (1, 2, 5, 8)]
        + [("meta", k) for k in (1, 3, 4, 5, 7, 8)]
        + [("meta_post", k) for k in (2, 4, 6, 8)]
        + [("compress", k) for k in (1, 2, 3, 5, 8)]
        + [("compress_post", k) for k in (1, 2, 4, 7, 8)]
        + [("reader", k) for k in (1, 2, 4, 5, 6, 9)]
        + [("unlink", k) for k in (1, 2, 3, 8, 9, 12, 17)]
    )
    retry_patterns = [
        lambda f: [P(False, f), P(False), P(True)],
        lambda f: [P(False, f), P(True), P(False)],
        lambda f: [P(True, f), P(True)],
        lambda f: [P(False), P(True, f), P(True), P(False)],
        lambda f: [P(False, f), P(True, f), P(True)],
    ]
    combos = [(f, opts, ip) for f in faults for opts in ALL_OPTS for ip in range(len(retry_patterns))]
    # every fault is used at least with the full-option converter, remaining combinations are sampled
    chosen = [(f, (True, True, True), i % len(retry_patterns)) for i, f in enumerate(faults)]
    chosen += [(f, (True, True, False), (i + 1) % len(retry_patterns)) for i, f in enumerate(faults)]
    idx = rng.permutation(len(combos))[: (15 if quick else 60)]
    chosen += [combos[i] for i in idx]
    for f, opts, ip in chosen:
        add("NP2.4", opts, retry_patterns[ip](f), reuse=bool(rng.integers(0, 2)) and ip == 4)

    # --- 3. pre-existing shank folders / stale output (existence test, stale cbin removal) -------
    subsets = [s for r in range(0, 5) for s in itertools.combinations(SHANK_DIRS, r)]
    for s in subsets:
        for ow in (False, True):
            opts = ALL_OPTS[int(rng.integers(0, 8))]
            add("NP2.4", opts, [dict(op="precreate", dirs=list(s)), P(ow), P(False)])
    for opts in [(True, True, True), (True, True, False), (False, True, True)]:
        stale = [dict(op="touch", rel=f"{d}/{f}") for d in SHANK_DIRS[:2]
                 for f in (Path(AP).with_suffix(".cbin").name, Path(LF).with_suffix(".ch").name)]
        add("NP2.4", opts, stale + [P(True), P(False)])
        add("NP2.4", opts, stale + [P(False), P(True)])

    # --- 4. direct calls of the mechanism methods -----------------------------------------------
    for cc, do in itertools.product([False, True, 0, 1, None, "yes"], [False, True, 0, 1, None, "x"]):
        add("NP2.4", (False, False, False),
            [M("delete_NP24", set=dict(check_completed=cc, delete_original=do)),
             M("delete_NP24", set=dict(check_completed=cc, delete_original=do))], seed=1)
    for val in [_MISSING, None, 0, 1, 3, "", "0", False, [], [1]]:
        for key in ["NP2.4_shank", "NP2.1_shank"]:
            add("NP2.4", (True, True, True), [M("check_metadata", setmeta={key: val}), P(False)], seed=2)
            add("NP2.1", (True, True, True), [M("check_metadata", setmeta={key: val}), P(False)], seed=2)
    # verification on its own: good data, corrupted shank, missing shank file, verification twice
    for off in (0, 2 * 97 * 700, 2 * (97 * 2399 + 90)):
        for d in ("probe00a", "probe00c"):
            add("NP2.4", (False, False, True),
                [P(False), M("check_NP24"), dict(op="corrupt", rel=f"{d}/{AP}", offset=off), M("check_NP24"),
                 M("delete_NP24"), M("check_NP24")], reuse=True)
    add("NP2.4", (True, False, True), [P(False, ("getitem", 20)), M("check_NP24"), M("delete_NP24")], reuse=True)
    add("NP2.4", (False, False, True), [P(False), M("check_NP24"), M("delete_NP24"), M("check_NP24")], reuse=True)
    add("NP2.4", (False, False, False), [M("check_NP24")], reuse=True)  # no shank_info yet
    add("NP2.4", (False, False, False), [M("compress_NP24")], reuse=True)
    add("NP2.4", (False, False, False), [M("compress_NP21")], reuse=True)
    # compression on its own, with kwargs, stale files, twice
    for ow in (False, True):
        add("NP2.4", (True, False, False),
            [P(False), M("compress_NP24", kwargs=dict(overwrite=ow)), M("compress_NP24", kwargs=dict(overwrite=ow))],
            reuse=True)
        add("NP2.4", (True, False, False),
            [P(False), M("compress_NP24", kwargs=dict(overwrite=ow, check_after_compress=False)),
             M("check_NP24"), M("delete_NP24", set=dict(delete_original=True))], reuse=True)
        add("NP2.4", (True, False, False),
            [P(False), M("compress_NP24", kwargs=dict(overwrite=ow, keep_original=False))], reuse=True)
        add("NP2.4", (True, False, False),
            [P(False), M("compress_NP24", kwargs=dict(overwrite=ow, bogus_option=3))], reuse=True)
        add("NP2.4", (True, False, False),
            [P(False), dict(op="touch", rel=f"probe00b/{Path(LF).with_suffix('.cbin').name}"),
             M("compress_NP24", kwargs=dict(overwrite=ow)), M("compress_NP24", ow)], reuse=True)
        add("NP2.4", (True, False, False),
            [P(False), M("compress_NP24", ow, fault=("compress_post", 3)), M("compress_NP24", ow),
             M("compress_NP24", True)], reuse=True)
        add("NP2.1", (True, False, False),
            [P(False), M("compress_NP21", kwargs=dict(overwrite=ow)), M("compress_NP21", ow)], reuse=True)
        add("NP2.1", (True, False, False),
            [P(False), dict(op="touch", rel=f"probe00/{Path(LF).with_suffix('.cbin').name}"),
             M("compress_NP21", ow), M("compress_NP21", ow)], reuse=True)
        add("NP2.1", (True, False, False),
            [P(False), M("compress_NP21", ow, fault=("compress", 1)), M("compress_NP21", ow, fault=("compress_post", 2)),
             M("compress_NP21", ow)], reuse=True)
    # file preparation on its own
    for ow in (False, True):
        for s in [(), ("probe00a",), ("probe00d",), ("probe00b", "probe00c"), tuple(SHANK_DIRS)]:
            add("NP2.4", (True, True, True),
                [dict(op="precreate", dirs=list(s)), M("_prepare_files_NP24", kwargs=dict(overwrite=ow)),
                 M("_prepare_files_NP24", ow)], reuse=True)
            add("NP2.4c", (True, True, True),
                [dict(op="precreate", dirs=list(s)), M("_prepare_files_NP24", ow)], reuse=True)
        for pre in [[], [LF], [Path(LF).with_suffix(".cbin").name], [LF, Path(LF).with_suffix(".cbin").name]]:
            for kind in ("NP2.1", "NP2.1c", "NP2.4"):
                for kwargs in (dict(overwrite=ow), dict(overwrite=ow, assert_shanks=False)):
                    add(kind, (True, True, True),
                        [dict(op="touch", rel=f"probe00/{f}") for f in pre]
                        + [M("_prepare_files_NP21", kwargs=kwargs), M("_prepare_files_NP21", kwargs=kwargs)],
                        reuse=True)
        for ovw in (0, 1, None, "", "yes", [], [0]):  # truthiness of overwrite
            add("NP2.4", (True, True, True),
                [dict(op="precreate", dirs=["probe00b"]), M("_prepare_files_NP24", kwargs=dict(overwrite=ovw))], reuse=True)
            add("NP2.1", (True, True, True),
                [dict(op="touch", rel=f"probe00/{LF}"), M("_prepare_files_NP21", kwargs=dict(overwrite=ovw))], reuse=True)

    # --- 5. already split input -----------------------------------------------------------------
    for opts in [(True, True, True), (True, False, True), (False, True, False), (False, False, False)]:
        suffix = ".cbin" if opts[1] else ".bin"
        for d in ("probe00a", "probe00d"):
            rel = f"{d}/{Path(AP).with_suffix(suffix).name}"
            add("NP2.4", opts, [P(False), dict(op="retarget", rel=rel), P(False), P(True), P(False)])
            add("NP2.4", opts, [P(False), dict(op="retarget", rel=rel), P(True), M("delete_NP24"),
                                M("delete_NP24", set=dict(check_completed=True, delete_original=True))], reuse=True)

    # --- 6. NP2.1 / NP1 -------------------------------------------------------------------------
    for opts in ALL_OPTS:
        add("NP2.1", opts, [P(False), P(False), P(True), P(True), P(False)])
        add("NP2.1", opts, [P(True), P(False)], reuse=True)
        add("NP1", opts, [P(False), P(True), M("delete_NP24"), P(False)], reuse=bool(opts[0]))
    for opts in [(True, True, False), (True, False, True)]:
        add("NP2.1c", opts, [P(False), P(False), P(True)])
        # NP2.1 first run leaves ap.cbin: retarget as the test-suite does
        add("NP2.1", opts, [P(False), dict(op="retarget", rel=f"probe00/{Path(AP).with_suffix('.cbin').name}"),
                            P(False), P(True), P(True)])
    np21_faults = ([("getitem", k) for k in (1, 4, 7)] + [("split", 2)] + [("meta", 1), ("meta_post", 1)]
                   + [("compress", k) for k in (1, 2)] + [("compress_post", k) for k in (1, 2)]
                   + [("reader", k) for k in (1, 2, 3)] + [("unlink", k) for k in (1, 2, 3, 4)])
    for i, f in enumerate(np21_faults):
        for opts in [(True, True, False), ALL_OPTS[int(rng.integers(0, 8))]]:
            steps = [[P(False, f), P(False), P(True)], [P(True, f), P(True), P(False)],
                     [P(False), P(True, f), P(True)]][i % 3]
            add("NP2.1", opts, steps, reuse=bool(i % 2))
    return scs


def first_difference(a, b, path="trace"):
    if type(a) is not type(b):
        return f"{path}: type {type(a).__name__} != {type(b).__name__}: {a!r} vs {b!r}"
    if isinstance(a, (list, tuple)):
        if len(a) != len(b):
            return f"{path}: length {len(a)} != {len(b)}\n   A={a!r}\n   B={b!r}"
        for i, (x, y) in enumerate(zip(a, b)):
            d = first_difference(x, y, f"{path}[{i}]")
            if d:
                return d
        return None
    if a != b:
        return f"{path}: {a!r} != {b!r}"
    return None


def main():
    quick = "--quick" in sys.argv
    dump = "--dump" in sys.argv
    # --from K : skip the first K scenarios (debugging aid)
    start = int(sys.argv[sys.argv.index("--from") + 1]) if "--from" in sys.argv else 0
    orig_path, ref_path = prepare_sources()
    orig = load_module("neuropixel_orig", orig_path)
    ref = load_module(f"neuropixel_ref{N}", ref_path)
    assert orig.__file__ != ref.__file__
    print("original   :", orig.__file__)
    print("refactored :", ref.__file__)
    print("spikeglx   :", spikeglx.__file__)
    logging.getLogger("ibllib").handlers = []
    logging.getLogger().setLevel(logging.CRITICAL)

    # silence progress bars of mtscomp
    os.environ["TQDM_DISABLE"] = "1"
    devnull = open(os.devnull, "w")
    real_stderr = sys.stderr
    sys.stderr = devnull

    rng = np.random.default_rng(4040 + N)
    scenarios = build_scenarios(rng, quick=quick)
    if WORK.exists():
        shutil.rmtree(WORK)
    WORK.mkdir(parents=True)
    t0 = time.time()
    ndiff = 0
    nexc = nfault = nsteps = 0
    statuses = {}
    try:
        for isc, sc in enumerate(scenarios):
            if isc < start:
                continue
            ta = run_scenario(orig, sc, f"sc{isc:04d}_orig")
            tb = run_scenario(ref, sc, f"sc{isc:04d}_ref")
            d = first_difference(ta, tb)
            if dump and isc in (0, 60, 130):
                import pprint
                pprint.pprint(sc, width=200)
                pprint.pprint(ta, width=200)
            for item in ta[1:]:
                nsteps += 1
                nexc += any(isinstance(x, tuple) and len(x) == 3 and x[0] == "exc" for x in item)
                if len(item) > 3 and item[1] == "process" and item[3][0] == "ok":
                    statuses[item[3][1][1]] = statuses.get(item[3][1][1], 0) + 1
                nfault += any(isinstance(x, tuple) and len(x) == 3 and isinstance(x[0], str)
                              and x[0].startswith("Fault(") and x[1] for x in item)
            if d:
                ndiff += 1
                print(f"DIFFERENCE in scenario {isc}: {sc}\n   {d}", file=sys.stdout)
                if ndiff > 5:
                    break
            if (isc + 1) % 50 == 0:
                print(f"  ... {isc + 1}/{len(scenarios)} scenarios, {time.time() - t0:.0f}s", flush=True)
    finally:
        sys.stderr = real_stderr
        devnull.close()
        shutil.rmtree(WORK, ignore_errors=True)
    print(f"{len(scenarios)} scenarios, {nsteps} recorded steps, {nexc} steps ending in an exception, "
          f"{nfault} injected faults fired, process() return values {statuses}, {time.time() - t0:.0f}s")
    if ndiff:
        print("NOT EQUIVALENT")
        return 1
    print("EQUIVALENT")
    return 0


if __name__ == "__main__":
    sys.exit(main())
