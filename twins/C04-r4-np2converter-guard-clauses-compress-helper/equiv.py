import sys, os; sys.path.insert(0, os.path.join(os.path.dirname(os.path.abspath(__file__)), "src"))
"""
Differential equivalence check for the NP2Converter clean-up (property C04).

The functions below whose name starts with ``ref_`` are verbatim copies of the ORIGINAL implementation of every
method of neuropixel.NP2Converter touched by the clean-up.  They are mounted on a subclass of the converter found
in ./src (RefNP2Converter), so that reference and candidate share everything else.  A few hundred seeded random
scenarios (probe kind x options x run histories x injected interruptions x stale output x direct calls) are
played on two identical sandboxes, one with the reference class and one with the class from ./src.  After every
step the following must be identical: returned value / exception type and message, converter state (flags, shank_info
content including the channel index arrays: dtype, shape, values), the full content of the sandbox (sha256 of every
file), and the ordered trace of side effects (files unlinked, readers opened/closed, compressions, metadata written,
existence tests, log records).  Exit code 0 if everything is identical, 1 with a message otherwise.
"""
import gc
import hashlib
import logging
import pathlib
import random
import shutil
import tempfile
import traceback
from pathlib import Path

import numpy as np

import neuropixel
import spikeglx
from ibldsp.utils import WindowGenerator

_logger = neuropixel._logger

try:  # no progress bars from mtscomp (cosmetic, applies to reference and candidate alike)
    import mtscomp
    mtscomp.tqdm = lambda it, *args, **kwargs: it
except Exception:
    pass

HERE = Path(os.path.dirname(os.path.abspath(__file__)))
FIXTURES = HERE.joinpath("src", "tests", "fixtures", "np2split")
BIN_NAME = "_spikeglx_ephysData_g0_t0.imec0.ap.bin"
N_SCENARIOS = int(os.environ.get("DEMO_N", 240))
SEED = int(os.environ.get("DEMO_SEED", 20240604))


# ------------------------------------------------------------------------------------------------------------------
# verbatim copies of the ORIGINAL implementations (reference)
# ------------------------------------------------------------------------------------------------------------------
def ref_check_metadata(self):
    """
    Checks the keys in meta data to see if we are trying to process an ap file that has already
    been split into shanks. If we are sets flag and prevents further processing occurring
    :return:
    """
    if self.sr.meta.get(f"{self.np_version}_shank", None) is not None:
        self.already_processed = True
    else:
        self.already_processed = False


def ref__prepare_files_NP24(self, overwrite=False):
    """
    Creates folders for individual shanks and creates and opens ap.bin and lf.bin files for
    each shank. Checks to see if and of the expected shank folders already exist
    and will only rerun if overwrite=True. Don't call this function directly but access through
    process() method

    :param overwrite: set to True to force rerunning even if lf.bin file already exists
    :return:
    """
    chn_info = spikeglx._map_channels_from_meta(self.sr.meta)
    n_shanks = self.nshank or np.unique(chn_info["shank"]).astype(np.int16)
    label = self.ap_file.parent.parts[-1]
    shank_info = {}
    self.already_exists = False

    for sh in n_shanks:
        _shank_info = {}
        # channels for individual shank + sync channel
        _shank_info["chns"] = np.r_[
            np.where(chn_info["shank"] == sh)[0],
            np.array(spikeglx._get_sync_trace_indices_from_meta(self.sr.meta)),
        ]

        probe_path = self.ap_file.parent.parent.joinpath(
            label + chr(97 + int(sh)) + self.extra
        )

        if not probe_path.exists() or overwrite:
            if self.sr.is_mtscomp:
                ap_file_bin = self.ap_file.with_suffix(".bin").name
            else:
                ap_file_bin = self.ap_file.name
            probe_path.mkdir(parents=True, exist_ok=True)
            _shank_info["ap_file"] = probe_path.joinpath(ap_file_bin)
            _shank_info["ap_open_file"] = open(_shank_info["ap_file"], "wb")
            _shank_info["lf_file"] = probe_path.joinpath(
                ap_file_bin.replace("ap", "lf")
            )
            _shank_info["lf_open_file"] = open(_shank_info["lf_file"], "wb")

            shank_info[f"shank{sh}"] = _shank_info
        else:
            self.already_exists = True
            _logger.warning(
                "One or more of the sub shank folders already exists, "
                "to force reprocessing set overwrite to True"
            )

    return shank_info


def ref__prepare_files_NP21(self, overwrite=False, assert_shanks=True):
    """
    Creates and opens lf.bin file in order to extract the lfp signal from full signal. Checks
    to see if file already exists and will only rerun if overwrite=True. Don't call this
    function directly but access through process() method

    :param overwrite: set to True to force rerunning even if lf.bin file already exists
    :return:
    """

    chn_info = spikeglx._map_channels_from_meta(self.sr.meta)
    if assert_shanks:
        n_shanks = np.unique(chn_info["shank"]).astype(np.int16)
        assert len(n_shanks) == 1
    else:
        n_shanks = np.array([0])
    shank_info = {}
    self.already_exists = False

    lf_file = self.ap_file.parent.joinpath(
        self.ap_file.name.replace("ap", "lf")
    ).with_suffix(".bin")
    lf_cbin_file = lf_file.with_suffix(".cbin")
    if not (lf_file.exists() or lf_cbin_file.exists()) or overwrite:
        for sh in n_shanks:
            _shank_info = {}
            # channels for individual shank + sync channel
            if assert_shanks:
                _shank_info["chns"] = np.r_[
                    np.where(chn_info["shank"] == sh)[0],
                    np.array(
                        spikeglx._get_sync_trace_indices_from_meta(self.sr.meta)
                    ),
                ]
            else:
                _shank_info["chns"] = np.arange(self.sr.nc)

            _shank_info["lf_file"] = lf_file
            _shank_info["lf_open_file"] = open(_shank_info["lf_file"], "wb")

            shank_info[f"shank{sh}"] = _shank_info
    else:
        self.already_exists = True
        _logger.warning(
            "LF file for this probe already exists, "
            "to force reprocessing set overwrite to True"
        )

    return shank_info


def ref_check_NP24(self):
    """
    Check that the splitting into shanks process has completed correctly. Compares the original
    file to the reconstructed file from the individual shanks

    :return:
    """
    for sh in self.shank_info.keys():
        self.shank_info[sh]["sr"] = spikeglx.Reader(self.shank_info[sh]["ap_file"], sort=False)
    wg = WindowGenerator(self.nsamples, self.samples_window, 0)
    for first, last in wg.firstlast:
        expected = self.sr[first:last, :]
        chunk = np.zeros_like(expected)
        for ish, sh in enumerate(self.shank_info.keys()):
            srs = self.shank_info[sh]["sr"]
            if ish == 0:
                chunk[:, self.shank_info[sh]["chns"]] = srs[first:last, :]
            else:
                chunk[:, self.shank_info[sh]["chns"][:-1]] = srs[first:last, :-1]
        assert np.array_equal(
            expected, chunk
        ), "data in original file and split files do no match"

    # close the sglx instances once we are done checking
    for sh in self.shank_info.keys():
        sr = self.shank_info[sh].pop("sr")
        sr.close()

    self.check_completed = True


def ref_compress_NP24(self, overwrite=False, **kwargs):
    """
    Compress spikeglx files
    :return:
    """
    for sh in self.shank_info.keys():
        bin_file = self.shank_info[sh]["ap_file"]
        if overwrite:
            cbin_file = bin_file.with_suffix(".cbin")
            cbin_file.unlink(missing_ok=True)

        sr_ap = spikeglx.Reader(bin_file)
        cbin_file = sr_ap.compress_file(**kwargs)
        sr_ap.close()
        bin_file.unlink()
        self.shank_info[sh]["ap_file"] = cbin_file

        bin_file = self.shank_info[sh]["lf_file"]
        if overwrite:
            cbin_file = bin_file.with_suffix(".cbin")
            cbin_file.unlink(missing_ok=True)
        sr_lf = spikeglx.Reader(bin_file)
        cbin_file = sr_lf.compress_file(**kwargs)
        sr_lf.close()
        bin_file.unlink()
        self.shank_info[sh]["lf_file"] = cbin_file


def ref_compress_NP21(self, overwrite=False):
    """
    Compress spikeglx files
    :return:
    """
    for sh in self.shank_info.keys():
        if not self.sr.is_mtscomp:
            cbin_file = self.sr.compress_file()
            self.sr.close()
            self.ap_file.unlink()
            self.ap_file = cbin_file
            self.sr = spikeglx.Reader(self.ap_file)

        bin_file = self.shank_info[sh]["lf_file"]
        if overwrite:
            cbin_file = bin_file.with_suffix(".cbin")
            cbin_file.unlink(missing_ok=True)
        sr_lf = spikeglx.Reader(bin_file)
        cbin_file = sr_lf.compress_file()
        sr_lf.close()
        bin_file.unlink()
        self.shank_info[sh]["lf_file"] = cbin_file


def ref_delete_NP24(self):
    """
    Delete the original ap file that doesn't has all shanks in one file

    :return:
    """
    if self.check_completed and self.delete_original:
        _logger.info(f"Removing original file in folder {self.ap_file}")
        self.sr.close()
        self.ap_file.unlink()
        # shutil.rmtree(self.ap_file.parent) #  should we remove the whole folder?


class RefNP2Converter(neuropixel.NP2Converter):
    """The converter of ./src with the ORIGINAL implementation of every method touched by the clean-up"""
    check_metadata = ref_check_metadata
    _prepare_files_NP24 = ref__prepare_files_NP24
    _prepare_files_NP21 = ref__prepare_files_NP21
    check_NP24 = ref_check_NP24
    compress_NP24 = ref_compress_NP24
    compress_NP21 = ref_compress_NP21
    delete_NP24 = ref_delete_NP24


# same class name in the messages of the exceptions raised by the interpreter (AttributeError ...)
RefNP2Converter.__name__ = RefNP2Converter.__qualname__ = neuropixel.NP2Converter.__name__


# ------------------------------------------------------------------------------------------------------------------
# instrumentation: ordered trace of side effects + interruption injected at the k-th call of a primitive
# ------------------------------------------------------------------------------------------------------------------
class InjectedFault(RuntimeError):
    pass


class ClosedReaderError(RuntimeError):
    pass


class _Normaliser:
    def __init__(self, root):
        self.root = str(root)

    def __call__(self, obj):
        return str(obj).replace(self.root, "<ROOT>")


def _md_digest(md):
    return hashlib.sha1(repr([(k, repr(v)) for k, v in md.items()]).encode()).hexdigest()[:12]


# name -> (owner object, attribute, function describing the call)
TARGETS = {
    "getitem": (spikeglx.Reader, "__getitem__", lambda a, k: (a[0].file_bin, repr(a[1]))),
    "reader_init": (spikeglx.Reader, "__init__", lambda a, k: (a[1], sorted(k.items()))),
    "reader_close": (spikeglx.Reader, "close", lambda a, k: (a[0].file_bin,)),
    "compress": (spikeglx.Reader, "compress_file", lambda a, k: (a[0].file_bin, a[1:], sorted(k.items()))),
    "meta": (spikeglx, "write_meta_data", lambda a, k: (a[1], _md_digest(a[0]))),
    "split": (neuropixel.NP2Converter, "_split2shanks", lambda a, k: (a[1].shape, str(a[1].dtype), sorted(k.items()))),
    "unlink": (pathlib.Path, "unlink", lambda a, k: (a[0], sorted(k.items()))),
    "exists": (pathlib.Path, "exists", lambda a, k: (a[0],)),
    "mkdir": (pathlib.Path, "mkdir", lambda a, k: (a[0], sorted(k.items()))),
}
FAULT_TARGETS = ["getitem", "reader_init", "reader_close", "compress", "meta", "split", "unlink"]


class Instrument(logging.Handler):
    """Context manager: traces the calls of the primitives and the log records, raises at the k-th call of one"""

    def __init__(self, norm, trace, fault=None):
        super().__init__(level=logging.DEBUG)
        self.norm, self.trace, self.fault = norm, trace, fault
        self.counts = {name: 0 for name in TARGETS}
        self.saved = {}

    def emit(self, record):
        self.trace.append(("log", record.levelname, self.norm(record.getMessage())))

    def _wrap(self, name, orig, describe):
        def wrapper(*args, **kwargs):
            self.counts[name] += 1
            try:
                desc = self.norm(describe(args, kwargs))
            except Exception as e:  # description must never alter the behaviour
                desc = f"<{type(e).__name__}>"
            self.trace.append((name, desc))
            if name == "getitem":
                # reading a memory map that has been closed crashes the interpreter: the harness turns it into an
                # exception (for reference and candidate alike)
                mm = getattr(getattr(args[0], "_raw", None), "_mmap", None)
                if mm is not None and mm.closed:
                    raise ClosedReaderError(desc)
            hit = self.fault is not None and self.fault[0] == name and self.counts[name] == self.fault[1]
            if hit and self.fault[2] == "before":
                self.trace.append(("fault-before", name))
                raise InjectedFault(f"{name} #{self.fault[1]} (before)")
            out = orig(*args, **kwargs)
            if hit:
                self.trace.append(("fault-after", name))
                raise InjectedFault(f"{name} #{self.fault[1]} (after)")
            return out
        wrapper.__name__ = getattr(orig, "__name__", name)
        return wrapper

    def __enter__(self):
        for name, (owner, attr, describe) in TARGETS.items():
            orig = getattr(owner, attr)
            self.saved[name] = orig
            setattr(owner, attr, self._wrap(name, orig, describe))
        self.old_level = _logger.level
        _logger.setLevel(logging.DEBUG)
        _logger.addHandler(self)
        return self

    def __exit__(self, *exc):
        _logger.removeHandler(self)
        _logger.setLevel(self.old_level)
        for name, (owner, attr, _) in TARGETS.items():
            setattr(owner, attr, self.saved[name])
        return False


# ------------------------------------------------------------------------------------------------------------------
# observation helpers
# ------------------------------------------------------------------------------------------------------------------
def snapshot(root):
    out = []
    for p in sorted(root.rglob("*")):
        rel = p.relative_to(root).as_posix()
        if p.is_dir():
            out.append((rel, "dir"))
        else:
            out.append((rel, p.stat().st_size, hashlib.sha256(p.read_bytes()).hexdigest()))
    return out


_MISSING = "<missing>"


def conv_state(conv, norm):
    if conv is None:
        return None
    st = {}
    for att in ("already_processed", "already_exists", "check_completed", "post_check", "compress", "delete_original",
                "np_version", "nsamples", "samples_window", "extra", "nshank"):
        v = getattr(conv, att, _MISSING)
        st[att] = (type(v).__name__, norm(v))
    st["ap_file"] = (type(conv.ap_file).__name__, norm(conv.ap_file))
    st["sr.file_bin"] = norm(getattr(getattr(conv, "sr", None), "file_bin", _MISSING))
    info = getattr(conv, "shank_info", _MISSING)
    if info is _MISSING:
        st["shank_info"] = _MISSING
        return st
    shanks = []
    for key, val in info.items():
        items = []
        for k, v in val.items():
            if isinstance(v, np.ndarray):
                items.append((k, "ndarray", str(v.dtype), v.shape, v.tolist()))
            elif isinstance(v, Path):
                items.append((k, type(v).__name__, norm(v)))
            elif isinstance(v, spikeglx.Reader):
                items.append((k, "Reader", norm(v.file_bin)))
            elif hasattr(v, "closed") and hasattr(v, "name"):
                items.append((k, "file", norm(v.name), v.mode, v.closed))
            else:
                items.append((k, type(v).__name__, norm(v)))
        shanks.append((type(key).__name__, key, items))
    st["shank_info"] = shanks
    return st


def outcome(fn, norm):
    try:
        out = fn()
        return ("return", type(out).__name__, norm(out))
    except BaseException as e:  # noqa
        if isinstance(e, (KeyboardInterrupt, SystemExit)):
            raise
        return ("raise", type(e).__name__, norm(e))


def release(conv):
    """best effort release of the file handles held by a converter (not part of what is compared)"""
    if conv is None:
        return
    try:
        conv.sr.close()
    except Exception:
        pass
    for val in getattr(conv, "shank_info", {}).values():
        for v in list(val.values()):
            try:
                if isinstance(v, spikeglx.Reader) or (hasattr(v, "closed") and hasattr(v, "close")):
                    v.close()
            except Exception:
                pass


# ------------------------------------------------------------------------------------------------------------------
# sandboxes and scenarios
# ------------------------------------------------------------------------------------------------------------------
def write_recording(folder, kind, ns, data_seed, compressed=False):
    """Writes a small ap recording (385 channels, int16) with the meta data of the requested probe kind"""
    folder.mkdir(parents=True, exist_ok=True)
    rng = np.random.default_rng(data_seed)
    dat = rng.integers(-3000, 3000, size=(ns, 385)).astype(np.int16)
    dat[:, -1] = rng.integers(0, 64, size=ns).astype(np.int16)
    if data_seed % 7 == 0:  # edge: extreme sample values
        dat[0, :-1] = np.iinfo(np.int16).max
        dat[-1, :-1] = np.iinfo(np.int16).min + 1
    bin_file = folder.joinpath(BIN_NAME)
    with open(bin_file, "wb") as fid:
        dat.tofile(fid)
    meta_dir = {"NP2.4": "NP24_meta", "NP2.1": "NP21_meta", "NP1": "NP1_meta"}[kind]
    lines = FIXTURES.joinpath(meta_dir, BIN_NAME.replace(".bin", ".meta")).read_text().splitlines()
    out = []
    for line in lines:
        if line.startswith("fileSizeBytes"):
            line = f"fileSizeBytes={ns * 385 * 2}"
        elif line.startswith("fileTimeSecs"):
            line = f"fileTimeSecs={ns / 30000}"
        out.append(line)
    bin_file.with_suffix(".meta").write_text("\n".join(out) + "\n")
    if compressed:
        sr = spikeglx.Reader(bin_file)
        sr.compress_file(check_after_compress=False)
        sr.close()
        bin_file.unlink()
    return bin_file


def make_scenario(i, rng):
    kind = ["NP2.4", "NP2.4", "NP2.4", "NP2.1", "NP2.1", "NP1", "split"][i % 7]
    sc = {
        "id": i, "kind": kind,
        "ns": rng.choice([1200, 1500, 2400, 3000, 3011, 3600, 4800, 5003]),
        "data_seed": rng.randrange(10 ** 6),
        "post_check": rng.random() < 0.6, "compress": rng.random() < 0.5, "delete_original": rng.random() < 0.5,
        "nwindow": rng.choice([None, 1200, 1800, 2400, 3600, 6000]),
        "extra": rng.choice(["", "", "_x", "_test"]),
        "nshank": rng.choice([None] * 12 + [[0], [0, 2], [1, 3], [3, 1, 0]]) if kind == "NP2.4" else None,
        "from_compressed": rng.random() < 0.2,
        "split_compressed": rng.random() < 0.5,
        "split_shank": rng.choice("abcd"),
        "stale": [],
        "ops": [],
    }
    # stale output present before the first run
    if rng.random() < 0.35:
        if kind == "NP2.4":
            for letter in rng.sample("abcd", rng.randint(1, 4)):
                sc["stale"].append((f"probe00{letter}{sc['extra']}", rng.choice([None, "ap.cbin", "lf.cbin", "ap.bin", "both"])))
        elif kind in ("NP2.1", "NP1"):
            sc["stale"].append(("probe00", rng.choice(["lf.bin", "lf.cbin", "lf.both"])))
    # run history
    n_runs = rng.randint(1, 3)
    for r in range(n_runs):
        fault = None
        if rng.random() < 0.45:
            tgt = rng.choice(FAULT_TARGETS)
            kmax = {"getitem": 16, "reader_init": 8, "reader_close": 8, "compress": 8, "meta": 8, "split": 6, "unlink": 8}[tgt]
            fault = (tgt, min(rng.randint(1, kmax), rng.randint(1, kmax)), rng.choice(["before", "after"]))
        ow = rng.random() < 0.5
        roll = rng.random()
        if roll < 0.12:
            sc["ops"].append(("process21", ow, rng.choice([0, 0, 12, 600]), rng.random() < 0.7, fault))
        else:
            sc["ops"].append(("process", ow, fault))
        # direct calls of the functions the property rests on, in the state left by the run
        for _ in range(rng.randint(0, 3)):
            roll = rng.random()
            if roll < 0.15:
                sc["ops"].append(("corrupt", rng.randint(0, 3), rng.choice(["ap", "lf"])))
            elif roll < 0.35:
                sc["ops"].append(("call", "check_NP24", ()))
            elif roll < 0.55:
                sc["ops"].append(("call", "delete_NP24", ()))
            elif roll < 0.65:
                sc["ops"].append(("call", "compress_NP24", (rng.random() < 0.5,)))
            elif roll < 0.72:
                sc["ops"].append(("call", "compress_NP21", (rng.random() < 0.5,)))
            elif roll < 0.80:
                sc["ops"].append(("call", "check_metadata", ()))
            elif roll < 0.88:
                sc["ops"].append(("call", "_prepare_files_NP24", (rng.random() < 0.5,)))
            elif roll < 0.96:
                sc["ops"].append(("call", "_prepare_files_NP21", (rng.random() < 0.5, rng.random() < 0.5)))
            else:
                sc["ops"].append(("set", rng.choice(["check_completed", "delete_original"]), rng.random() < 0.5))
    return sc


def build_template(sc, template):
    """Creates the initial content of the sandbox for a scenario (once), copied for reference and candidate"""
    probe = template.joinpath("probe00")
    if sc["kind"] == "split":
        # an ap file that is already a split shank: produced by the reference implementation
        bin_file = write_recording(probe, "NP2.4", sc["ns"], sc["data_seed"])
        conv = RefNP2Converter(bin_file, post_check=True, compress=sc["split_compressed"], delete_original=False)
        conv.init_params(nwindow=sc["nwindow"], extra=sc["extra"])
        assert conv.process() == 1
        release(conv)
    else:
        write_recording(probe, sc["kind"], sc["ns"], sc["data_seed"], compressed=sc["from_compressed"])
    for folder, what in sc["stale"]:
        d = template.joinpath(folder)
        d.mkdir(parents=True, exist_ok=True)
        junk = b"stale-output" * 11
        names = {None: [], "ap.cbin": ["ap.cbin"], "lf.cbin": ["lf.cbin"], "ap.bin": ["ap.bin"], "lf.bin": ["lf.bin"],
                 "both": ["ap.cbin", "lf.cbin", "ap.ch", "lf.ch"], "lf.both": ["lf.bin", "lf.cbin"]}[what]
        for n in names:
            d.joinpath(BIN_NAME.replace("ap.bin", n)).write_bytes(junk)


def input_file(sc, root):
    if sc["kind"] == "split":
        folder = root.joinpath(f"probe00{sc['split_shank']}{sc['extra']}")
    else:
        folder = root.joinpath("probe00")
    bin_file = folder.joinpath(BIN_NAME)
    cbin_file = bin_file.with_suffix(".cbin")
    if not bin_file.exists() and cbin_file.exists():
        return cbin_file
    return bin_file


def play(sc, cls, root):
    """Plays the scenario with converter class cls in the sandbox root, returns the list of observations"""
    norm = _Normaliser(root)
    obs = []
    conv = None
    for op in sc["ops"]:
        trace = []
        if op[0] in ("process", "process21"):
            release(conv)
            conv = None
            fault = op[-1]
            holder = {}

            def construct():
                c = cls(input_file(sc, root), post_check=sc["post_check"], delete_original=sc["delete_original"],
                        compress=sc["compress"])
                c.init_params(nwindow=sc["nwindow"], extra=sc["extra"], nshank=sc["nshank"])
                holder["conv"] = c
                return None
            with Instrument(norm, trace):
                res = [outcome(construct, norm)]
            conv = holder.get("conv")
            if conv is not None:
                with Instrument(norm, trace, fault=fault):
                    if op[0] == "process":
                        res.append(outcome(lambda: conv.process(overwrite=op[1]), norm))
                    else:
                        kw = {} if op[3] else {"assert_shanks": False}
                        res.append(outcome(lambda: conv._process_NP21(overwrite=op[1], offset=op[2], **kw), norm))
        elif op[0] == "call":
            def call():
                out = getattr(conv, op[1])(*op[2])
                if isinstance(out, dict):  # shank_info returned by the _prepare_files_* functions
                    conv.shank_info = out
                    return sorted(out.keys())
                return out
            with Instrument(norm, trace):
                res = [outcome(call, norm)]
        elif op[0] == "set":
            res = [outcome(lambda: setattr(conv, op[1], op[2]), norm)]
        elif op[0] == "corrupt":
            def corrupt():
                info = list(conv.shank_info.values())[op[1] % max(1, len(conv.shank_info))]
                f = info[f"{op[2]}_file"]
                with open(f, "r+b") as fid:
                    fid.seek(40)
                    fid.write(b"\x0a\x14\x1e\x28")
                return norm(f)
            res = [outcome(corrupt, norm)]
        else:
            raise ValueError(op)
        obs.append({"op": repr(op), "result": res, "state": conv_state(conv, norm), "files": snapshot(root), "trace": trace})
    release(conv)
    return obs


def first_difference(a, b, path="obs"):
    if type(a) is not type(b):
        return f"{path}: type {type(a).__name__} != {type(b).__name__}"
    if isinstance(a, dict):
        if list(a.keys()) != list(b.keys()):
            return f"{path}: keys {list(a.keys())} != {list(b.keys())}"
        for k in a:
            d = first_difference(a[k], b[k], f"{path}[{k!r}]")
            if d:
                return d
        return None
    if isinstance(a, (list, tuple)):
        for i, (x, y) in enumerate(zip(a, b)):
            d = first_difference(x, y, f"{path}[{i}]")
            if d:
                return d
        if len(a) != len(b):
            return f"{path}: length {len(a)} != {len(b)}; extra: {(a[len(b):] or b[len(a):])[:3]}"
        return None
    if a != b:
        return f"{path}: {a!r} != {b!r}"
    return None


def main():
    logging.getLogger("ibllib").propagate = False
    logging.getLogger("ibllib").addHandler(logging.NullHandler())
    rng = random.Random(SEED)
    try:  # keep the sandboxes next to this file when possible
        HERE.joinpath(".tmp").mkdir(exist_ok=True)
        base = Path(tempfile.mkdtemp(prefix="c04_demo_", dir=HERE.joinpath(".tmp")))
    except OSError:
        base = Path(tempfile.mkdtemp(prefix="c04_demo_"))
    stats = {"scenarios": 0, "steps": 0, "raised": 0, "faults": 0, "status": {}, "deleted_original": 0, "check_completed": 0}
    try:
        for i in range(N_SCENARIOS):
            sc = make_scenario(i, rng)
            if os.environ.get("DEMO_VERBOSE"):
                print(f"scenario {i}: {sc}", flush=True)
            work = base.joinpath(f"s{i:04d}")
            template = work.joinpath("template")
            build_template(sc, template)
            observations = {}
            for side, cls in (("ref", RefNP2Converter), ("new", neuropixel.NP2Converter)):
                root = work.joinpath(side)
                shutil.copytree(template, root)
                observations[side] = play(sc, cls, root)
                gc.collect()
            diff = first_difference(observations["ref"], observations["new"])
            if diff:
                print(f"MISMATCH in scenario {i}: { {k: v for k, v in sc.items()} }")
                print(diff)
                return 1
            for o in observations["new"]:
                stats["steps"] += 1
                for r in o["result"]:
                    if r[0] == "raise":
                        stats["raised"] += 1
                        stats["faults"] += r[1] == "InjectedFault"
                    elif r[1] == "int":  # status returned by process()
                        stats["status"][r[2]] = stats["status"].get(r[2], 0) + 1
                if o["state"] and o["state"]["check_completed"][1] == "True":
                    stats["check_completed"] += 1
                if not any(f[0] in (f"probe00/{BIN_NAME}", f"probe00/{BIN_NAME}".replace(".bin", ".cbin")) for f in o["files"]):
                    stats["deleted_original"] += 1
            stats["scenarios"] += 1
            shutil.rmtree(work, ignore_errors=True)
    except Exception:
        traceback.print_exc()
        print("demo harness error")
        return 1
    finally:
        shutil.rmtree(base, ignore_errors=True)
    print(f"identical behaviour on {stats['scenarios']} scenarios / {stats['steps']} steps: {stats}")
    return 0


if __name__ == "__main__":
    sys.exit(main())
