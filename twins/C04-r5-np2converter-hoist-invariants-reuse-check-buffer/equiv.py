import sys, os; sys.path.insert(0, os.path.join(os.path.dirname(os.path.abspath(__file__)), "src"))
"""
Differential equivalence check for the C04 performance clean-up of neuropixel.NP2Converter
(_prepare_files_NP24, _prepare_files_NP21, check_NP24, compress_NP24, compress_NP21).

The ORIGINAL implementations of the changed methods are kept verbatim below (ref_* functions) and are
mounted on a subclass of the imported converter.  A few hundred seeded scenarios (probe kind, options,
run histories with overwrite / retry, interruptions injected at every kind of processing step, corrupted
splits, partial shank lists, sample overrides ...) are run once with the reference methods and once with
the imported ones, each in its own sandbox.  After every step the two runs must agree exactly on: the
returned status or the exception (type and message), the converter state (flags, shank_info with dtypes,
shapes and values of the channel arrays, open / closed file handles), the log records, the ordered trace of
destructive / expensive operations (unlink, compress, meta writing, reader opening, number of reads) and
the full content of the sandbox (every file, byte for byte).

Exit code 0 when everything is identical, 1 with a message otherwise.
"""
import gc
import hashlib
import io
import logging
import pathlib
import random
import shutil
import tempfile
import time
from pathlib import Path

import numpy as np

import mtscomp
import neuropixel
import spikeglx
from ibldsp.utils import WindowGenerator

# no progress bars (presentation only): wrap the tqdm used by mtscomp
_tqdm = mtscomp.tqdm
mtscomp.tqdm = lambda *args, **kwargs: _tqdm(*args, **{**kwargs, "disable": True})
# one compression thread by default, for both implementations alike: starting one thread per core for each
# of the small files of this check costs far more than the compression itself
mtscomp.DEFAULT_CONFIG = [(k, 1 if k == "n_threads" else v) for k, v in mtscomp.DEFAULT_CONFIG]

_logger = neuropixel._logger

HERE = Path(os.path.dirname(os.path.abspath(__file__)))
FIXTURES = HERE.joinpath("src", "tests", "fixtures", "np2split")
BIN_NAME = "_spikeglx_ephysData_g0_t0.imec0.ap.bin"


# ------------------------------------------------------------------------------------------------
# verbatim copies of the ORIGINAL implementations of the methods changed by the patch
# ------------------------------------------------------------------------------------------------
def ref__prepare_files_NP24(self, overwrite=False):
    """
    Creates folders for individual shanks and creates and opens ap.bin and lf.bin files for
    each shank. Checks to see if and of the expected shank folders already exist
    and will only rerun if overwrite=True. Don't call this function directly but access through
    process() method

    :param overwrite: set to True to force rerunning even if lf.bin file already exists
    :return:
    """
    chn_info = spikeglx._map_channels_from_meta(self.sr.meta)
    n_shanks = self.nshank or np.unique(chn_info["shank"]).astype(np.int16)
    label = self.ap_file.parent.parts[-1]
    shank_info = {}
    self.already_exists = False

    for sh in n_shanks:
        _shank_info = {}
        # channels for individual shank + sync channel
        _shank_info["chns"] = np.r_[
            np.where(chn_info["shank"] == sh)[0],
            np.array(spikeglx._get_sync_trace_indices_from_meta(self.sr.meta)),
        ]

        probe_path = self.ap_file.parent.parent.joinpath(
            label + chr(97 + int(sh)) + self.extra
        )

        if not probe_path.exists() or overwrite:
            if self.sr.is_mtscomp:
                ap_file_bin = self.ap_file.with_suffix(".bin").name
            else:
                ap_file_bin = self.ap_file.name
            probe_path.mkdir(parents=True, exist_ok=True)
            _shank_info["ap_file"] = probe_path.joinpath(ap_file_bin)
            _shank_info["ap_open_file"] = open(_shank_info["ap_file"], "wb")
            _shank_info["lf_file"] = probe_path.joinpath(
                ap_file_bin.replace("ap", "lf")
            )
            _shank_info["lf_open_file"] = open(_shank_info["lf_file"], "wb")

            shank_info[f"shank{sh}"] = _shank_info
        else:
            self.already_exists = True
            _logger.warning(
                "One or more of the sub shank folders already exists, "
                "to force reprocessing set overwrite to True"
            )

    return shank_info


def ref__prepare_files_NP21(self, overwrite=False, assert_shanks=True):
    """
    Creates and opens lf.bin file in order to extract the lfp signal from full signal. Checks
    to see if file already exists and will only rerun if overwrite=True. Don't call this
    function directly but access through process() method

    :param overwrite: set to True to force rerunning even if lf.bin file already exists
    :return:
    """

    chn_info = spikeglx._map_channels_from_meta(self.sr.meta)
    if assert_shanks:
        n_shanks = np.unique(chn_info["shank"]).astype(np.int16)
        assert len(n_shanks) == 1
    else:
        n_shanks = np.array([0])
    shank_info = {}
    self.already_exists = False

    lf_file = self.ap_file.parent.joinpath(
        self.ap_file.name.replace("ap", "lf")
    ).with_suffix(".bin")
    lf_cbin_file = lf_file.with_suffix(".cbin")
    if not (lf_file.exists() or lf_cbin_file.exists()) or overwrite:
        for sh in n_shanks:
            _shank_info = {}
            # channels for individual shank + sync channel
            if assert_shanks:
                _shank_info["chns"] = np.r_[
                    np.where(chn_info["shank"] == sh)[0],
                    np.array(
                        spikeglx._get_sync_trace_indices_from_meta(self.sr.meta)
                    ),
                ]
            else:
                _shank_info["chns"] = np.arange(self.sr.nc)

            _shank_info["lf_file"] = lf_file
            _shank_info["lf_open_file"] = open(_shank_info["lf_file"], "wb")

            shank_info[f"shank{sh}"] = _shank_info
    else:
        self.already_exists = True
        _logger.warning(
            "LF file for this probe already exists, "
            "to force reprocessing set overwrite to True"
        )

    return shank_info


def ref_check_NP24(self):
    """
    Check that the splitting into shanks process has completed correctly. Compares the original
    file to the reconstructed file from the individual shanks

    :return:
    """
    for sh in self.shank_info.keys():
        self.shank_info[sh]["sr"] = spikeglx.Reader(self.shank_info[sh]["ap_file"], sort=False)
    wg = WindowGenerator(self.nsamples, self.samples_window, 0)
    for first, last in wg.firstlast:
        expected = self.sr[first:last, :]
        chunk = np.zeros_like(expected)
        for ish, sh in enumerate(self.shank_info.keys()):
            srs = self.shank_info[sh]["sr"]
            if ish == 0:
                chunk[:, self.shank_info[sh]["chns"]] = srs[first:last, :]
            else:
                chunk[:, self.shank_info[sh]["chns"][:-1]] = srs[first:last, :-1]
        assert np.array_equal(
            expected, chunk
        ), "data in original file and split files do no match"

    # close the sglx instances once we are done checking
    for sh in self.shank_info.keys():
        sr = self.shank_info[sh].pop("sr")
        sr.close()

    self.check_completed = True


def ref_compress_NP24(self, overwrite=False, **kwargs):
    """
    Compress spikeglx files
    :return:
    """
    for sh in self.shank_info.keys():
        bin_file = self.shank_info[sh]["ap_file"]
        if overwrite:
            cbin_file = bin_file.with_suffix(".cbin")
            cbin_file.unlink(missing_ok=True)

        sr_ap = spikeglx.Reader(bin_file)
        cbin_file = sr_ap.compress_file(**kwargs)
        sr_ap.close()
        bin_file.unlink()
        self.shank_info[sh]["ap_file"] = cbin_file

        bin_file = self.shank_info[sh]["lf_file"]
        if overwrite:
            cbin_file = bin_file.with_suffix(".cbin")
            cbin_file.unlink(missing_ok=True)
        sr_lf = spikeglx.Reader(bin_file)
        cbin_file = sr_lf.compress_file(**kwargs)
        sr_lf.close()
        bin_file.unlink()
        self.shank_info[sh]["lf_file"] = cbin_file


def ref_compress_NP21(self, overwrite=False):
    """
    Compress spikeglx files
    :return:
    """
    for sh in self.shank_info.keys():
        if not self.sr.is_mtscomp:
            cbin_file = self.sr.compress_file()
            self.sr.close()
            self.ap_file.unlink()
            self.ap_file = cbin_file
            self.sr = spikeglx.Reader(self.ap_file)

        bin_file = self.shank_info[sh]["lf_file"]
        if overwrite:
            cbin_file = bin_file.with_suffix(".cbin")
            cbin_file.unlink(missing_ok=True)
        sr_lf = spikeglx.Reader(bin_file)
        cbin_file = sr_lf.compress_file()
        sr_lf.close()
        bin_file.unlink()
        self.shank_info[sh]["lf_file"] = cbin_file


class RefNP2Converter(neuropixel.NP2Converter):
    """The imported converter with the original implementations of the changed methods"""
    _prepare_files_NP24 = ref__prepare_files_NP24
    _prepare_files_NP21 = ref__prepare_files_NP21
    check_NP24 = ref_check_NP24
    compress_NP24 = ref_compress_NP24
    compress_NP21 = ref_compress_NP21


# same name in the messages of the exceptions (AttributeError: 'NP2Converter' object has no attribute ...)
RefNP2Converter.__name__ = RefNP2Converter.__qualname__ = "NP2Converter"

IMPLEMENTATIONS = {"ref": RefNP2Converter, "new": neuropixel.NP2Converter}


# ------------------------------------------------------------------------------------------------
# instrumentation: trace of operations, interruption injection, log capture
# ------------------------------------------------------------------------------------------------
class InjectedFault(RuntimeError):
    pass


class Probe:
    """Counts / traces the instrumented calls and raises InjectedFault on the k-th call of a target"""
    root = None
    trace = []
    counts = {}
    fault = None  # (target, k)

    @classmethod
    def reset(cls, root, fault=None):
        cls.root, cls.trace, cls.counts, cls.fault = root, [], {}, fault

    @classmethod
    def tick(cls, name, what=None):
        if cls.root is None:
            return
        cls.counts[name] = cls.counts.get(name, 0) + 1
        if what is not None:
            cls.trace.append((name, what))
        if cls.fault is not None and cls.fault[0] == name and cls.fault[1] == cls.counts[name]:
            cls.trace.append(("fault", name, cls.counts[name]))
            raise InjectedFault(f"interruption injected at {name} #{cls.counts[name]}")


def rel(path, root=None):
    root = root or Probe.root
    if path is None:
        return None
    path = str(path)
    return path.replace(str(root), "<root>")


_orig = {
    "read": spikeglx.Reader.read,
    "compress": spikeglx.Reader.compress_file,
    "init": spikeglx.Reader.__init__,
    "meta": spikeglx.write_meta_data,
    "unlink": pathlib.Path.unlink,
}


def _read(self, *args, **kwargs):
    Probe.tick("read")
    return _orig["read"](self, *args, **kwargs)


def _compress(self, *args, **kwargs):
    Probe.tick("compress", (rel(self.file_bin), tuple(sorted(kwargs))))
    return _orig["compress"](self, *args, **kwargs)


def _init(self, sglx_file, *args, **kwargs):
    Probe.tick("init", rel(sglx_file))
    return _orig["init"](self, sglx_file, *args, **kwargs)


def _meta(md, md_file, *args, **kwargs):
    Probe.tick("meta", rel(md_file))
    return _orig["meta"](md, md_file, *args, **kwargs)


def _unlink(self, *args, **kwargs):
    if Probe.root is not None and str(self).startswith(str(Probe.root)):
        Probe.tick("unlink", (rel(self), self.exists()))
    return _orig["unlink"](self, *args, **kwargs)


spikeglx.Reader.read = _read
spikeglx.Reader.compress_file = _compress
spikeglx.Reader.__init__ = _init
spikeglx.write_meta_data = _meta
pathlib.Path.unlink = _unlink


class ListHandler(logging.Handler):
    def __init__(self):
        super().__init__(level=logging.DEBUG)
        self.records = []

    def emit(self, record):
        self.records.append((record.levelname, rel(record.getMessage())))


LOG = ListHandler()
_logger.addHandler(LOG)
_logger.setLevel(logging.DEBUG)
_logger.propagate = False
for _name in ("mtscomp",):
    logging.getLogger(_name).setLevel(logging.CRITICAL)


# ------------------------------------------------------------------------------------------------
# inputs
# ------------------------------------------------------------------------------------------------
META_TEXT = {
    kind: FIXTURES.joinpath(folder, BIN_NAME).with_suffix(".meta").read_text()
    for kind, folder in (("NP2.4", "NP24_meta"), ("NP2.1", "NP21_meta"), ("NP1", "NP1_meta"))
}
NC = 385


def meta_for(kind, ns):
    fs = None
    lines = META_TEXT[kind].splitlines()
    for line in lines:
        if line.startswith("imSampRate="):
            fs = float(line.split("=")[1])
    out = []
    for line in lines:
        if line.startswith("fileSizeBytes="):
            line = f"fileSizeBytes={ns * NC * 2}"
        elif line.startswith("fileTimeSecs="):
            line = f"fileTimeSecs={ns / fs!r}"
        out.append(line)
    return "\n".join(out) + "\n"


def make_data(rng, ns, flavour):
    if flavour == "random":
        dat = rng.integers(-32768, 32768, size=(ns, NC), dtype=np.int16)
    elif flavour == "small":
        dat = rng.integers(-40, 41, size=(ns, NC)).astype(np.int16)
    elif flavour == "zeros":
        dat = np.zeros((ns, NC), dtype=np.int16)
    elif flavour == "ramp":
        dat = np.tile(np.arange(NC)[np.newaxis, :] + 10000, [ns, 1]).astype(np.int16)
    elif flavour == "extremes":
        dat = rng.choice(np.array([-32768, -1, 0, 1, 32767], dtype=np.int16), size=(ns, NC))
    elif flavour == "shank0_only":
        # only the channels of the first shank (and the sync) carry something
        chn = spikeglx._map_channels_from_meta(spikeglx.read_meta_data(
            FIXTURES.joinpath("NP24_meta", BIN_NAME).with_suffix(".meta")))
        dat = np.zeros((ns, NC), dtype=np.int16)
        cols = np.r_[np.where(chn["shank"] == 0)[0], NC - 1]
        dat[:, cols] = rng.integers(-3000, 3000, size=(ns, cols.size), dtype=np.int16)
    else:
        raise ValueError(flavour)
    dat[:, -1] = rng.integers(0, 2, size=ns, dtype=np.int16) * 64  # sync channel
    return np.ascontiguousarray(dat.astype(np.int16))


def write_input(folder, kind, dat):
    folder.mkdir(parents=True, exist_ok=True)
    bin_file = folder.joinpath(BIN_NAME)
    with open(bin_file, "wb") as fid:
        dat.tofile(fid)
    bin_file.with_suffix(".meta").write_text(meta_for(kind, dat.shape[0]))
    return bin_file


def snapshot(root):
    out = {}
    for dirpath, dirnames, filenames in os.walk(root):
        dirnames.sort()
        out[rel(dirpath, root) + "/"] = "dir"
        for fn in sorted(filenames):
            full = os.path.join(dirpath, fn)
            with open(full, "rb") as fid:
                out[rel(full, root)] = hashlib.sha1(fid.read()).hexdigest()
    return out


def norm(value):
    if isinstance(value, np.ndarray):
        return ("ndarray", value.dtype.str, value.shape, value.tobytes())
    if isinstance(value, Path):
        return ("path", rel(value))
    if isinstance(value, io.IOBase):
        return ("file", rel(value.name), value.closed, getattr(value, "mode", None))
    if isinstance(value, spikeglx.Reader):
        return ("reader", rel(value.file_bin))
    return (type(value).__name__, repr(value))


def state(conv):
    if conv is None:
        return None
    out = {}
    for attr in ("already_processed", "already_exists", "check_completed", "np_version", "post_check",
                 "compress", "delete_original", "nsamples", "samples_window", "extra", "nshank", "ap_file"):
        out[attr] = norm(getattr(conv, attr, "<unset>"))
    out["sr"] = norm(getattr(conv, "sr", "<unset>"))
    shank_info = getattr(conv, "shank_info", None)
    if isinstance(shank_info, dict):
        out["shank_info"] = [(key, [(k, norm(v)) for k, v in val.items()]) for key, val in shank_info.items()]
    else:
        out["shank_info"] = norm(shank_info)
    return out


# ------------------------------------------------------------------------------------------------
# scenarios
# ------------------------------------------------------------------------------------------------
def current_ap_file(root, start):
    """The file a user would hand over to a new run: the .bin if it is there, otherwise the .cbin"""
    start = root.joinpath(start)
    if start.exists():
        return start
    if start.with_suffix(".cbin").exists():
        return start.with_suffix(".cbin")
    if start.with_suffix(".bin").exists():
        return start.with_suffix(".bin")
    return start


def corrupt(file, where, seed):
    file = Path(file)
    if not file.exists() or file.stat().st_size < 8:
        return "no file"
    size = file.stat().st_size
    nch = 97
    offsets = {
        "first": 0,
        "last": size - 2,
        "middle": (size // 4) * 2,
        "sync_first_row": (nch - 1) * 2,
        "sync_last_row": size - 2,
        "random": (random.Random(seed).randrange(size // 2)) * 2,
    }
    off = offsets[where]
    with open(file, "r+b") as fid:
        fid.seek(off)
        old = fid.read(2)
        fid.seek(off)
        fid.write(bytes([old[0] ^ 0x55, old[1] ^ 0x2A]))
    return off


def run_scenario(sc, impl, root):
    """Runs all the steps of a scenario with one implementation, returns the list of observations"""
    cls = IMPLEMENTATIONS[impl]
    shutil.copytree(sc["template"], root)
    observations = []
    conv = None
    readers = []
    for istep, step in enumerate(sc["steps"]):
        LOG.records = []
        Probe.reset(root, fault=step.get("fault"))
        result = None
        try:
            if step["op"] == "process":
                ap_file = current_ap_file(root, sc["start"])
                conv = None
                conv = cls(ap_file, post_check=sc["post_check"], delete_original=sc["delete_original"],
                           compress=sc["compress"])
                readers.append(conv.sr)
                if sc["init"] is not None:
                    conv.init_params(**sc["init"])
                result = ("status", conv.process(overwrite=step["overwrite"]))
            elif step["op"] == "process21":
                ap_file = current_ap_file(root, sc["start"])
                conv = None
                conv = cls(ap_file, post_check=sc["post_check"], delete_original=sc["delete_original"],
                           compress=sc["compress"])
                readers.append(conv.sr)
                if sc["init"] is not None:
                    conv.init_params(**sc["init"])
                result = ("status", conv._process_NP21(overwrite=step["overwrite"], offset=step["offset"],
                                                       assert_shanks=step["assert_shanks"]))
            elif step["op"] == "corrupt":
                target = conv.shank_info[step["shank"]]["ap_file"]
                result = ("corrupt", corrupt(target, step["where"], sc["seed"]))
            elif step["op"] == "check":
                mm = getattr(conv.sr._raw, "_mmap", None)
                if mm is not None and mm.closed:
                    # the original has been closed and removed by delete_NP24: reading it again is not
                    # an admissible use of the converter (it would crash the interpreter)
                    result = ("check", "skipped: original already closed")
                else:
                    result = ("check", conv.check_NP24())
            elif step["op"] == "compress":
                result = ("compress", conv.compress_NP24(overwrite=step["overwrite"], **step.get("kwargs", {})))
            elif step["op"] == "compress21":
                result = ("compress21", conv.compress_NP21(overwrite=step["overwrite"]))
            elif step["op"] == "delete":
                result = ("delete", conv.delete_NP24())
            elif step["op"] == "files":
                fcn = conv.get_processed_files_NP24 if conv.np_version == "NP2.4" else conv.get_processed_files_NP21
                result = ("files", [rel(f) for f in fcn()])
            else:
                raise ValueError(step["op"])
        except Exception as exc:  # the exception is part of the observed behaviour
            result = ("exception", type(exc).__name__, rel(str(exc)))
        if conv is not None and getattr(conv, "sr", None) is not None and conv.sr not in readers:
            readers.append(conv.sr)
        observations.append({
            "step": (istep, step["op"]),
            "result": result,
            "state": state(conv),
            "logs": list(LOG.records),
            "trace": list(Probe.trace),
            "counts": dict(Probe.counts),
            "snapshot": snapshot(root),
        })
    Probe.reset(None)
    # release the resources of this run
    if conv is not None and isinstance(getattr(conv, "shank_info", None), dict):
        for val in conv.shank_info.values():
            for v in val.values():
                if isinstance(v, io.IOBase) and not v.closed:
                    v.close()
                if isinstance(v, spikeglx.Reader):
                    readers.append(v)
    for sr in readers:
        try:
            sr.close()
        except Exception:
            pass
    return observations


def first_difference(a, b, path=""):
    if type(a) is not type(b):
        return f"{path}: type {type(a).__name__} != {type(b).__name__}"
    if isinstance(a, dict):
        if list(a.keys()) != list(b.keys()):
            return f"{path}: keys {list(a.keys())} != {list(b.keys())}"
        for k in a:
            d = first_difference(a[k], b[k], f"{path}/{k}")
            if d:
                return d
        return None
    if isinstance(a, (list, tuple)):
        if len(a) != len(b):
            return f"{path}: length {len(a)} != {len(b)}: {a!r:.300} != {b!r:.300}"
        for i, (x, y) in enumerate(zip(a, b)):
            d = first_difference(x, y, f"{path}[{i}]")
            if d:
                return d
        return None
    if a != b:
        return f"{path}: {a!r:.300} != {b!r:.300}"
    return None


OPTION_COMBOS = [(p, c, d) for p in (False, True) for c in (False, True) for d in (False, True)]
FAULT_TARGETS = ["read", "meta", "compress", "init", "unlink"]
NS_CHOICES = [1201, 1500, 1800, 2399, 2400, 2401, 2750]
NWINDOW_CHOICES = [1200, 1800, 2400, 6000]
FLAVOURS = ["random", "small", "small", "small", "zeros", "ramp", "ramp", "extremes", "shank0_only"]


def build_scenarios(rnd, n):
    scenarios = []
    for i in range(n):
        kind = rnd.choices(["NP2.4", "NP2.1", "NP1", "split"], weights=[11, 6, 1, 2])[0]
        post_check, compress, delete_original = OPTION_COMBOS[i % 8]
        ns = rnd.choice(NS_CHOICES)
        sc = {
            "id": i, "kind": kind, "seed": 1000 + i, "ns": ns, "flavour": rnd.choice(FLAVOURS),
            "post_check": post_check, "compress": compress, "delete_original": delete_original,
            "from_compressed": rnd.random() < 0.15, "init": None, "steps": [],
        }
        init = {}
        if rnd.random() < 0.85:
            init["nwindow"] = rnd.choice(NWINDOW_CHOICES)
        if rnd.random() < 0.3:
            init["extra"] = rnd.choice(["_x", "_test", "-2"])
        if kind == "NP2.4" and rnd.random() < 0.15:
            init["nshank"] = rnd.choice([[0], [1], [0, 2], [3, 1], [0, 1, 2, 3], [2, 3, 0, 1]])
        if rnd.random() < 0.12:
            init["nsamples"] = rnd.choice([ns - 100, ns - 1, 1300, ns + 500])
        sc["init"] = init or None

        # history of runs
        nsteps = rnd.choice([1, 2, 2, 3, 3, 4])
        pattern = rnd.choice(["FF", "FT", "TF", "TT", "rand"])
        for j in range(nsteps):
            if pattern == "rand":
                overwrite = rnd.random() < 0.5
            else:
                overwrite = (pattern[min(j, 1)] == "T") if j < 2 else rnd.random() < 0.5
            step = {"op": "process", "overwrite": overwrite}
            if kind == "NP2.1" and rnd.random() < 0.15:
                step = {"op": "process21", "overwrite": overwrite, "offset": rnd.choice([0, 12, 120]),
                        "assert_shanks": rnd.random() < 0.5}
            sc["steps"].append(step)
        # interruptions, followed by the retries that are already in the history
        if rnd.random() < 0.55:
            # preferably in a run that has something to do: the first one or a forced one
            busy = [j for j in range(nsteps) if j == 0 or sc["steps"][j]["overwrite"]]
            where = set(rnd.sample(busy, k=min(len(busy), rnd.choice([1, 1, 2]))))
            if rnd.random() < 0.2:
                where.add(rnd.randrange(nsteps))
            for j in sorted(where):
                target = rnd.choice(FAULT_TARGETS)
                if kind == "NP2.1":
                    kmax = {"read": 7, "meta": 1, "compress": 2, "init": 4, "unlink": 3}[target]
                else:
                    kmax = {"read": 16, "meta": 8, "compress": 8, "init": 13, "unlink": 12}[target]
                sc["steps"][j]["fault"] = (target, rnd.randint(1, kmax))
        # direct use of the public steps after a run
        if kind == "NP2.4":
            r = rnd.random()
            if r < 0.25:
                where = rnd.choice(["first", "last", "middle", "sync_first_row", "sync_last_row", "random"])
                sc["steps"] += [{"op": "corrupt", "shank": rnd.choice(["shank0", "shank1", "shank3"]), "where": where},
                                {"op": "check"}, {"op": "delete"}]
            elif r < 0.4:
                kwargs = rnd.choice([{}, {"check_after_compress": False}, {"keep_original": True}])
                extra_step = {"op": "compress", "overwrite": rnd.random() < 0.5, "kwargs": kwargs}
                if rnd.random() < 0.4:
                    extra_step["fault"] = (rnd.choice(["compress", "unlink", "init"]), rnd.randint(1, 8))
                sc["steps"] += [{"op": "check"}, extra_step, {"op": "delete"}]
            elif r < 0.5:
                sc["steps"] += [{"op": "check"}, {"op": "check"}, {"op": "delete"}]
        elif kind == "NP2.1" and rnd.random() < 0.2:
            sc["steps"] += [{"op": "compress21", "overwrite": rnd.random() < 0.5}]
        if rnd.random() < 0.5:
            sc["steps"].append({"op": "files"})
        if rnd.random() < 0.3:
            sc["steps"].append({"op": "process", "overwrite": rnd.random() < 0.5})
        scenarios.append(sc)
    return scenarios


_SPLIT_CACHE = {}


def build_template(sc, base):
    """Creates the initial content of the sandbox of a scenario (identical for both implementations)"""
    template = base.joinpath("template")
    if template.exists():
        shutil.rmtree(template)
    rng = np.random.default_rng(sc["seed"])
    kind = sc["kind"]
    dat = make_data(rng, sc["ns"], sc["flavour"])
    if kind == "split":
        # the input is one shank of an NP2.4 recording that has been split by the reference implementation
        key = (sc["ns"], sc["flavour"], sc["from_compressed"])
        if key not in _SPLIT_CACHE:
            stage = base.joinpath(f"stage{len(_SPLIT_CACHE)}")
            bin_file = write_input(stage.joinpath("probe00"), "NP2.4", dat)
            conv = RefNP2Converter(bin_file, post_check=True, compress=sc["from_compressed"], delete_original=True)
            conv.init_params(nwindow=2400)
            assert conv.process() == 1
            conv.sr.close()
            _SPLIT_CACHE[key] = stage
        shutil.copytree(_SPLIT_CACHE[key], template)
        letter = "abcd"[sc["id"] % 4]
        sc["start"] = str(Path(f"probe00{letter}").joinpath(BIN_NAME))
        return template
    bin_file = write_input(template.joinpath("probe00"), kind, dat)
    if sc["from_compressed"]:
        sr = spikeglx.Reader(bin_file)
        sr.compress_file(check_after_compress=False)
        sr.close()
        bin_file.unlink()
    sc["start"] = str(Path("probe00").joinpath(BIN_NAME))
    return template


def main():
    t0 = time.time()
    n_scenarios = int(os.environ.get("DEMO_N", 220))
    rnd = random.Random(20240404)
    scenarios = build_scenarios(rnd, n_scenarios)
    tmp_parent = HERE.joinpath(".tmp")
    try:
        tmp_parent.mkdir(exist_ok=True)
        base = Path(tempfile.mkdtemp(prefix="demo_c04_", dir=tmp_parent))
    except OSError:
        base = Path(tempfile.mkdtemp(prefix="demo_c04_"))
    failures = []
    stats = {"steps": 0, "status": {}, "exceptions": {}, "faults_fired": 0, "kinds": {}}
    try:
        for sc in scenarios:
            template = build_template(sc, base)
            sc["template"] = template
            obs = {}
            for impl in ("ref", "new"):
                root = base.joinpath(f"run_{impl}")
                obs[impl] = run_scenario(sc, impl, root)
                shutil.rmtree(root)
            if sc["id"] % 20 == 19:
                gc.collect()
            diff = first_difference(obs["ref"], obs["new"], f"scenario {sc['id']}")
            if diff:
                desc = {k: v for k, v in sc.items() if k != "template"}
                failures.append(f"{diff}\n    scenario: {desc}")
            # book keeping on what has been exercised
            stats["kinds"][sc["kind"]] = stats["kinds"].get(sc["kind"], 0) + 1
            for ob in obs["ref"]:
                stats["steps"] += 1
                res = ob["result"]
                if res[0] == "status":
                    stats["status"][res[1]] = stats["status"].get(res[1], 0) + 1
                if res[0] == "exception":
                    stats["exceptions"][res[1]] = stats["exceptions"].get(res[1], 0) + 1
                stats["faults_fired"] += sum(1 for t in ob["trace"] if t[0] == "fault")
            if time.time() - t0 > 90:
                print(f"time budget reached after scenario {sc['id']}, stopping early")
                break
    finally:
        shutil.rmtree(base, ignore_errors=True)
    print(f"{stats['steps']} steps compared over {sum(stats['kinds'].values())} scenarios {stats['kinds']} "
          f"in {time.time() - t0:.1f}s")
    print(f"process() status counts: {stats['status']}; exceptions observed (identically in both runs): "
          f"{stats['exceptions']}; interruptions fired: {stats['faults_fired']}")
    if failures:
        print(f"FAIL: {len(failures)} scenario(s) differ between the reference and the imported implementation")
        for f in failures[:10]:
            print(" - " + f)
        return 1
    print("OK: reference and imported implementations are identical on every scenario")
    return 0


if __name__ == "__main__":
    sys.exit(main())
