import sys, os; sys.path.insert(0, os.path.join(os.path.dirname(os.path.abspath(__file__)), "src"))
"""
C04 - conversion never loses the original.

History exercised: ONE process() call on a fresh directory for an NP2.4 recording with the option
combination post_check=False, delete_original=True (compress off to keep it quick).

Oracle (plain NumPy, nothing taken from the library's own verification code):
  the original .ap.bin may only be missing after a run if a verification pass has run, and in any
  case the original samples must stay recoverable byte for byte: either the original file is still
  there with identical bytes, or the per-shank files on disk put back together with the channel
  map of the meta file reproduce the original array exactly.

Scenario A: clean run, verification disabled       -> the original must be kept
Scenario B: same, but one sample of shank b's ap.bin is damaged on disk between the end of the
            writes and the metadata step (a bad sector / partial write)  -> the original is the
            only good copy and must be kept
Scenario C: control, post_check=True               -> original removed, shanks reproduce it
"""
import hashlib
import logging
import shutil
import tempfile
from pathlib import Path

import numpy as np

import neuropixel
import spikeglx

logging.disable(logging.CRITICAL)

HERE = Path(__file__).resolve().parent
META = HERE.joinpath("src", "tests", "fixtures", "np2split", "NP24_meta",
                     "_spikeglx_ephysData_g0_t0.imec0.ap.meta")
NAME = "_spikeglx_ephysData_g0_t0.imec0.ap.bin"
NS, NC = 30000, 385


def make_recording(root, rng):
    folder = Path(root).joinpath("probe00")
    folder.mkdir(parents=True)
    data = rng.integers(-3000, 3000, size=(NS, NC), dtype=np.int16)
    data[:, -1] = (np.arange(NS) // 500 % 2).astype(np.int16)  # a sync square wave
    ap_file = folder.joinpath(NAME)
    data.tofile(ap_file)
    shutil.copy(META, ap_file.with_suffix(".meta"))
    return ap_file, data


def sha(path):
    return hashlib.sha1(Path(path).read_bytes()).hexdigest()


def reassemble(root, meta):
    """puts the shank files found on disk back together, NumPy only"""
    shank = np.asarray(spikeglx._map_channels_from_meta(meta)["shank"]).astype(int)
    out = np.full((NS, NC), np.iinfo(np.int16).min, dtype=np.int16)
    for sh in np.unique(shank):
        f = Path(root).joinpath("probe00" + chr(97 + sh), NAME)
        if not f.exists():
            return None
        cols = np.r_[np.where(shank == sh)[0], NC - 1]
        raw = np.fromfile(f, dtype=np.int16)
        if raw.size != NS * cols.size:
            return None
        raw = raw.reshape(NS, cols.size)
        out[:, cols[:-1]] = raw[:, :-1]
        if sh == 0:
            out[:, -1] = raw[:, -1]
    return out


def run(post_check, damage):
    rng = np.random.default_rng(4)
    root = tempfile.mkdtemp(prefix="c04_demo_")
    try:
        ap_file, data = make_recording(root, rng)
        digest = sha(ap_file)
        meta = spikeglx.read_meta_data(ap_file.with_suffix(".meta"))
        conv = neuropixel.NP2Converter(ap_file, post_check=post_check, delete_original=True,
                                       compress=False)
        if damage:
            write_meta = conv._writemetadata_ap

            def damaged_then_meta():
                # the shank files are closed at this point; flip one sample of shank b on disk
                f = Path(root).joinpath("probe00b", NAME)
                with open(f, "r+b") as fid:
                    fid.seek(2 * (97 * 1234 + 5))
                    fid.write(np.int16(12345).tobytes())
                write_meta()
            conv._writemetadata_ap = damaged_then_meta
        error = None
        try:
            status = conv.process()
        except Exception as e:  # noqa
            status, error = None, e
        try:
            conv.sr.close()
        except Exception:  # noqa
            pass
        kept = ap_file.exists() and sha(ap_file) == digest
        rebuilt = reassemble(root, meta)
        recoverable = kept or (rebuilt is not None and np.array_equal(rebuilt, data))
        return dict(status=status, error=error, kept=kept, exists=ap_file.exists(),
                    recoverable=recoverable)
    finally:
        shutil.rmtree(root, ignore_errors=True)


problems = []

a = run(post_check=False, damage=False)
print(f"A  post_check=False delete_original=True            : status={a['status']} "
      f"original kept={a['kept']} recoverable={a['recoverable']}")
if not a["exists"]:
    problems.append("A: the original ap.bin was removed although no verification of the split "
                    "files has run (post_check=False)")

b = run(post_check=False, damage=True)
print(f"B  same, one sample of shank b damaged on disk      : status={b['status']} "
      f"original kept={b['kept']} recoverable={b['recoverable']}")
if not b["recoverable"]:
    problems.append("B: the original ap.bin is gone and the shank files do not reproduce it: "
                    "the recorded samples are lost")

c = run(post_check=True, damage=False)
print(f"C  control post_check=True delete_original=True     : status={c['status']} "
      f"original kept={c['kept']} recoverable={c['recoverable']}")
if c["error"] is not None or not c["recoverable"]:
    problems.append(f"C: control run failed ({c['error']!r})")

if problems:
    print("PROPERTY C04 VIOLATED")
    for p in problems:
        print("  - " + p)
    sys.exit(1)
print("ok: the original is only removed after a verification pass, samples always recoverable")
sys.exit(0)
