import sys, os; sys.path.insert(0, os.path.join(os.path.dirname(os.path.abspath(__file__)), "src"))
"""
C04 - a forced re-run (overwrite=True) must end with a complete, valid set of per-shank files
whether or not earlier output exists, also when the earlier run was interrupted.

Two histories are replayed on a small synthetic NP2.4 recording (4 shanks x 96 channels + sync):

  A. process() with compress=False (the split .bin files stay on disk), then a second converter
     with process(overwrite=True)
  B. process() interrupted while the windows are being written, then process(overwrite=True)

Oracle (plain NumPy, from the definition of the split): after the forced re-run every shank ap file
holds exactly the samples of the original restricted to the channels of that shank plus the sync
channel, nothing more and nothing less, and the lf file holds one sample for every 12 ap samples.
"""
import logging
import shutil
import tempfile
from pathlib import Path

import numpy as np

import spikeglx
from neuropixel import NP2Converter

logging.disable(logging.CRITICAL)

NS, NC, NSHANK, FS = 9000, 385, 4, 30000
NWINDOW = 3000  # several windows, must be a multiple of 12
SHANK_OF_CHANNEL = (np.arange(NC - 1) // 48) % NSHANK  # hStripe like layout, 96 channels a shank


def write_meta(meta_file):
    imro = "(24,384)" + "".join(
        f"({c} {SHANK_OF_CHANNEL[c]} 0 0 {c})" for c in range(NC - 1))
    shank_map = "(4,2,640)" + "".join(
        f"({SHANK_OF_CHANNEL[c]}:{c % 2}:{(c % 48) // 2 + 24 * (c // 192)}:1)" for c in range(NC - 1))
    chan_map = "(384,0,1)" + "".join(f"(AP{c};{c}:{c})" for c in range(NC - 1)) + "(SY0;768:384)"
    lines = {
        "acqApLfSy": "384,0,1", "appVersion": "20201103", "fileSizeBytes": NS * NC * 2,
        "fileTimeSecs": NS / FS, "firstSample": 0, "imAiRangeMax": 0.5, "imAiRangeMin": -0.5,
        "imDatPrb_port": 1, "imDatPrb_slot": 2, "imDatPrb_type": 24, "imMaxInt": 8192,
        "imSampRate": FS, "nSavedChans": NC, "snsApLfSy": "384,0,1", "snsSaveChanSubset": "0:384",
        "typeThis": "imec", "~imroTbl": imro, "~snsChanMap": chan_map, "~snsShankMap": shank_map,
    }
    with open(meta_file, "w") as fid:
        fid.write("".join(f"{k}={v}\n" for k, v in lines.items()))


def make_recording(folder):
    folder.mkdir(parents=True)
    rng = np.random.default_rng(42)
    data = rng.integers(-4000, 4000, size=(NS, NC)).astype(np.int16)
    data[:, -1] = (np.arange(NS) // 50) % 2  # sync
    ap_file = folder.joinpath("_spikeglx_ephysData_g0_t0.imec0.ap.bin")
    data.tofile(ap_file)
    write_meta(ap_file.with_suffix(".meta"))
    return ap_file, data


def converter(ap_file, **kwargs):
    conv = NP2Converter(ap_file, **kwargs)
    conv.init_params(nwindow=NWINDOW, extra="_demo")
    return conv


def check_outputs(ap_file, data, history):
    """Compares what is on disk with the definition of the split, returns a list of problems"""
    problems = []
    for sh in range(NSHANK):
        folder = ap_file.parent.parent.joinpath(f"probe00{chr(97 + sh)}_demo")
        cols = np.r_[np.where(SHANK_OF_CHANNEL == sh)[0], NC - 1]
        expected = data[:, cols]
        for etype, ns_expected in (("ap", NS), ("lf", NS // 12)):
            bin_file = folder.joinpath(ap_file.name.replace(".ap.", f".{etype}."))
            if not bin_file.exists():
                problems.append(f"[{history}] shank {sh}: {bin_file.name} is missing")
                continue
            raw = np.fromfile(bin_file, dtype=np.int16)
            ns = raw.size / cols.size
            if ns != ns_expected:
                problems.append(
                    f"[{history}] shank {sh}: {etype} file holds {ns:g} samples, the original "
                    f"gives {ns_expected}")
            elif etype == "ap" and not np.array_equal(raw.reshape(-1, cols.size), expected):
                problems.append(f"[{history}] shank {sh}: ap samples differ from the original")
    return problems


def history_rerun_after_uncompressed_run(tmp):
    ap_file, data = make_recording(tmp.joinpath("A", "probe00"))
    conv = converter(ap_file, compress=False)
    assert conv.process() == 1
    conv.sr.close()
    problems = check_outputs(ap_file, data, "A, first run")
    conv = converter(ap_file, compress=False)
    try:
        status = conv.process(overwrite=True)
        if status != 1:
            problems.append(f"[A] the forced re-run returned {status}")
    except Exception as e:  # noqa
        problems.append(f"[A] the forced re-run raised {type(e).__name__}: {e}")
    conv.sr.close()
    if not np.array_equal(np.fromfile(ap_file, dtype=np.int16).reshape(NS, NC), data):
        problems.append("[A] the original file has changed")
    return problems + check_outputs(ap_file, data, "A, forced re-run over earlier output")


def history_rerun_after_interrupted_run(tmp):
    ap_file, data = make_recording(tmp.joinpath("B", "probe00"))
    conv = converter(ap_file, compress=False)
    split2shanks, calls = conv._split2shanks, []

    def interrupted(chunk, etype="ap"):
        if len(calls) == 3:  # the second window has just been read
            raise KeyboardInterrupt
        calls.append(etype)
        return split2shanks(chunk, etype=etype)

    conv._split2shanks = interrupted
    try:
        conv.process()
        raise AssertionError("the interruption was not injected")
    except KeyboardInterrupt:
        pass
    conv.sr.close()
    for info in conv.shank_info.values():  # what a dying process does for us
        for key in [k for k in info if k.endswith("open_file")]:
            info.pop(key).close()

    problems = []
    conv = converter(ap_file, compress=False)
    try:
        status = conv.process(overwrite=True)
        if status != 1:
            problems.append(f"[B] the forced re-run returned {status}")
    except Exception as e:  # noqa
        problems.append(
            f"[B] the forced re-run after an interrupted run raised {type(e).__name__}: {e}")
    conv.sr.close()
    if not np.array_equal(np.fromfile(ap_file, dtype=np.int16).reshape(NS, NC), data):
        problems.append("[B] the original file has changed")
    return problems + check_outputs(ap_file, data, "B, forced re-run after an interrupted run")


def main():
    tmp = Path(tempfile.mkdtemp(prefix="c04_demo_"))
    try:
        problems = history_rerun_after_uncompressed_run(tmp)
        problems += history_rerun_after_interrupted_run(tmp)
    finally:
        shutil.rmtree(tmp, ignore_errors=True)
    if problems:
        print("C04 violated: a forced re-run does not end with a complete, valid set of shank files")
        for p in problems:
            print("  -", p)
        return 1
    print("C04 holds: the forced re-runs ended with shank files identical to the original samples")
    return 0


if __name__ == "__main__":
    sys.exit(main())
