import sys, os; sys.path.insert(0, os.path.join(os.path.dirname(os.path.abspath(__file__)), "src"))
"""
C04 - conversion never loses the original and is idempotent over run histories.

History exercised (every call is an ordinary NP2Converter.process call, the only fault is one
interruption while the windows of a forced re-run are being written):

  1. process()                 compress=False, delete_original=False   -> complete, verified split
  2. process(overwrite=True)   interrupted while writing the 2nd window -> shank .bin files partial
  3. process()                 delete_original=True, no overwrite       -> must change nothing

Oracle (plain NumPy, no library code): after every step the samples written at the start must be
recoverable byte for byte, either from the original file or from the four shank files put back
together with the channel map taken from the definition (channel c of a NP2.4 'hStripe' style
imro table belongs to the shank given in the imro table entry).
"""
import logging
import shutil
import tempfile
from pathlib import Path

import numpy as np

import spikeglx
from neuropixel import NP2Converter

logging.disable(logging.CRITICAL)

HERE = Path(__file__).parent.resolve()
META_TEMPLATE = HERE.joinpath(
    "src", "tests", "fixtures", "np2split", "NP24_meta", "_spikeglx_ephysData_g0_t0.imec0.ap.meta"
)
NS, NC = 30000, 385
NAME = "_spikeglx_ephysData_g0_t0.imec0.ap.bin"


class Interrupted(Exception):
    pass


def shank_of_channels(meta_file):
    """Independent of the library: parses the imro table, entry = (chn shank bank ref elec)"""
    for line in Path(meta_file).read_text().splitlines():
        if line.startswith("~imroTbl=") or line.startswith("imroTbl="):
            entries = line.split("=", 1)[1].strip("()").split(")(")[1:]
            return np.array([int(e.split(" ")[1]) for e in entries])
    raise ValueError("no imro table")


def recoverable(root, data, shanks):
    """
    True if the original samples can be recovered byte for byte from what is on disk: either the
    original file itself, or the raw (uncompressed here) per shank files reassembled
    """
    orig = root.joinpath("probe00", NAME)
    if orig.exists() and orig.stat().st_size == data.nbytes:
        if np.array_equal(np.fromfile(orig, dtype=np.int16).reshape(-1, NC), data):
            return True, "original file intact"
    recon = np.zeros_like(data)
    filled = np.zeros(NC, dtype=bool)
    for ish in range(4):
        chns = np.r_[np.where(shanks == ish)[0], NC - 1]
        f = root.joinpath(f"probe00{chr(97 + ish)}", NAME)
        if not f.exists():
            return False, f"{f.parent.name}: no ap.bin file"
        raw = np.fromfile(f, dtype=np.int16)
        if raw.size != NS * chns.size:
            return False, (f"{f.parent.name}: ap.bin holds {raw.size // chns.size} of {NS} samples")
        recon[:, chns] = raw.reshape(NS, chns.size)
        filled[chns] = True
    ok = bool(np.all(filled)) and np.array_equal(recon, data)
    return ok, "shank files reassemble to the original" if ok else "shank files differ from the original"


def snapshot(root):
    return {str(p.relative_to(root)): (p.stat().st_size, p.read_bytes()) for p in sorted(root.rglob("*")) if p.is_file()}


def main():
    root = Path(tempfile.mkdtemp(prefix="c04_demo_"))
    try:
        probe = root.joinpath("probe00")
        probe.mkdir()
        rng = np.random.default_rng(4)
        data = rng.integers(-2000, 2000, size=(NS, NC), dtype=np.int16)
        data[:, -1] = rng.integers(0, 2, size=NS, dtype=np.int16) * 64
        ap_file = probe.joinpath(NAME)
        data.tofile(ap_file)
        shutil.copy(META_TEMPLATE, ap_file.with_suffix(".meta"))
        shanks = shank_of_channels(META_TEMPLATE)
        assert shanks.size == 384 and set(shanks) == {0, 1, 2, 3}

        problems = []

        # 1. first run: keeps the original, not compressed, verified by the post-check
        conv = NP2Converter(ap_file, compress=False, delete_original=False)
        conv.init_params(nwindow=9000)
        status = conv.process()
        conv.sr.close()
        ok, why = recoverable(root, data, shanks)
        print(f"run 1 process()                 -> status {status}; original exists: {ap_file.exists()}; {why}")
        assert status == 1 and ok

        # 2. forced re-run, interrupted while the second window is being written
        conv = NP2Converter(ap_file, compress=False, delete_original=False)
        conv.init_params(nwindow=9000)
        split2shanks, calls = conv._split2shanks, [0]

        def interrupting(chunk, etype="ap"):
            calls[0] += 1
            if calls[0] > 2:  # ap and lf of the first window went through
                raise Interrupted("interrupted while writing window 2")
            return split2shanks(chunk, etype=etype)

        conv._split2shanks = interrupting
        try:
            conv.process(overwrite=True)
            raise AssertionError("the interruption was not injected")
        except Interrupted as e:
            print(f"run 2 process(overwrite=True)   -> {e}")
        for sh in conv.shank_info.values():  # what the interpreter does when the process dies
            for k in ("ap_open_file", "lf_open_file"):
                if k in sh:
                    sh[k].close()
        conv.sr.close()
        ok, why = recoverable(root, data, shanks)
        print(f"      original exists: {ap_file.exists()}; recoverable: {ok} ({why})")
        assert ok, "the interrupted run itself must not lose anything"

        # 3. repeated run without overwrite: must change nothing on disk and report it did nothing
        before = snapshot(root)
        conv = NP2Converter(ap_file, compress=False, delete_original=True)
        conv.init_params(nwindow=9000)
        status = conv.process()
        conv.sr.close()
        after = snapshot(root)
        ok, why = recoverable(root, data, shanks)
        print(f"run 3 process() delete_original -> status {status}; original exists: {ap_file.exists()}; "
              f"recoverable: {ok} ({why})")
        if status != 0:
            problems.append(f"repeated run without overwrite reported status {status} instead of 0")
        if before != after:
            gone = sorted(set(before) - set(after))
            changed = sorted(k for k in set(before) & set(after) if before[k] != after[k])
            problems.append(f"repeated run without overwrite changed the disk: removed {gone}, modified {changed}")
        if not ok:
            problems.append(
                "the original samples are no longer recoverable: the original ap.bin was removed although the "
                f"shank files on disk were never verified against it ({why})"
            )

        if problems:
            print("\nC04 VIOLATED:")
            for p in problems:
                print("  - " + p)
            return 1
        print("\nC04 holds for this history: nothing changed on disk, the original is intact")
        return 0
    finally:
        shutil.rmtree(root, ignore_errors=True)


if __name__ == "__main__":
    sys.exit(main())
