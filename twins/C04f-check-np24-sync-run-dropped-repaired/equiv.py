import sys, os; sys.path.insert(0, os.path.join(os.path.dirname(os.path.abspath(__file__)), "src"))
"""
C04 - the original may only be removed once the split output has been verified bit-identical.

A 4-shank NP2.4 recording (standard channel layout, random int16 samples) is converted with
post_check=True and delete_original=True.  Between the writing of the shank files and the
verification, ONE sample of ONE shank file is altered on disk (same idiom as the test
testIncorrectSplitting, but on another shank / channel / sample).

Oracle (plain NumPy, from the definition): after process() has returned or raised, either the
original file is still there with its original bytes, or putting the columns of the four shank
files back at their channel positions gives the original bytes.
"""
import shutil
import tempfile
from pathlib import Path

import numpy as np

import spikeglx
from neuropixel import NP2Converter

HERE = Path(__file__).resolve().parent
META = HERE.joinpath("src", "tests", "fixtures", "np2split", "NP24_meta", "_spikeglx_ephysData_g0_t0.imec0.ap.meta")
NS, NC = 30000, 385  # the meta file describes 1 second of recording


def make_recording(folder):
    probe = Path(folder).joinpath("probe00")
    probe.mkdir(parents=True)
    ap_file = probe.joinpath("_spikeglx_ephysData_g0_t0.imec0.ap.bin")
    rng = np.random.default_rng(4)
    data = rng.integers(-8000, 8000, size=(NS, NC), dtype=np.int16)
    data[:, -1] = rng.integers(0, 2, size=NS) * 64
    data.tofile(ap_file)
    shutil.copy(META, ap_file.with_suffix(".meta"))
    return ap_file, data


def shank_of_channels():
    md = spikeglx.read_meta_data(META)
    return np.asarray(spikeglx._map_channels_from_meta(md)["shank"]).astype(int)  # (384,)


def reassemble(folder):
    """original laid out again from the shank folders probe00a..d, with NumPy only"""
    shank = shank_of_channels()
    out = np.zeros((NS, NC), dtype=np.int16)
    for sh in np.unique(shank):
        files = list(Path(folder).joinpath("probe00" + chr(97 + sh)).glob("*.ap.bin"))
        if len(files) != 1:
            return None
        cols = np.r_[np.where(shank == sh)[0], NC - 1]
        d = np.fromfile(files[0], dtype=np.int16)
        if d.size != NS * cols.size:
            return None
        out[:, cols] = d.reshape(NS, cols.size)
    return out


class GlitchBeforeCheck(NP2Converter):
    """alters one int16 of one shank file once it is written and closed, before the verification"""
    glitch = None  # (shank key, sample, column in the shank file)

    def _writemetadata_ap(self):
        super()._writemetadata_ap()
        if self.glitch is None:
            return
        sh, isamp, icol = self.glitch
        info = self.shank_info[sh]
        with open(info["ap_file"], "r+b") as fid:
            fid.seek((isamp * len(info["chns"]) + icol) * 2)
            v = np.frombuffer(fid.read(2), dtype=np.int16)
            fid.seek(-2, 1)
            fid.write((v ^ 0x0100).astype(np.int16).tobytes())


def run(glitch):
    """returns a list of problems found for one conversion with the given glitch"""
    problems = []
    with tempfile.TemporaryDirectory() as tmp:
        ap_file, data = make_recording(tmp)
        conv = GlitchBeforeCheck(ap_file, post_check=True, compress=False, delete_original=True)
        conv.glitch = glitch
        raised = None
        try:
            status = conv.process()
        except AssertionError as e:
            status, raised = None, e
        try:
            conv.sr.close()
        except Exception:
            pass
        original_ok = ap_file.exists() and np.array_equal(np.fromfile(ap_file, dtype=np.int16).reshape(NS, NC), data)
        back = reassemble(tmp)
        split_ok = back is not None and np.array_equal(back, data)
        what = "no glitch" if glitch is None else "glitch in %s sample %d column %d (original channel %d)" % (
            *glitch, conv.shank_info[glitch[0]]["chns"][glitch[2]])
        print("%-62s status=%s raised=%s original kept=%s split identical=%s" % (
            what, status, type(raised).__name__ if raised else None, original_ok, split_ok))
        if not (original_ok or split_ok):
            nbad = -1 if back is None else int((back != data).sum())
            problems.append(
                f"{what}: process() returned {status}, the original file was removed although the shank files "
                f"do not give the original samples back ({nbad} sample(s) differ): the recording is not recoverable")
        if glitch is None and not (status == 1 and split_ok and not ap_file.exists()):
            problems.append("clean run: expected status 1, a bit-identical split and the original removed")
        if glitch is not None and raised is None:
            problems.append(f"{what}: the verification did not report the altered sample")
    return problems


def main():
    problems = []
    problems += run(None)                     # sanity of the oracle: clean conversion, original may go
    problems += run(("shank3", 20011, 10))    # shank d, first run of channels (240:287)
    problems += run(("shank3", 20011, 60))    # shank d, run of channels 336:383 that abuts the sync channel 384
    if problems:
        print("\nC04 VIOLATED")
        for p in problems:
            print(" -", p)
        return 1
    print("\nC04 holds: an altered split is always reported and the original is kept")
    return 0


if __name__ == "__main__":
    sys.exit(main())
