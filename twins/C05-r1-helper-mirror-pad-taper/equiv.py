"""
Differential check for refactor_1 (extraction of the mirror-pad + cosine-taper block of
voltage.kfilt / voltage.fk into the private helper voltage._mirror_pad_and_taper).

The original implementation (pristine copy of HEAD in /tmp/wt_C05_tmp/orig) and the refactored one
(/tmp/wt_C05/src) are each run in their own interpreter on the same deterministic inputs; results
(values bit for bit, dtypes, shapes, in-place side effects on the inputs, exception types and messages)
are compared by the parent.  Prints EQUIVALENT and exits 0 on success.
"""
import hashlib
import os
import pickle
import subprocess
import sys
import tempfile
from pathlib import Path

ORIG = '/tmp/wt_C05_tmp/orig'
NEW = '/tmp/wt_C05/src'


def enc(v):
    import numpy as np
    if isinstance(v, BaseException):
        return ('EXC', type(v).__name__, str(v))
    if isinstance(v, np.ndarray):
        # bit for bit comparison through a digest of the buffer (keeps the result files small)
        return ('ARR', str(v.dtype), v.shape, hashlib.sha256(np.ascontiguousarray(v).tobytes()).hexdigest())
    if isinstance(v, np.generic):
        return ('SCAL', str(v.dtype), v.tobytes())
    if isinstance(v, (tuple, list)):
        return (type(v).__name__, [enc(i) for i in v])
    if isinstance(v, dict):
        return ('dict', [(k, enc(i)) for k, i in v.items()])
    return ('PY', type(v).__name__, repr(v))


def worker(srcdir, outfile):
    sys.path.insert(0, srcdir)
    import numpy as np
    import neuropixel
    import spikeglx
    import ibldsp.voltage as voltage
    import ibldsp.fourier as fourier
    import ibldsp.utils
    for m in (neuropixel, spikeglx, voltage, fourier, ibldsp.utils):
        assert m.__file__.startswith(srcdir + '/'), (m.__file__, srcdir)
    if srcdir == NEW:
        assert hasattr(voltage, '_mirror_pad_and_taper'), 'refactor_1.diff is not applied in the worktree'
    else:
        assert not hasattr(voltage, '_mirror_pad_and_taper')

    results = []

    def run(name, fcn, *args, **kwargs):
        """runs the function, records output and the (possibly mutated in place) array inputs"""
        try:
            out = fcn(*args, **kwargs)
        except Exception as e:  # noqa
            out = e
        arrs = [a for a in args if isinstance(a, np.ndarray)] + [
            a for a in kwargs.values() if isinstance(a, np.ndarray)]
        results.append((name, enc(out), enc(arrs)))

    rng = np.random.default_rng(12345)

    def data(nx, nt, dtype=np.float64, common=True):
        x = rng.standard_normal((nx, nt))
        if common:
            x += 5 * np.sin(np.arange(nt) / 7.3)[np.newaxis, :]
        return x.astype(dtype)

    # ---------------- kfilt
    shapes = [(384, 500), (96, 301), (40, 64), (12, 33), (7, 50)]
    for ishape, (nx, nt) in enumerate(shapes):
        for dtype in (np.float64, np.float32):
            for ntr_pad in (0, 1, 5, 60, 2.0, 3.7):
                for ntr_tap in (None, 0, 1, 3, 10, 2.5, -1):
                    for lagc in (None, 0, 300, 11):
                        if ishape > 1 and (dtype is np.float32) and lagc == 11:
                            continue
                        x = data(nx, nt, dtype)
                        run(f'kfilt/{nx}x{nt}/{dtype.__name__}/pad{ntr_pad}/tap{ntr_tap}/lagc{lagc}',
                            voltage.kfilt, x, ntr_pad=ntr_pad, ntr_tap=ntr_tap, lagc=lagc)
    # other butterworth settings, as used in destripe
    for bk in ({"N": 3, "Wn": 0.01, "btype": "highpass"}, {"N": 2, "Wn": 0.3, "btype": "lowpass"},
               {"N": 4, "Wn": [0.05, 0.4], "btype": "bandpass"}):
        for ntr_pad, ntr_tap in ((60, 0), (60, None), (10, 30), (0, 20)):
            x = data(384, 400)
            run(f'kfilt/butter{bk}/pad{ntr_pad}/tap{ntr_tap}', voltage.kfilt, x, ntr_pad=ntr_pad, ntr_tap=ntr_tap,
                lagc=300, butter_kwargs=bk)
    # collections (the recursion forces ntr_pad=0, ntr_tap=None)
    for ncoll in (1, 2, 4):
        for ntr_pad, ntr_tap in ((0, None), (20, 5), (60, 0)):
            x = data(384, 300)
            collection = rng.integers(0, ncoll, 384)
            run(f'kfilt/coll{ncoll}/pad{ntr_pad}/tap{ntr_tap}', voltage.kfilt, x, collection=collection,
                ntr_pad=ntr_pad, ntr_tap=ntr_tap, lagc=300)
            run(f'kfilt/coll{ncoll}/pad{ntr_pad}/tap{ntr_tap}/noagc', voltage.kfilt, x, collection=collection,
                ntr_pad=ntr_pad, ntr_tap=ntr_tap, lagc=None)
    # dead channels, constant input, nans
    x = data(64, 200)
    x[5] = 0
    x[63] = 0
    run('kfilt/dead', voltage.kfilt, x, ntr_pad=10, ntr_tap=4)
    run('kfilt/zeros', voltage.kfilt, np.zeros((32, 100)), ntr_pad=10, ntr_tap=4)
    x = data(64, 200)
    x[3, 10] = np.nan
    run('kfilt/nan', voltage.kfilt, x, ntr_pad=10, ntr_tap=4)
    run('kfilt/int', voltage.kfilt, (data(64, 200) * 100).astype(np.int16), ntr_pad=10, ntr_tap=4, lagc=None)
    # padding larger than the array, edge cases and exceptions
    for nx, ntr_pad, ntr_tap in ((8, 20, None), (8, 8, 0), (8, 9, 3), (30, 40, 50), (5, 2, 100), (3, 0, None),
                                 (1, 0, 0), (30, -3, None), (30, -3, 2), (30, 5, 'a'), (30, 'a', 1), (30, None, 1),
                                 (30, 4, np.array([1, 2]))):
        for lagc in (None, 300):
            x = data(nx, 120)
            run(f'kfilt/edge/{nx}/{ntr_pad}/{ntr_tap}/{lagc}', voltage.kfilt, x, ntr_pad=ntr_pad, ntr_tap=ntr_tap,
                lagc=lagc)
    run('kfilt/1d', voltage.kfilt, data(30, 100)[0], ntr_pad=3)
    run('kfilt/3d', voltage.kfilt, data(30, 100)[np.newaxis], ntr_pad=3)
    run('kfilt/list', voltage.kfilt, [[1., 2.], [3., 4.]], ntr_pad=3)
    run('kfilt/gpu', voltage.kfilt, data(30, 100), ntr_pad=3, gpu=True)
    run('kfilt/badbutter', voltage.kfilt, data(30, 100), ntr_pad=3, butter_kwargs={'N': 3})

    # ---------------- fk
    for nx, nt in ((64, 128), (33, 101), (10, 40)):
        for dtype in (np.float64, np.float32):
            for ntr_pad in (0, 1, 10, 4.0, 2.9):
                for ntr_tap in (None, 0, 2, 10, 20, 1.5, -2):
                    for lagc in (0.5, 0, None, 0.05):
                        for btype in ('highpass', 'lp'):
                            x = data(nx, nt, dtype)
                            run(f'fk/{nx}x{nt}/{dtype.__name__}/pad{ntr_pad}/tap{ntr_tap}/lagc{lagc}/{btype}',
                                voltage.fk, x, si=0.002, dx=5, vbounds=[1000, 2000], btype=btype,
                                ntr_pad=ntr_pad, ntr_tap=ntr_tap, lagc=lagc)
    for kf in (None, {'bounds': [0.01, 0.03], 'btype': 'highpass'}, {'bounds': [0.02, 0.05], 'btype': 'lowpass'}):
        for collection in (None, np.arange(60) % 2, np.arange(60) // 20):
            x = data(60, 90)
            run(f'fk/kfilt{kf}/coll{collection is not None}', voltage.fk, x, si=0.001, dx=10, vbounds=[200, 800],
                ntr_pad=8, ntr_tap=4, lagc=0.02, collection=collection, kfilt=kf)
    run('fk/novbounds', voltage.fk, data(20, 50), ntr_pad=3)
    run('fk/badbtype', voltage.fk, data(20, 50), vbounds=[1, 2], btype='foo', ntr_pad=3)
    run('fk/1d', voltage.fk, data(20, 50)[0], vbounds=[1, 2], ntr_pad=3)
    for nx, ntr_pad, ntr_tap in ((8, 20, None), (8, 8, 0), (8, 9, 3), (5, 2, 100), (30, -3, None), (30, -3, 2),
                                 (30, 5, 'a'), (30, 'a', 1), (30, None, 1), (1, 0, None)):
        x = data(nx, 60)
        run(f'fk/edge/{nx}/{ntr_pad}/{ntr_tap}', voltage.fk, x, vbounds=[1000, 2000], dx=5, ntr_pad=ntr_pad,
            ntr_tap=ntr_tap, lagc=0.02)

    # ---------------- destripe, k-filter variant, all probe generations: stripes with ADC skew + local spike
    def stripes(h, nt, amp, fs=30000):
        t = np.arange(nt) / fs
        f0 = 600.
        shift = h['sample_shift'][:, np.newaxis] / fs
        return amp * np.sin(2 * np.pi * f0 * (t[np.newaxis, :] + shift)) * np.hanning(nt)[np.newaxis, :]

    for version, nshank in ((1, 1), (2, 1), (2.4, 4), ('NPultra', 1)):
        h = neuropixel.trace_header(version=version, nshank=nshank)
        nc = h['x'].size
        for labels_kind in ('none', 'false', 'zeros', 'mixed', 'outside'):
            for k_kwargs in (None, {"ntr_pad": 30, "ntr_tap": 10, "lagc": 1000,
                                    "butter_kwargs": {"N": 3, "Wn": 0.02, "btype": "highpass"}},
                             {"ntr_pad": 0, "ntr_tap": None, "lagc": None, "collection": h['shank']}):
                nt = 900
                x = rng.standard_normal((nc, nt)) * 1e-6 + stripes(h, nt, 200e-6)
                x[100:104, 450:456] += 300e-6 * np.array([.3, 1, .6, .2])[:, np.newaxis] * np.hanning(6)
                labels = {'none': None, 'false': False, 'zeros': np.zeros(nc),
                          'mixed': rng.choice([0, 0, 0, 1, 2, 3], nc).astype(float),
                          'outside': np.r_[np.zeros(nc - 50), np.ones(50) * 3]}[labels_kind]
                run(f'destripe/{version}/{labels_kind}/{k_kwargs is None}', voltage.destripe, x, 30000, h=h,
                    neuropixel_version=version if version != 'NPultra' else 1, channel_labels=labels,
                    k_kwargs=k_kwargs, k_filter=True)
    with open(outfile, 'wb') as fid:
        pickle.dump(results, fid)


def main():
    Path('/tmp/wt_C05_tmp').mkdir(exist_ok=True)
    outs = []
    with tempfile.TemporaryDirectory(dir='/tmp/wt_C05_tmp') as td:
        # the refactored worktree is imported first; single threaded numerical libraries for speed
        env = dict(os.environ, OMP_NUM_THREADS='1', OPENBLAS_NUM_THREADS='1', MKL_NUM_THREADS='1',
                   PYTHONWARNINGS='ignore')
        for tag, srcdir in (('new', NEW), ('orig', ORIG)):
            outfile = str(Path(td) / f'{tag}.pkl')
            subprocess.run([sys.executable, __file__, '--worker', srcdir, outfile], check=True, env=env)
            with open(outfile, 'rb') as fid:
                outs.append(pickle.load(fid))
    new, orig = outs
    assert len(orig) == len(new) and len(orig) > 0
    ndiff = 0
    nexc = 0
    for (n0, o0, i0), (n1, o1, i1) in zip(orig, new):
        assert n0 == n1
        nexc += o0[0] == 'EXC'
        if o0 != o1 or i0 != i1:
            ndiff += 1
            print('DIFFERENT', n0, o0[:3] if o0[0] != 'ARR' else o0[:3], o1[:3])
    import collections
    counts = collections.Counter((n.split('/')[0], 'raises' if o[0] == 'EXC' else 'returns') for n, o, _ in orig)
    print(', '.join(f'{k[0]} {k[1]}: {v}' for k, v in sorted(counts.items())))
    print(f'{len(orig)} cases compared, {nexc} of them raise (identically), {ndiff} differences')
    if ndiff:
        print('NOT EQUIVALENT')
        sys.exit(1)
    print('EQUIVALENT')


if __name__ == '__main__':
    if len(sys.argv) > 1 and sys.argv[1] == '--worker':
        worker(sys.argv[2], sys.argv[3])
    else:
        main()
