"""
Differential check for refactor_2 (branch restructuring: early return in voltage.destripe and voltage.car,
conditional expression -> if statement in voltage.destripe_lfp).

The original implementation (pristine copy of HEAD in /tmp/wt_C05_tmp/orig) and the refactored one
(/tmp/wt_C05/src) are each run in their own interpreter on the same deterministic inputs; results
(values bit for bit, dtypes, shapes, in-place side effects on the inputs, exception types and messages)
are compared by the parent.  Prints EQUIVALENT and exits 0 on success.
"""
import hashlib
import os
import pickle
import subprocess
import sys
import tempfile
from pathlib import Path

ORIG = '/tmp/wt_C05_tmp/orig'
NEW = '/tmp/wt_C05/src'


def enc(v):
    import numpy as np
    if isinstance(v, BaseException):
        return ('EXC', type(v).__name__, str(v))
    if isinstance(v, np.ndarray):
        # bit for bit comparison through a digest of the buffer (keeps the result files small)
        return ('ARR', str(v.dtype), v.shape, hashlib.sha256(np.ascontiguousarray(v).tobytes()).hexdigest())
    if isinstance(v, np.generic):
        return ('SCAL', str(v.dtype), v.tobytes())
    if isinstance(v, (tuple, list)):
        return (type(v).__name__, [enc(i) for i in v])
    if isinstance(v, dict):
        return ('dict', [(k, enc(i)) for k, i in v.items()])
    return ('PY', type(v).__name__, repr(v))


def worker(srcdir, outfile):
    sys.path.insert(0, srcdir)
    import numpy as np
    import neuropixel
    import spikeglx
    import ibldsp.voltage as voltage
    import ibldsp.fourier as fourier
    import ibldsp.utils
    for m in (neuropixel, spikeglx, voltage, fourier, ibldsp.utils):
        assert m.__file__.startswith(srcdir + '/'), (m.__file__, srcdir)
    import inspect
    is_new = 'return spatial_fcn(x)' in inspect.getsource(voltage.destripe)
    assert is_new == (srcdir == NEW), 'refactor_2.diff must be applied in the worktree (and only there)'
    assert ('elif operator' in inspect.getsource(voltage.car)) == (srcdir == ORIG)

    results = []

    def run(name, fcn, *args, **kwargs):
        """runs the function, records output and the (possibly mutated in place) array inputs"""
        try:
            out = fcn(*args, **kwargs)
        except Exception as e:  # noqa
            out = e
        arrs = [a for a in args if isinstance(a, np.ndarray)] + [
            a for a in kwargs.values() if isinstance(a, np.ndarray)]
        results.append((name, enc(out), enc(arrs)))

    rng = np.random.default_rng(54321)

    def data(nx, nt, dtype=np.float64, common=True):
        x = rng.standard_normal((nx, nt))
        if common:
            x += 5 * np.sin(np.arange(nt) / 7.3)[np.newaxis, :]
        return x.astype(dtype)

    # ---------------- car
    for nx, nt in ((384, 200), (33, 50), (2, 10), (1, 10), (5, 1)):
        for dtype in (np.float64, np.float32, np.int16, np.int64, np.complex128, bool):
            for operator in ('median', 'average', 'mean', 'Median', None, 0, b'median', np.str_('average')):
                for ncoll in (0, 1, 3):
                    x = (data(nx, nt) * 10).astype(dtype)
                    collection = None if ncoll == 0 else rng.integers(0, ncoll, nx)
                    run(f'car/{nx}x{nt}/{np.dtype(dtype)}/{operator!r}/coll{ncoll}', voltage.car, x,
                        collection=collection, operator=operator)
    x = data(20, 30)
    x[3, 4] = np.nan
    x[5, 6] = np.inf
    for operator in ('median', 'average', 'foo'):
        run(f'car/nan/{operator}', voltage.car, x, operator=operator)
        run(f'car/kwargs/{operator}', voltage.car, data(20, 30), operator=operator, ntr_pad=60, ntr_tap=0, lagc=300,
            butter_kwargs={"N": 3, "Wn": 0.01, "btype": "highpass"})
        run(f'car/kwargs/coll/{operator}', voltage.car, data(20, 30), np.arange(20) % 2, operator, lagc=300)
        run(f'car/1d/{operator}', voltage.car, data(20, 30)[0], operator=operator)
        run(f'car/3d/{operator}', voltage.car, data(20, 30)[np.newaxis], operator=operator)
        run(f'car/list/{operator}', voltage.car, [[1., 2.], [3., 5.]], operator=operator)
        run(f'car/empty/{operator}', voltage.car, np.zeros((0, 5)), operator=operator)
        run(f'car/badcoll/{operator}', voltage.car, data(20, 30), collection=np.arange(19), operator=operator)
        run(f'car/listcoll/{operator}', voltage.car, data(4, 30), collection=[0, 0, 1, 1], operator=operator)
    run('car/arrayop', voltage.car, data(20, 30), operator=np.array(['median', 'average']))
    run('car/arrayop1', voltage.car, data(20, 30), operator=np.array(['median']))
    run('car/arrayop2', voltage.car, data(20, 30), operator=np.array(['average']))
    run('car/arrayop3', voltage.car, data(20, 30), operator=np.array(['xx']))
    # identity of the returned object when no operator matches (returns the input itself)
    x = data(6, 7)
    results.append(('car/identity/foo', enc(voltage.car(x, operator='foo') is x), enc([])))
    results.append(('car/identity/median', enc(voltage.car(x, operator='median') is x), enc([])))
    results.append(('car/identity/average', enc(voltage.car(x, operator='average') is x), enc([])))

    # ---------------- destripe / destripe_lfp: stripes with ADC skew + local spike
    def stripes(h, nt, amp, fs, f0):
        t = np.arange(nt) / fs
        shift = h['sample_shift'][:, np.newaxis] / fs
        return amp * np.sin(2 * np.pi * f0 * (t[np.newaxis, :] + shift)) * np.hanning(nt)[np.newaxis, :]

    for version, nshank in ((1, 1), (2, 1), (2.4, 4), ('NPultra', 1)):
        h = neuropixel.trace_header(version=version, nshank=nshank)
        nc = h['x'].size
        labels_dict = {'none': None, 'false': False, 'zeros': np.zeros(nc), 'zeros_int': np.zeros(nc, dtype=int),
                       'mixed': rng.choice([0, 0, 0, 1, 2, 3], nc).astype(float),
                       'outside': np.r_[np.zeros(nc - 50), np.ones(50) * 3],
                       'alloutside': np.ones(nc) * 3, 'list': [0] * nc, 'zero': 0, 'one': 1, 'npfalse': np.False_,
                       'empty': np.array([]), 'short': np.zeros(nc - 1), '2d': np.zeros((nc, 1)), 'str': 'abc'}
        for labels_kind, labels in labels_dict.items():
            for k_filter in (True, False, None, 0, 1):
                if k_filter not in (True, False) and labels_kind not in ('none', 'mixed'):
                    continue
                for k_kwargs in (None, {"ntr_pad": 30, "ntr_tap": 10, "lagc": 1000,
                                        "butter_kwargs": {"N": 3, "Wn": 0.02, "btype": "highpass"}},
                                 {"collection": h['shank']}, {'operator': 'average'}):
                    if k_kwargs is not None and 'operator' in k_kwargs and k_filter:
                        continue
                    for npv in (version if version != 'NPultra' else 1, None):
                        nt = 700
                        x = rng.standard_normal((nc, nt)) * 1e-6 + stripes(h, nt, 200e-6, 30000, 600.)
                        x[100:104, 350:356] += 300e-6 * np.array([.3, 1, .6, .2])[:, np.newaxis] * np.hanning(6)
                        name = f'destripe/{version}/{labels_kind}/kf{k_filter}/{sorted(k_kwargs) if k_kwargs else None}/{npv}'
                        run(name, voltage.destripe, x, 30000, h=h, neuropixel_version=npv,
                            channel_labels=labels.copy() if isinstance(labels, np.ndarray) else labels,
                            k_kwargs=k_kwargs, k_filter=k_filter)
        # default header path, custom butterworth
        x = rng.standard_normal((nc, 500)) * 1e-6 + stripes(h, 500, 200e-6, 30000, 600.)
        if version != 'NPultra':
            run(f'destripe/{version}/defaulth', voltage.destripe, x, 30000, neuropixel_version=version)
            run(f'destripe/{version}/defaulth/labels', voltage.destripe, x, 30000, neuropixel_version=version,
                channel_labels=labels_dict['mixed'], butter_kwargs={"N": 2, "Wn": 0.1, "btype": "highpass"})
        # float32 input
        run(f'destripe/{version}/f32', voltage.destripe, x.astype(np.float32), 30000, h=h,
            neuropixel_version=1, channel_labels=labels_dict['outside'])
        # LFP
        for labels_kind in ('none', 'false', 'zeros', 'mixed', 'outside', 'list', 'short'):
            for k_filter in (False, True):
                for bk in (None, {"N": 3, "Wn": [2, 200], "btype": "bandpass", "fs": 2500},
                           {"N": 2, "Wn": 0.01, "btype": "highpass"}, {}, False, 0):
                    nt = 1500
                    x = rng.standard_normal((nc, nt)) * 1e-6 + stripes(h, nt, 200e-6, 2500, 20.)
                    labels = labels_dict[labels_kind]
                    run(f'destripe_lfp/{version}/{labels_kind}/kf{k_filter}/{bk}', voltage.destripe_lfp, x, 2500, h=h,
                        channel_labels=labels.copy() if isinstance(labels, np.ndarray) else labels,
                        butter_kwargs=bk, k_filter=k_filter)
        run(f'destripe_lfp/{version}/defaults', voltage.destripe_lfp, x, 2500)
        run(f'destripe_lfp/{version}/positional', voltage.destripe_lfp, x, 2500, h, None, None, True)
    # channel_labels=True : bad channel detection on the data itself (NP1 header by default)
    h = neuropixel.trace_header(version=1)
    x = rng.standard_normal((384, 3000)) * 1e-6 + stripes(h, 3000, 20e-6, 30000, 600.)
    x[30] = 0
    x[200] *= 50
    run('destripe/labelsTrue', voltage.destripe, x, 30000, h=h, channel_labels=True)
    run('destripe/labelsTrue/car', voltage.destripe, x, 30000, h=h, channel_labels=True, k_filter=False)
    x = rng.standard_normal((384, 3000)) * 1e-6 + stripes(h, 3000, 20e-6, 2500, 20.)
    x[30] = 0
    run('destripe_lfp/labelsTrue', voltage.destripe_lfp, x, 2500, h=h, channel_labels=True)
    run('destripe/badshape', voltage.destripe, data(10, 100), 30000, h=h)
    run('destripe/1d', voltage.destripe, data(384, 100)[0], 30000, h=h)
    with open(outfile, 'wb') as fid:
        pickle.dump(results, fid)


def main():
    Path('/tmp/wt_C05_tmp').mkdir(exist_ok=True)
    outs = []
    with tempfile.TemporaryDirectory(dir='/tmp/wt_C05_tmp') as td:
        # the refactored worktree is imported first; single threaded numerical libraries for speed
        env = dict(os.environ, OMP_NUM_THREADS='1', OPENBLAS_NUM_THREADS='1', MKL_NUM_THREADS='1',
                   PYTHONWARNINGS='ignore')
        for tag, srcdir in (('new', NEW), ('orig', ORIG)):
            outfile = str(Path(td) / f'{tag}.pkl')
            subprocess.run([sys.executable, __file__, '--worker', srcdir, outfile], check=True, env=env)
            with open(outfile, 'rb') as fid:
                outs.append(pickle.load(fid))
    new, orig = outs
    assert len(orig) == len(new) and len(orig) > 0
    ndiff = 0
    nexc = 0
    for (n0, o0, i0), (n1, o1, i1) in zip(orig, new):
        assert n0 == n1
        nexc += o0[0] == 'EXC'
        if o0 != o1 or i0 != i1:
            ndiff += 1
            print('DIFFERENT', n0, o0[:3] if o0[0] != 'ARR' else o0[:3], o1[:3])
    import collections
    counts = collections.Counter((n.split('/')[0], 'raises' if o[0] == 'EXC' else 'returns') for n, o, _ in orig)
    print(', '.join(f'{k[0]} {k[1]}: {v}' for k, v in sorted(counts.items())))
    print(f'{len(orig)} cases compared, {nexc} of them raise (identically), {ndiff} differences')
    if ndiff:
        print('NOT EQUIVALENT')
        sys.exit(1)
    print('EQUIVALENT')


if __name__ == '__main__':
    if len(sys.argv) > 1 and sys.argv[1] == '--worker':
        worker(sys.argv[2], sys.argv[3])
    else:
        main()
