"""
Differential check for refactor_3 (hoisting of repeated sub-expressions into locals / splitting expressions:
voltage.agc (~dead_channels), fourier.fshift (np.angle(dephas)), neuropixel.adc_shifts (np.arange(NC))).

The original implementation (pristine copy of HEAD in /tmp/wt_C05_tmp/orig) and the refactored one
(/tmp/wt_C05/src) are each run in their own interpreter on the same deterministic inputs; results
(values bit for bit, dtypes, shapes, in-place side effects on the inputs, exception types and messages)
are compared by the parent.  Prints EQUIVALENT and exits 0 on success.
"""
import hashlib
import os
import pickle
import subprocess
import sys
import tempfile
from pathlib import Path

ORIG = '/tmp/wt_C05_tmp/orig'
NEW = '/tmp/wt_C05/src'


def enc(v):
    import numpy as np
    if isinstance(v, BaseException):
        return ('EXC', type(v).__name__, str(v))
    if isinstance(v, np.ndarray):
        # bit for bit comparison through a digest of the buffer (keeps the result files small)
        return ('ARR', str(v.dtype), v.shape, hashlib.sha256(np.ascontiguousarray(v).tobytes()).hexdigest())
    if isinstance(v, np.generic):
        return ('SCAL', str(v.dtype), v.tobytes())
    if isinstance(v, (tuple, list)):
        return (type(v).__name__, [enc(i) for i in v])
    if isinstance(v, dict):
        return ('dict', [(k, enc(i)) for k, i in v.items()])
    return ('PY', type(v).__name__, repr(v))


def worker(srcdir, outfile):
    sys.path.insert(0, srcdir)
    import numpy as np
    import neuropixel
    import spikeglx
    import ibldsp.voltage as voltage
    import ibldsp.fourier as fourier
    import ibldsp.utils
    for m in (neuropixel, spikeglx, voltage, fourier, ibldsp.utils):
        assert m.__file__.startswith(srcdir + '/'), (m.__file__, srcdir)
    import inspect
    for fcn, marker in ((voltage.agc, 'live_channels'), (fourier.fshift, 'phase_one_sample'),
                        (neuropixel.adc_shifts, 'channels = np.arange(NC)')):
        assert (marker in inspect.getsource(fcn)) == (srcdir == NEW), \
            'refactor_3.diff must be applied in the worktree (and only there)'

    results = []

    def run(name, fcn, *args, **kwargs):
        """runs the function, records output and the (possibly mutated in place) array inputs"""
        try:
            out = fcn(*args, **kwargs)
        except Exception as e:  # noqa
            out = e
        arrs = [a for a in args if isinstance(a, np.ndarray)] + [
            a for a in kwargs.values() if isinstance(a, np.ndarray)]
        results.append((name, enc(out), enc(arrs)))

    rng = np.random.default_rng(98765)

    def data(nx, nt, dtype=np.float64, common=True):
        x = rng.standard_normal((nx, nt))
        if common:
            x += 5 * np.sin(np.arange(nt) / 7.3)[np.newaxis, :]
        return x.astype(dtype)

    # ---------------- ADC delay tables
    for version in (1, 2, 2.0, 2.4, 2.9, 'NPultra', 1.0, True, 3, 0, -1, 1.5, '1', 'np2', None, np.int64(2), np.array(1),
                    np.array([1, 2]), [1], np.nan):
        for nc in (384, 385, 1000, 96, 1, 0, -5, 12.0, None):
            run(f'adc_shifts/{version!r}/{nc}', neuropixel.adc_shifts, version=version, nc=nc)
        run(f'adc_shifts/{version!r}/default', neuropixel.adc_shifts, version)
        for nshank in (1, 4):
            run(f'trace_header/{version!r}/{nshank}', neuropixel.trace_header, version=version, nshank=nshank)
    run('adc_shifts/defaults', neuropixel.adc_shifts)

    # ---------------- fshift
    for shape in ((100,), (101,), (1,), (2,), (8, 100), (8, 101), (100, 8), (384, 300), (3, 4, 50), (0, 10), (5, 0)):
        for dtype in (np.float64, np.float32, np.int16, np.int64, np.complex128, np.complex64, bool):
            for axis in (-1, 0, 1, 2):
                if axis >= len(shape) and axis != 2:
                    continue
                w = (rng.standard_normal(shape) * 20).astype(dtype)
                if np.issubdtype(dtype, np.complexfloating):
                    w = w + (1j * rng.standard_normal(shape)).astype(dtype)
                svals = [0, 1, -1, 0.5, 2.25, -13.7, 1e6, np.float32(0.3), np.nan, np.array(0.4), 'a', None, [1, 2]]
                if len(shape) >= 1 and axis < len(shape):
                    n_other = [n for i, n in enumerate(shape) if i != (axis % len(shape))]
                    if len(n_other) == 1:
                        svals.append(rng.uniform(-1, 1, n_other[0]))
                        svals.append(np.arange(n_other[0]))
                        svals.append(rng.uniform(-1, 1, n_other[0] + 1))
                        svals.append(list(rng.uniform(-1, 1, n_other[0])))
                    svals.append(rng.uniform(-1, 1, shape))
                for i, sh in enumerate(svals):
                    for ns in (None, 0, shape[axis] if axis < len(shape) else 7, 11):
                        run(f'fshift/{shape}/{np.dtype(dtype)}/ax{axis}/s{i}/ns{ns}', fourier.fshift, w.copy(),
                            sh.copy() if isinstance(sh, np.ndarray) else sh, axis=axis, ns=ns)
    # frequency domain input with the right ns
    for nt in (100, 101):
        w = data(8, nt)
        W = np.fft.rfft(w, axis=-1)
        for sh in (0.5, rng.uniform(0, 1, 8)):
            run(f'fshift/freqdomain/{nt}', fourier.fshift, W.copy(), sh, axis=-1, ns=nt)
            run(f'fshift/freqdomain/{nt}/nons', fourier.fshift, W.copy(), sh, axis=-1)
    # with the true delay tables, along axis 1 as in destripe
    for version in (1, 2, 'NPultra'):
        ss = neuropixel.adc_shifts(version)[0]
        for dtype in (np.float64, np.float32):
            for nt in (500, 501):
                run(f'fshift/adc/{version}/{np.dtype(dtype)}/{nt}', fourier.fshift, data(384, nt, dtype), ss, axis=1)
                run(f'fshift/adc/{version}/{np.dtype(dtype)}/{nt}/neg', fourier.fshift, data(384, nt, dtype), -ss, axis=1)

    # ---------------- agc
    for nx, nt in ((384, 300), (20, 1000), (5, 50), (1, 30), (3, 1), (3, 2), (0, 10), (4, 0)):
        for dtype in (np.float64, np.float32, np.int16, np.int64, np.complex128, bool):
            for wl, si in ((0.5, 0.002), (300, 1.0), (3, 1.0), (1, 1.0), (0, 1.0), (0.001, 0.002), (1e4, 1.0), (-4, 1.0),
                           (5, 0), (None, 1), ('a', 1)):
                for epsilon in (1e-8, 0, 1.0, -1e-8):
                    if epsilon not in (1e-8, 0) and (wl, si) not in ((0.5, 0.002), (300, 1.0)):
                        continue
                    x = (data(nx, nt) * 30).astype(dtype)
                    if nx > 3:
                        x[1] = 0
                        x[-1] = 0
                    run(f'agc/{nx}x{nt}/{np.dtype(dtype)}/wl{wl}/si{si}/eps{epsilon}', voltage.agc, x, wl=wl, si=si,
                        epsilon=epsilon)
    for kind in ('zeros', 'nan', 'inf', 'nanrow', 'onesample', 'alldeadbutone', 'neg'):
        for epsilon in (1e-8, 0):
            x = data(16, 200)
            if kind == 'zeros':
                x[:] = 0
            elif kind == 'nan':
                x[3, 20] = np.nan
            elif kind == 'inf':
                x[3, 20] = np.inf
            elif kind == 'nanrow':
                x[4] = np.nan
            elif kind == 'onesample':
                x[:] = 0
                x[5, 100] = 1
            elif kind == 'alldeadbutone':
                x[1:] = 0
            elif kind == 'neg':
                x = -np.abs(x)
            run(f'agc/{kind}/{epsilon}', voltage.agc, x, wl=31, si=1.0, epsilon=epsilon)
    run('agc/1d', voltage.agc, data(5, 100)[0])
    run('agc/3d', voltage.agc, data(5, 100)[np.newaxis])
    run('agc/list', voltage.agc, [[1., 2., 3.], [3., 4., 5.]])
    run('agc/gpu', voltage.agc, data(5, 100), gpu=True)
    run('agc/positional', voltage.agc, data(5, 100), 0.1, 0.01, 1e-3, False)
    run('agc/readonly', voltage.agc, np.broadcast_to(np.arange(50.), (4, 50)))
    xf = np.asfortranarray(data(12, 100))
    run('agc/fortran', voltage.agc, xf, wl=11, si=1.0)
    xv = data(24, 100)
    run('agc/view', voltage.agc, xv[::2], wl=11, si=1.0)
    results.append(('agc/view/base', enc(xv), enc([])))
    # product of the outputs, and identity of the first output with the input
    x = data(10, 200)
    x0 = x.copy()
    xa, gain = voltage.agc(x, wl=21, si=1.0)
    results.append(('agc/identity', enc(xa is x), enc(xa * gain - x0)))

    # ---------------- functions that use agc / fshift / the delay tables
    for lagc in (300, 30, None):
        for collection in (None, np.arange(96) % 3):
            run(f'kfilt/{lagc}/{collection is None}', voltage.kfilt, data(96, 400), collection=collection, ntr_pad=20,
                ntr_tap=5, lagc=lagc)
    for lagc in (0.5, 0.02, 0):
        for collection in (None, np.arange(60) % 2):
            run(f'fk/{lagc}/{collection is None}', voltage.fk, data(60, 128), si=0.002, dx=5, vbounds=[1000, 2000],
                ntr_pad=10, ntr_tap=5, lagc=lagc, collection=collection)

    def stripes(h, nt, amp, fs, f0):
        t = np.arange(nt) / fs
        shift = h['sample_shift'][:, np.newaxis] / fs
        return amp * np.sin(2 * np.pi * f0 * (t[np.newaxis, :] + shift)) * np.hanning(nt)[np.newaxis, :]

    for version, nshank in ((1, 1), (2, 1), (2.4, 4), ('NPultra', 1)):
        h = neuropixel.trace_header(version=version, nshank=nshank)
        nc = h['x'].size
        labels_dict = {'none': None, 'zeros': np.zeros(nc), 'mixed': rng.choice([0, 0, 0, 1, 2, 3], nc).astype(float),
                       'outside': np.r_[np.zeros(nc - 50), np.ones(50) * 3]}
        for labels_kind, labels in labels_dict.items():
            for k_filter in (True, False):
                for k_kwargs in (None, {"ntr_pad": 30, "ntr_tap": 10, "lagc": 1000,
                                        "butter_kwargs": {"N": 3, "Wn": 0.02, "btype": "highpass"}}):
                    for npv in (version if version != 'NPultra' else 1, None):
                        for dtype in (np.float64, np.float32):
                            nt = 700
                            x = rng.standard_normal((nc, nt)) * 1e-6 + stripes(h, nt, 200e-6, 30000, 600.)
                            x[100:104, 350:356] += 300e-6 * np.array([.3, 1, .6, .2])[:, np.newaxis] * np.hanning(6)
                            name = f'destripe/{version}/{labels_kind}/kf{k_filter}/{k_kwargs is None}/{npv}/{np.dtype(dtype)}'
                            run(name, voltage.destripe, x.astype(dtype), 30000, h=h, neuropixel_version=npv,
                                channel_labels=labels.copy() if isinstance(labels, np.ndarray) else labels,
                                k_kwargs=k_kwargs, k_filter=k_filter)
        if version != 'NPultra':
            x = rng.standard_normal((nc, 500)) * 1e-6 + stripes(h, 500, 200e-6, 30000, 600.)
            run(f'destripe/{version}/defaulth', voltage.destripe, x, 30000, neuropixel_version=version)
        for k_filter in (False, True):
            x = rng.standard_normal((nc, 1500)) * 1e-6 + stripes(h, 1500, 200e-6, 2500, 20.)
            run(f'destripe_lfp/{version}/kf{k_filter}', voltage.destripe_lfp, x, 2500, h=h, k_filter=k_filter,
                channel_labels=labels_dict['outside'].copy())
    with open(outfile, 'wb') as fid:
        pickle.dump(results, fid)


def main():
    Path('/tmp/wt_C05_tmp').mkdir(exist_ok=True)
    outs = []
    with tempfile.TemporaryDirectory(dir='/tmp/wt_C05_tmp') as td:
        # the refactored worktree is imported first; single threaded numerical libraries for speed
        env = dict(os.environ, OMP_NUM_THREADS='1', OPENBLAS_NUM_THREADS='1', MKL_NUM_THREADS='1',
                   PYTHONWARNINGS='ignore')
        for tag, srcdir in (('new', NEW), ('orig', ORIG)):
            outfile = str(Path(td) / f'{tag}.pkl')
            subprocess.run([sys.executable, __file__, '--worker', srcdir, outfile], check=True, env=env)
            with open(outfile, 'rb') as fid:
                outs.append(pickle.load(fid))
    new, orig = outs
    assert len(orig) == len(new) and len(orig) > 0
    ndiff = 0
    nexc = 0
    for (n0, o0, i0), (n1, o1, i1) in zip(orig, new):
        assert n0 == n1
        nexc += o0[0] == 'EXC'
        if o0 != o1 or i0 != i1:
            ndiff += 1
            print('DIFFERENT', n0, o0[:3] if o0[0] != 'ARR' else o0[:3], o1[:3])
    import collections
    counts = collections.Counter((n.split('/')[0], 'raises' if o[0] == 'EXC' else 'returns') for n, o, _ in orig)
    print(', '.join(f'{k[0]} {k[1]}: {v}' for k, v in sorted(counts.items())))
    print(f'{len(orig)} cases compared, {nexc} of them raise (identically), {ndiff} differences')
    if ndiff:
        print('NOT EQUIVALENT')
        sys.exit(1)
    print('EQUIVALENT')


if __name__ == '__main__':
    if len(sys.argv) > 1 and sys.argv[1] == '--worker':
        worker(sys.argv[2], sys.argv[3])
    else:
        main()
