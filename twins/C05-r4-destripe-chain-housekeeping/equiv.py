import sys, os; sys.path.insert(0, os.path.join(os.path.dirname(os.path.abspath(__file__)), "src"))
"""
Differential equivalence check for the C05 housekeeping change (r4-destripe-chain-housekeeping).

The functions of the worktree sources (ibldsp.voltage: agc, fk, car, kfilt, _get_destripe_parameters, destripe;
ibldsp.fourier: fshift; neuropixel: adc_shifts) are compared bit for bit against verbatim copies of their ORIGINAL
implementations, which are carried below as reference functions. The reference functions only call each other (the
names `fourier` and `neuropixel` they use are bound to reference namespaces) and functions the change did not touch.
Exits 0 if all results are identical, 1 with a message otherwise.
"""
import types
import warnings

import numpy as np
import scipy.fft
import scipy.signal

import ibldsp.fourier as new_fourier
import ibldsp.voltage as new_voltage
import neuropixel as new_neuropixel
# functions the change does not touch, used as is by the reference implementations
from ibldsp.voltage import detect_bad_channels, interpolate_bad_channels  # noqa
from neuropixel import NC, dense_layout  # noqa

assert os.path.dirname(os.path.abspath(new_voltage.__file__)).startswith(
    os.path.join(os.path.dirname(os.path.abspath(__file__)), "src")), new_voltage.__file__

# ---------------------------------------------------------------------------------------------------------------
# REFERENCE: verbatim copies of the original implementations (git HEAD) of every function the change touches
# (plus neuropixel.trace_header, unchanged, so that the reference destripe uses the reference adc_shifts)
# ---------------------------------------------------------------------------------------------------------------


def fshift(w, s, axis=-1, ns=None):
    """
    Shifts a 1D or 2D signal in frequency domain, to allow for accurate non-integer shifts
    :param w: input signal (if complex, need to provide ns too)
    :param s: shift in samples, positive shifts forward
    :param axis: axis along which to shift (last axis by default)
    :param axis: axis along which to shift (last axis by default)
    :param ns: if a rfft frequency domain array is provided, give a number of samples as there
     is an ambiguity
    :return: w
    """
    # create a vector that contains a 1 sample shift on the axis
    ns = ns or w.shape[axis]
    shape = np.array(w.shape) * 0 + 1
    shape[axis] = ns
    dephas = np.zeros(shape)
    np.put(dephas, 1, 1)
    dephas = scipy.fft.rfft(dephas, axis=axis)
    # fft the data along the axis and the dephas
    do_fft = np.invert(np.iscomplexobj(w))
    if do_fft:
        W = scipy.fft.rfft(w, axis=axis)
    else:
        W = w
    # if multiple shifts, broadcast along the other dimensions, otherwise keep a single vector
    if not np.isscalar(s):
        s_shape = np.array(w.shape)
        s_shape[axis] = 1
        s = s.reshape(s_shape)
    # apply the shift (s) to the fft angle to get the phase shift and broadcast
    W *= np.exp(1j * np.angle(dephas) * s)
    if do_fft:
        W = np.real(scipy.fft.irfft(W, ns, axis=axis))
        W = W.astype(w.dtype)
    return W


def adc_shifts(version=1, nc=NC):
    """
    Neuropixel NP1
    The sampling is serial within the same ADC, but it happens at the same time in all ADCs.
    The ADC to channel mapping is done per odd and even channels:
    ADC1: ch1, ch3, ch5, ch7...
    ADC2: ch2, ch4, ch6....
    ADC3: ch33, ch35, ch37...
    ADC4: ch34, ch36, ch38...
    Therefore, channels 1, 2, 33, 34 get sample at the same time. I hope this is more or
    less clear. In 1.0, it is similar, but there we have 32 ADC that sample each 12 channels."
    - Nick on Slack after talking to Carolina - ;-)

    There are 384 channels (each with AP and LFP) divided into 32 groups (each group containing 1 ADC)
    The ADC cycle is at 30kHz * 13 = 360 kHz (hence the 13 cycles per AP sample).
    The ADC (from what I understand) goes like this : AP1-AP2-AP3-...-AP11-AP12-LF1-AP1-AP2-...-AP12-LF2-AP1-...
    A. Wyngaard

    For NP2 there are 16 cycles

    The probe always records from all 384 channels; you can disable sites, but they actually still get read back.
    The sample time shifts are always the same for a given channel -- each channel is hardwired to a specific
     ADC and has a specific order in the sampling lineup. So you should always calculate
      the sample shift based on the original channel number. In the SpikeGLX metadata,
      these are listed in the snsSaveChannelSubset field.

    :param version: neuropixel major version 1 or 2
    :param nc: number of channels
    """
    if version == 1 or version == "NPultra":
        adc_channels = 12
        n_cycles = 13
        # version 1 uses 32 ADC that sample 12 channels each
    elif np.floor(version) == 2:
        # version 2 uses 24 ADC that sample 16 channels each
        adc_channels = n_cycles = 16
    adc = np.floor(np.arange(NC) / (adc_channels * 2)) * 2 + np.mod(np.arange(NC), 2)
    sample_shift = np.zeros_like(adc)
    for a in adc:
        sample_shift[adc == a] = np.arange(adc_channels) / n_cycles
    return sample_shift[:nc], adc[:nc]


def trace_header(version=1, nshank=1):
    """
    Returns the channel map for the dense layouts used at IBL. The following pairs are commonly used:
    version=1: NP1: returns single shank dense layout with 4 columns in checkerboard pattern
    version=2, nshank=1: NP2: returns single shank dense layout with 2 columns in-line
    version=2, nshank=4: NP2: returns 4 shanks dense layout with columns in-line
    Whenever possible, it is recommended to read the geometry using `spikeglx.Reader.geometry()` method to
     ensure the channel maps corresponds the actually read data.`
    :param version: major version number: 1 or 2
    :param nshank: (defaults 1) number of shanks for NP2
    :return: , returns a dictionary with keys
    x, y, row, col, ind, adc and sampleshift vectors corresponding to each site
    """
    h = dense_layout(version=version, nshank=nshank)
    h["sample_shift"], h["adc"] = adc_shifts(version=version)
    return h


def agc(x, wl=0.5, si=0.002, epsilon=1e-8, gpu=False):
    """
    Automatic gain control
    w_agc, gain = agc(w, wl=.5, si=.002, epsilon=1e-8)
    such as w_agc * gain = w
    :param x: seismic array (nc, ns)
    :param wl: window length (secs)
    :param si: sampling interval (secs)
    :param epsilon: whitening (useful mainly for synthetic data)
    :param gpu: bool
    :return: AGC data array, gain applied to data
    """
    if gpu:
        import cupy as gp
    else:
        gp = np
    ns_win = int(gp.round(wl / si / 2) * 2 + 1)
    w = gp.hanning(ns_win)
    w /= gp.sum(w)
    gain = fourier.convolve(gp.abs(x), w, mode="same", gpu=gpu)
    gain += (gp.sum(gain, axis=1) * epsilon / x.shape[-1])[:, gp.newaxis]
    dead_channels = np.sum(gain, axis=1) == 0
    x[~dead_channels, :] = x[~dead_channels, :] / gain[~dead_channels, :]
    if gpu:
        return (x * gain).astype("float32"), gain.astype("float32")

    return x, gain


def fk(
    x,
    si=0.002,
    dx=1,
    vbounds=None,
    btype="highpass",
    ntr_pad=0,
    ntr_tap=None,
    lagc=0.5,
    collection=None,
    kfilt=None,
):
    """Frequency-wavenumber filter: filters apparent plane-waves velocity
    :param x: the input array to be filtered. dimension, the filtering is considering
    axis=0: spatial dimension, axis=1 temporal dimension. (ntraces, ns)
    :param si: sampling interval (secs)
    :param dx: spatial interval (usually meters)
    :param vbounds: velocity high pass [v1, v2], cosine taper from 0 to 1 between v1 and v2
    :param btype: {‘lowpass’, ‘highpass’}, velocity filter : defaults to highpass
    :param ntr_pad: padding will add ntr_padd mirrored traces to each side
    :param ntr_tap: taper (if None, set to ntr_pad)
    :param lagc: length of agc in seconds. If set to None or 0, no agc
    :param kfilt: optional (None) if kfilter is applied, parameters as dict (bounds are in m-1
    according to the dx parameter) kfilt = {'bounds': [0.05, 0.1], 'btype', 'highpass'}
    :param collection: vector length ntraces. Each unique value set of traces is a collection
    on which the FK filter will run separately (shot gaters, receiver gathers)
    :return:
    """
    if collection is not None:
        xout = np.zeros_like(x)
        for c in np.unique(collection):
            sel = collection == c
            xout[sel, :] = fk(
                x[sel, :],
                si=si,
                dx=dx,
                vbounds=vbounds,
                ntr_pad=ntr_pad,
                btype=btype,
                ntr_tap=ntr_tap,
                lagc=lagc,
                collection=None,
                kfilt=kfilt,
            )
        return xout

    assert vbounds
    nx, nt = x.shape

    # lateral padding left and right
    ntr_pad = int(ntr_pad)
    ntr_tap = ntr_pad if ntr_tap is None else ntr_tap
    nxp = nx + ntr_pad * 2

    # compute frequency wavenumber scales and deduce the velocity filter
    fscale = fourier.fscale(nt, si)
    kscale = fourier.fscale(nxp, dx)
    kscale[0] = 1e-6
    v = fscale[np.newaxis, :] / kscale[:, np.newaxis]
    if btype.lower() in ["highpass", "hp"]:
        fk_att = fourier.fcn_cosine(vbounds)(np.abs(v))
    elif btype.lower() in ["lowpass", "lp"]:
        fk_att = 1 - fourier.fcn_cosine(vbounds)(np.abs(v))

    # if a k-filter is also provided, apply it
    if kfilt is not None:
        katt = fourier._freq_vector(np.abs(kscale), kfilt["bounds"], typ=kfilt["btype"])
        fk_att *= katt[:, np.newaxis]

    # import matplotlib.pyplot as plt
    # plt.imshow(np.fft.fftshift(np.abs(v), axes=0).T, aspect='auto', vmin=0, vmax=1e5,
    #            extent=[np.min(kscale), np.max(kscale), 0, np.max(fscale) * 2])
    # plt.imshow(np.fft.fftshift(np.abs(fk_att), axes=0).T, aspect='auto', vmin=0, vmax=1,
    #            extent=[np.min(kscale), np.max(kscale), 0, np.max(fscale) * 2])

    # apply the attenuation in fk-domain
    if not lagc:
        xf = np.copy(x)
        gain = 1
    else:
        xf, gain = agc(x, wl=lagc, si=si)
    if ntr_pad > 0:
        # pad the array with a mirrored version of itself and apply a cosine taper
        xf = np.r_[np.flipud(xf[:ntr_pad]), xf, np.flipud(xf[-ntr_pad:])]
    if ntr_tap > 0:
        taper = fourier.fcn_cosine([0, ntr_tap])(np.arange(nxp))  # taper up
        taper *= 1 - fourier.fcn_cosine([nxp - ntr_tap, nxp])(
            np.arange(nxp)
        )  # taper down
        xf = xf * taper[:, np.newaxis]
    xf = np.real(np.fft.ifft2(fk_att * np.fft.fft2(xf)))

    if ntr_pad > 0:
        xf = xf[ntr_pad:-ntr_pad, :]
    return xf * gain


def car(x, collection=None, operator='median', **kwargs):
    """
    Applies common average referencing with optional automatic gain control
    :param x: np.array(nc, ns) the input array to be de-referenced. dimension, the filtering is considering
    axis=0: spatial dimension, axis=1 temporal dimension. (ntraces, ns)
    :param collection: vector length ntraces. Each unique value set of traces is a collection and will be handled
    separately. Useful for shanks.
    :param operator: 'median' or 'average'
    :return:
    """
    if collection is not None:
        xout = np.zeros_like(x)
        for c in np.unique(collection):
            sel = collection == c
            xout[sel, :] = car(x=x[sel, :], collection=None, operator=operator, **kwargs)
        return xout

    if operator == 'median':
        x = x - np.median(x, axis=0)
    elif operator == 'average':
        x = x - np.mean(x, axis=0)
    return x


def kfilt(
    x, collection=None, ntr_pad=0, ntr_tap=None, lagc=300, butter_kwargs=None, gpu=False
):
    """
    Applies a butterworth filter on the 0-axis with tapering / padding
    :param x: the input array to be filtered. dimension, the filtering is considering
    axis=0: spatial dimension, axis=1 temporal dimension. (ntraces, ns)
    :param collection:
    :param ntr_pad: traces added to each side (mirrored)
    :param ntr_tap: n traces for apodizatin on each side
    :param lagc: window size for time domain automatic gain control (no agc otherwise)
    :param butter_kwargs: filtering parameters: defaults: {'N': 3, 'Wn': 0.1, 'btype': 'highpass'}
    :param gpu: bool
    :return:
    """
    if gpu:
        import cupy as gp
    else:
        gp = np

    if butter_kwargs is None:
        butter_kwargs = {"N": 3, "Wn": 0.1, "btype": "highpass"}
    if collection is not None:
        xout = gp.zeros_like(x)
        for c in gp.unique(collection):
            sel = collection == c
            xout[sel, :] = kfilt(
                x=x[sel, :],
                ntr_pad=0,
                ntr_tap=None,
                collection=None,
                lagc=lagc,
                butter_kwargs=butter_kwargs,
                gpu=gpu,
            )
        return xout
    nx, nt = x.shape

    # lateral padding left and right
    ntr_pad = int(ntr_pad)
    ntr_tap = ntr_pad if ntr_tap is None else ntr_tap
    nxp = nx + ntr_pad * 2

    # apply agc and keep the gain in handy
    if not lagc:
        xf = gp.copy(x)
        gain = 1
    else:
        xf, gain = agc(x, wl=lagc, si=1.0, gpu=gpu)
    if ntr_pad > 0:
        # pad the array with a mirrored version of itself and apply a cosine taper
        xf = gp.r_[gp.flipud(xf[:ntr_pad]), xf, gp.flipud(xf[-ntr_pad:])]
    if ntr_tap > 0:
        taper = fourier.fcn_cosine([0, ntr_tap], gpu=gpu)(gp.arange(nxp))  # taper up
        taper *= 1 - fourier.fcn_cosine([nxp - ntr_tap, nxp], gpu=gpu)(
            gp.arange(nxp)
        )  # taper down
        xf = xf * taper[:, gp.newaxis]
    sos = scipy.signal.butter(**butter_kwargs, output="sos")
    if gpu:
        from .filter_gpu import sosfiltfilt_gpu

        xf = sosfiltfilt_gpu(sos, xf, axis=0)
    else:
        xf = scipy.signal.sosfiltfilt(sos, xf, axis=0)

    if ntr_pad > 0:
        xf = xf[ntr_pad:-ntr_pad, :]
    return xf * gain


def _get_destripe_parameters(fs, butter_kwargs, k_kwargs, k_filter):
    """gets the default params for destripe. This is used for both the destripe fcn on a
    numpy array and the function that actuates on a cbin file"""
    if butter_kwargs is None:
        butter_kwargs = {"N": 3, "Wn": 300 / fs * 2, "btype": "highpass"}
    if k_kwargs is None:
        lagc = None if fs < 3000 else int(fs / 10)
        k_kwargs = {
            "ntr_pad": 60,
            "ntr_tap": 0,
            "lagc": lagc,
            "butter_kwargs": {"N": 3, "Wn": 0.01, "btype": "highpass"},
        }
    if k_filter:
        spatial_fcn = lambda dat: kfilt(dat, **k_kwargs)  # noqa
    else:
        spatial_fcn = lambda dat: car(dat, **k_kwargs)  # noqa
    return butter_kwargs, k_kwargs, spatial_fcn


def destripe(
    x,
    fs,
    h=None,
    neuropixel_version=1,
    butter_kwargs=None,
    k_kwargs=None,
    channel_labels=None,
    k_filter=True,
):
    """Super Car (super slow also...) - far from being set in stone but a good workflow example
    :param x: demultiplexed array (nc, ns)
    :param fs: sampling frequency
    :param neuropixel_version (optional): 1 or 2. Useful for the ADC shift correction. If None,
     no correction is applied
    :param channel_labels:
      None: (default) keep all channels
     OR (recommended to pre-compute)
        index array for the first axis of x indicating the selected traces.
     On a full workflow, one should scan sparingly the full file to get a robust estimate of the
     selection. If None, and estimation is done using only the current batch is provided for
     convenience but should be avoided in production.
      OR (only for quick display or as an example)
       True: deduces the bad channels from the data provided
    :param butter_kwargs: (optional, None) butterworth params, see the code for the defaults dict
    :param k_kwargs: (optional, None) K-filter params, see the code for the defaults dict
        can also be set to 'car', in which case the median accross channels will be subtracted
    :param k_filter (True): applies k-filter by default, otherwise, apply CAR.
    :return: x, filtered array
    """
    butter_kwargs, k_kwargs, spatial_fcn = _get_destripe_parameters(
        fs, butter_kwargs, k_kwargs, k_filter
    )
    if h is None:
        h = neuropixel.trace_header(version=neuropixel_version)
    if channel_labels is True:
        channel_labels, _ = detect_bad_channels(x, fs)
    # butterworth
    sos = scipy.signal.butter(**butter_kwargs, output="sos")
    x = scipy.signal.sosfiltfilt(sos, x)
    # channel interpolation
    # apply ADC shift
    if neuropixel_version is not None:
        x = fourier.fshift(x, h["sample_shift"], axis=1)
    # apply spatial filter only on channels that are inside of the brain
    if (channel_labels is not None) and (channel_labels is not False):
        x = interpolate_bad_channels(x, channel_labels, h["x"], h["y"])
        inside_brain = np.where(channel_labels != 3)[0]
        x[inside_brain, :] = spatial_fcn(x[inside_brain, :])  # apply the k-filter
    else:
        x = spatial_fcn(x)
    return x


# ---------------------------------------------------------------------------------------------------------------
# namespaces used by the reference functions: everything untouched comes from the library, the rest from above
# ---------------------------------------------------------------------------------------------------------------
fourier = types.SimpleNamespace(**{k: getattr(new_fourier, k) for k in dir(new_fourier) if not k.startswith("__")})
fourier.fshift = fshift
neuropixel = types.SimpleNamespace(trace_header=trace_header, adc_shifts=adc_shifts, dense_layout=dense_layout, NC=NC)


# ---------------------------------------------------------------------------------------------------------------
# comparison machinery
# ---------------------------------------------------------------------------------------------------------------
N_CASES = 0
N_RAISED = 0
FAILURES = []


def _same(a, b, path="result"):
    """Returns None if a and b are identical (types, dtypes, shapes, bits), a message otherwise"""
    if type(a) is not type(b):
        return f"{path}: type {type(a)} != {type(b)}"
    if isinstance(a, np.ndarray):
        if a.dtype != b.dtype:
            return f"{path}: dtype {a.dtype} != {b.dtype}"
        if a.shape != b.shape:
            return f"{path}: shape {a.shape} != {b.shape}"
        if not np.array_equal(a, b, equal_nan=a.dtype.kind in "fc"):
            return f"{path}: values differ"
        if np.ascontiguousarray(a).tobytes() != np.ascontiguousarray(b).tobytes():
            return f"{path}: bits differ"
        return None
    if isinstance(a, (tuple, list)):
        if len(a) != len(b):
            return f"{path}: length {len(a)} != {len(b)}"
        for i, (ia, ib) in enumerate(zip(a, b)):
            msg = _same(ia, ib, f"{path}[{i}]")
            if msg:
                return msg
        return None
    if isinstance(a, dict):
        if list(a.keys()) != list(b.keys()):
            return f"{path}: keys {list(a.keys())} != {list(b.keys())}"
        for k in a:
            msg = _same(a[k], b[k], f"{path}[{k!r}]")
            if msg:
                return msg
        return None
    if isinstance(a, (float, np.floating)) and np.isnan(a) and np.isnan(b):
        return None
    if a != b:
        return f"{path}: {a!r} != {b!r}"
    return None


def _copy(v):
    if isinstance(v, np.ndarray):
        return v.copy()
    if isinstance(v, dict):
        return {k: _copy(i) for k, i in v.items()}
    if isinstance(v, (list, tuple)):
        return type(v)(_copy(i) for i in v)
    return v


def _call(fcn, args, kwargs):
    with warnings.catch_warnings():
        warnings.simplefilter("ignore")
        try:
            return fcn(*args, **kwargs), None
        except Exception as e:  # noqa
            return None, type(e)


def check(label, f_ref, f_new, *args, **kwargs):
    """Runs both implementations on independent copies of the inputs; compares the outputs, the exception types
    and the (possibly mutated in place) inputs"""
    global N_CASES, N_RAISED
    N_CASES += 1
    a_ref, k_ref = _copy(args), _copy(kwargs)
    a_new, k_new = _copy(args), _copy(kwargs)
    out_ref, exc_ref = _call(f_ref, a_ref, k_ref)
    out_new, exc_new = _call(f_new, a_new, k_new)
    if exc_ref is not exc_new:
        FAILURES.append(f"{label}: exception {exc_ref} != {exc_new}")
        return None
    N_RAISED += exc_ref is not None
    msg = _same(out_ref, out_new) or _same(a_ref, a_new, "args after call") or _same(k_ref, k_new, "kwargs after call")
    if msg:
        FAILURES.append(f"{label}: {msg}")
    return out_ref if exc_ref is None else exc_ref


def _data(rng, nc, ns, dtype=np.float64, scale=1.0):
    x = (rng.standard_normal((nc, ns)) * scale).astype(dtype)
    kind = rng.integers(0, 6)
    if kind == 0 and nc > 1:  # dead channels
        x[rng.integers(0, nc, size=max(1, nc // 5)), :] = 0
    elif kind == 1:  # common stripe
        x += (np.sin(np.arange(ns) / 7.0) * 10 * scale).astype(dtype)
    elif kind == 2:  # local spike
        x[nc // 2, ns // 2] += dtype(50 * scale) if dtype is not np.int16 else 50
    return x


def _collection(rng, nc):
    kind = rng.integers(0, 4)
    if kind == 0:
        return np.zeros(nc)
    if kind == 1:
        return rng.integers(0, 3, size=nc)
    if kind == 2:
        return np.floor(np.arange(nc) / max(1, nc // 4))
    return np.arange(nc) % 2


# ---------------------------------------------------------------------------------------------------------------
# test campaigns
# ---------------------------------------------------------------------------------------------------------------
def run_adc_shifts(rng):
    versions = [1, 1.0, 2, 2.0, 2.4, 2.1, "NPultra", np.float64(1), np.float64(2.4), np.int64(2), True]
    for version in versions:
        for nc in [NC, 385, 1, 0, 96, 383, int(rng.integers(1, 384))]:
            check(f"adc_shifts({version!r}, {nc})", adc_shifts, new_neuropixel.adc_shifts, version=version, nc=nc)
        check(f"adc_shifts({version!r})", adc_shifts, new_neuropixel.adc_shifts, version)
    check("adc_shifts()", adc_shifts, new_neuropixel.adc_shifts)
    for version in [3, 0, 1.5, "NP1", "2", None, -1]:  # not admissible: same exception expected
        check(f"adc_shifts({version!r})", adc_shifts, new_neuropixel.adc_shifts, version=version)
    for version, nshank in [(1, 1), (2, 1), (2, 4), (2.4, 4), ("NPultra", 1)]:
        check(f"trace_header({version!r}, {nshank})", trace_header, new_neuropixel.trace_header, version=version, nshank=nshank)


def run_fshift(rng):
    for i in range(130):
        dtype = [np.float64, np.float32, np.float64, np.int16][i % 4]
        ndim = 1 + (i % 3 > 0)
        ns = int(rng.integers(2, 130))
        if ndim == 1:
            w = (rng.standard_normal(ns) * 100).astype(dtype)
            axis = [-1, 0][i % 2]
            s = float(rng.uniform(-5, 5)) if i % 5 else int(rng.integers(-4, 5))
        else:
            nc = int(rng.integers(1, 20))
            axis = [-1, 1, 0][i % 3]
            w = (rng.standard_normal((nc, ns) if axis != 0 else (ns, nc)) * 100).astype(dtype)
            kind = i % 4
            if kind == 0:
                s = float(rng.uniform(-3, 3))
            elif kind == 1:
                s = rng.uniform(-1, 1, size=nc)
            elif kind == 2:
                s = np.arange(nc) / 13
            else:
                s = rng.uniform(-1, 1, size=nc).astype(np.float32)
        check(f"fshift #{i}", fshift, new_fourier.fshift, w, s, axis=axis)
    # frequency domain inputs (complex): ns has to be provided, the input is modified in place
    for i in range(40):
        ns = int(rng.integers(4, 100))
        nc = int(rng.integers(1, 10))
        x = rng.standard_normal((nc, ns))
        W = scipy.fft.rfft(x, axis=-1)
        if i % 3 == 0:
            W = W.astype(np.complex64)
        s = rng.uniform(-2, 2, size=nc) if i % 2 else float(rng.uniform(-2, 2))
        check(f"fshift complex #{i}", fshift, new_fourier.fshift, W, s, axis=-1, ns=ns)
    # ADC tables
    for version in [1, 2, "NPultra"]:
        ss, _ = adc_shifts(version)
        x = rng.standard_normal((NC, 200)).astype(np.float32)
        check(f"fshift adc {version}", fshift, new_fourier.fshift, x, ss, axis=1)
        check(f"fshift adc {version} ns", fshift, new_fourier.fshift, x, ss, axis=1, ns=200)
    # not admissible
    check("fshift wrong shift size", fshift, new_fourier.fshift, rng.standard_normal((4, 20)), np.arange(3) * 1.0, axis=1)
    check("fshift complex no ns", fshift, new_fourier.fshift, scipy.fft.rfft(rng.standard_normal((4, 20))), 0.5)
    check("fshift axis out of range", fshift, new_fourier.fshift, rng.standard_normal((4, 20)), 0.5, axis=2)


def run_agc(rng):
    for i in range(90):
        dtype = [np.float64, np.float32][i % 2]
        nc, ns = int(rng.integers(1, 40)), int(rng.integers(8, 400))
        x = _data(rng, nc, ns, dtype, scale=float(10 ** rng.uniform(-6, 2)))
        if i % 17 == 0:
            x[:] = 0
        kwargs = {}
        if i % 3 == 1:
            kwargs = dict(wl=float(rng.uniform(0.01, 1)), si=float(rng.choice([0.002, 0.001, 1 / 30000, 1 / 2500])))
        elif i % 3 == 2:
            kwargs = dict(wl=int(rng.integers(1, 400)), si=1.0, epsilon=float(rng.choice([0, 1e-8, 1e-3])))
        if i % 11 == 0:
            kwargs["gpu"] = False
        out = check(f"agc #{i}", agc, new_voltage.agc, x, **kwargs)
        assert isinstance(out, tuple), out
    check("agc 1d", agc, new_voltage.agc, rng.standard_normal(50))  # not admissible
    check("agc int", agc, new_voltage.agc, rng.integers(-50, 50, size=(5, 60)))


def run_car(rng):
    for i in range(80):
        dtype = [np.float64, np.float32, np.int16][i % 3]
        nc, ns = int(rng.integers(1, 50)), int(rng.integers(1, 200))
        x = _data(rng, nc, ns, dtype, scale=20)
        kwargs = {}
        if i % 2:
            kwargs["collection"] = _collection(rng, nc)
        if i % 4 > 1:
            kwargs["operator"] = ["median", "average", "mean", "median"][(i // 4) % 4]
        if i % 5 == 0:
            kwargs.update(ntr_pad=60, ntr_tap=0, lagc=3000, butter_kwargs={"N": 3, "Wn": 0.01, "btype": "highpass"})
        check(f"car #{i}", car, new_voltage.car, x, **kwargs)
    check("car wrong collection", car, new_voltage.car, rng.standard_normal((6, 20)), collection=np.arange(5))


def run_kfilt(rng):
    for i in range(90):
        dtype = [np.float64, np.float32][i % 2]
        nc, ns = int(rng.integers(20, 70)), int(rng.integers(20, 150))
        x = _data(rng, nc, ns, dtype, scale=float(10 ** rng.uniform(-5, 2)))
        kwargs = {}
        kwargs["ntr_pad"] = [0, 5, 60, int(rng.integers(1, 80)), 12.0][i % 5]
        kwargs["ntr_tap"] = [None, 0, 3, int(rng.integers(1, 10))][i % 4]
        kwargs["lagc"] = [300, None, 0, int(rng.integers(3, 100)), 25.5][i % 5]
        if i % 3 == 0:
            kwargs["butter_kwargs"] = {"N": int(rng.integers(1, 5)), "Wn": float(rng.uniform(0.01, 0.3)), "btype": "highpass"}
        if i % 7 == 3:
            kwargs["collection"] = np.arange(nc) % 2
        if i % 9 == 0:
            kwargs["gpu"] = False
        check(f"kfilt #{i}", kfilt, new_voltage.kfilt, x, **kwargs)
    check("kfilt defaults", kfilt, new_voltage.kfilt, rng.standard_normal((40, 700)))
    check("kfilt too few traces", kfilt, new_voltage.kfilt, rng.standard_normal((4, 50)))
    check("kfilt too few traces padded", kfilt, new_voltage.kfilt, rng.standard_normal((4, 50)), ntr_pad=10)
    check("kfilt small collections", kfilt, new_voltage.kfilt, rng.standard_normal((12, 50)), collection=np.arange(12) % 4)
    check("kfilt 1d", kfilt, new_voltage.kfilt, rng.standard_normal(50))
    check("kfilt gpu without cupy", kfilt, new_voltage.kfilt, rng.standard_normal((30, 50)), gpu=True)
    check("agc gpu without cupy", agc, new_voltage.agc, rng.standard_normal((30, 50)), gpu=True)


def run_fk(rng):
    for i in range(70):
        dtype = [np.float64, np.float32][i % 2]
        nc, ns = int(rng.integers(4, 50)), int(rng.integers(16, 120))
        x = _data(rng, nc, ns, dtype, scale=float(10 ** rng.uniform(-3, 2)))
        v1 = float(rng.uniform(100, 2000))
        kwargs = dict(vbounds=[v1, v1 * float(rng.uniform(1.1, 3))])
        kwargs["si"] = float(rng.choice([0.002, 0.001, 1 / 30000]))
        kwargs["dx"] = float(rng.choice([1, 5, 20e-6]))
        kwargs["btype"] = ["highpass", "lowpass", "hp", "LP", "HighPass"][i % 5]
        kwargs["ntr_pad"] = [0, 3, int(rng.integers(1, 70)), 4.0][i % 4]
        kwargs["ntr_tap"] = [None, 0, 2][i % 3]
        kwargs["lagc"] = [0.5, None, 0, float(rng.uniform(0.005, 0.1))][i % 4]
        if i % 6 == 1:
            kwargs["kfilt"] = {"bounds": [0.05, 0.1], "btype": ["highpass", "lp"][i % 2]}
        if i % 8 == 5:
            kwargs["collection"] = _collection(rng, nc)
        check(f"fk #{i}", fk, new_voltage.fk, x, **kwargs)
    x = rng.standard_normal((10, 40))
    check("fk no vbounds", fk, new_voltage.fk, x)
    check("fk bandpass", fk, new_voltage.fk, x, vbounds=[200, 400], btype="bandpass")
    check("fk positional", fk, new_voltage.fk, x, 0.002, 1, [200, 400], "highpass", 2, None, 0.1, None, None)


def run_destripe_parameters(rng):
    x = rng.standard_normal((80, 300))
    for fs in [30000, 30000.0, 2500, 2999.99, 3000, 250.0, np.float64(30000.0), 32000]:
        for k_filter in [True, False, 1, 0, None]:
            for butter_kwargs, k_kwargs in [
                (None, None),
                ({"N": 2, "Wn": 0.05, "btype": "highpass"}, None),
                (None, {"ntr_pad": 10, "ntr_tap": 2, "lagc": 50, "butter_kwargs": {"N": 3, "Wn": 0.02, "btype": "highpass"}}),
            ]:
                out_ref = _get_destripe_parameters(fs, _copy(butter_kwargs), _copy(k_kwargs), k_filter)
                out_new = new_voltage._get_destripe_parameters(fs, _copy(butter_kwargs), _copy(k_kwargs), k_filter)
                global N_CASES
                N_CASES += 1
                msg = _same(out_ref[:2], out_new[:2])
                if msg:
                    FAILURES.append(f"_get_destripe_parameters({fs}, {k_filter}): {msg}")
                check(f"spatial_fcn({fs}, {k_filter})", out_ref[2], out_new[2], x)
    check("_get_destripe_parameters fs None", _get_destripe_parameters, new_voltage._get_destripe_parameters, None, None, {}, True)
    check("_get_destripe_parameters fs str", lambda *a: _get_destripe_parameters(*a)[:2],
          lambda *a: new_voltage._get_destripe_parameters(*a)[:2], "30000", {}, None, True)


def run_destripe(rng):
    def stripes(nc, ns, fs, dtype):
        t = np.arange(ns) / fs
        x = rng.standard_normal((nc, ns)) * 10e-6
        x += (np.sin(2 * np.pi * float(rng.uniform(500, 3000)) * t) * float(rng.uniform(10, 500)) * 1e-6)[np.newaxis, :]
        ic, it = int(rng.integers(2, nc - 2)), int(rng.integers(20, ns - 20))
        x[ic - 1:ic + 2, it:it + 10] -= np.hanning(10) * 200e-6
        return x.astype(dtype)

    versions = [1, 2, "NPultra", 2.4, None, 1.0]
    for i in range(66):
        version = versions[i % 6]
        fs = [30000, 30000.0, 2500, 32000][i % 4]
        ns = int(rng.integers(150, 500))
        dtype = [np.float64, np.float32][i % 2]
        x = stripes(NC, ns, fs, dtype)
        kwargs = dict(neuropixel_version=version)
        kwargs["k_filter"] = [True, False][(i // 2) % 2]
        lab = i % 5
        if lab == 1:
            kwargs["channel_labels"] = False
        elif lab == 2:
            labels = np.zeros(NC)
            labels[rng.integers(0, NC, size=12)] = rng.integers(1, 3, size=12)
            labels[int(rng.integers(300, 380)):] = 3
            kwargs["channel_labels"] = labels
        elif lab == 3:
            kwargs["channel_labels"] = rng.integers(0, 4, size=NC)
        elif lab == 4:
            kwargs["channel_labels"] = np.zeros(NC, dtype=int)
        if i % 7 == 2:
            kwargs["k_kwargs"] = {"ntr_pad": 30, "ntr_tap": 4, "lagc": 100, "butter_kwargs": {"N": 3, "Wn": 0.02, "btype": "highpass"}}
        if i % 7 == 4 and lab < 2:
            # several shanks
            kwargs["h"] = trace_header(version=2, nshank=4)
            kwargs["k_kwargs"] = {"collection": kwargs["h"]["shank"], "operator": ["median", "average"][i % 2], "lagc": 90,
                                  "butter_kwargs": {"N": 3, "Wn": 0.01, "btype": "highpass"}}
            if kwargs["k_filter"]:
                kwargs["k_kwargs"].pop("operator")
        if i % 7 == 6:
            kwargs["butter_kwargs"] = {"N": 3, "Wn": [0.5, 300], "btype": "bandpass", "fs": fs}
        if i % 11 == 7:
            kwargs["h"] = trace_header(version=1 if version in (None, "NPultra") else version)
        check(f"destripe #{i}", destripe, new_voltage.destripe, x, fs, **kwargs)
    # sub-selection of channels with its own header
    for i in range(12):
        version = [1, 2][i % 2]
        h = trace_header(version=version)
        sel = np.sort(rng.choice(NC, size=int(rng.integers(100, 300)), replace=False))
        h = {k: v[sel] for k, v in h.items()}
        x = stripes(sel.size, 256, 30000, np.float32)
        labels = rng.integers(0, 4, size=sel.size) if i % 3 else None
        check(f"destripe sub-selection #{i}", destripe, new_voltage.destripe, x, 30000, h=h, neuropixel_version=version,
              channel_labels=labels, k_filter=bool(i % 4))
    # labels deduced from the data, positional arguments, not admissible inputs
    x = stripes(NC, 3000, 30000, np.float32)
    check("destripe labels True", destripe, new_voltage.destripe, x, 30000, channel_labels=True)
    check("destripe positional", destripe, new_voltage.destripe, x[:, :300], 30000, None, 2, None, None, np.zeros(NC), False)
    check("destripe all outside", destripe, new_voltage.destripe, x[:, :300], 30000, channel_labels=np.zeros(NC) + 3)
    check("destripe wrong nc", destripe, new_voltage.destripe, x[:100, :300], 30000)
    check("destripe wrong version", destripe, new_voltage.destripe, x[:, :300], 30000, neuropixel_version=3)
    check("destripe labels list", destripe, new_voltage.destripe, x[:, :300], 30000, channel_labels=[0] * NC)
    check("destripe_lfp", lambda *a, **k: destripe(*a, butter_kwargs={"N": 3, "Wn": [0.5, 300], "btype": "bandpass", "fs": 2500},
                                                    k_filter=False, **k), new_voltage.destripe_lfp, x[:, :600], 2500)


def main():
    rng = np.random.default_rng(20240505)
    for campaign in [run_adc_shifts, run_fshift, run_agc, run_car, run_kfilt, run_fk, run_destripe_parameters, run_destripe]:
        n0, r0, f0 = N_CASES, N_RAISED, len(FAILURES)
        campaign(rng)
        print(f"{campaign.__name__}: {N_CASES - n0} cases ({N_RAISED - r0} raising the same exception in both), "
              f"{len(FAILURES) - f0} differences")
    if FAILURES:
        print(f"NOT EQUIVALENT: {len(FAILURES)} differences over {N_CASES} cases")
        for f in FAILURES[:40]:
            print("  " + f)
        return 1
    print(f"all {N_CASES} cases identical (values, dtypes, shapes, exceptions, in-place side effects)")
    return 0


if __name__ == "__main__":
    sys.exit(main())
