import sys, os; sys.path.insert(0, os.path.join(os.path.dirname(os.path.abspath(__file__)), "src"))
"""
Differential equivalence check for the performance clean-up of the destriping chain (property C05).

The functions changed by the patch are agc, fk, kfilt (src/ibldsp/voltage.py), fshift (src/ibldsp/fourier.py)
and adc_shifts (src/neuropixel.py).  This file carries a verbatim copy of their ORIGINAL implementation (section
"reference implementations" below) and compares them, on several hundred seeded random and edge-case inputs,
with the functions imported from the sources next to this file: returned values (type, dtype, shape, bytes,
memory layout flags), the state of the inputs after the call (several of these functions work in place) and the
type of the exception when one is raised.  destripe and trace_header, which were not changed but call the changed
functions, are compared end to end too, by re-binding their globals to the reference functions.

Exits 0 if everything is identical, 1 with a message otherwise.
"""
import types
import warnings

import numpy as np
import scipy.signal
import scipy.fft

import neuropixel as lib_neuropixel
import ibldsp.fourier as fourier  # the reference functions only use helpers the patch does not touch
import ibldsp.voltage as lib_voltage

NC = lib_neuropixel.NC

# --------------------------------------------------------------------------------------------------------------
# reference implementations: verbatim copies of the original functions (git HEAD)
# --------------------------------------------------------------------------------------------------------------


def agc(x, wl=0.5, si=0.002, epsilon=1e-8, gpu=False):
    """
    Automatic gain control
    w_agc, gain = agc(w, wl=.5, si=.002, epsilon=1e-8)
    such as w_agc * gain = w
    :param x: seismic array (nc, ns)
    :param wl: window length (secs)
    :param si: sampling interval (secs)
    :param epsilon: whitening (useful mainly for synthetic data)
    :param gpu: bool
    :return: AGC data array, gain applied to data
    """
    if gpu:
        import cupy as gp
    else:
        gp = np
    ns_win = int(gp.round(wl / si / 2) * 2 + 1)
    w = gp.hanning(ns_win)
    w /= gp.sum(w)
    gain = fourier.convolve(gp.abs(x), w, mode="same", gpu=gpu)
    gain += (gp.sum(gain, axis=1) * epsilon / x.shape[-1])[:, gp.newaxis]
    dead_channels = np.sum(gain, axis=1) == 0
    x[~dead_channels, :] = x[~dead_channels, :] / gain[~dead_channels, :]
    if gpu:
        return (x * gain).astype("float32"), gain.astype("float32")

    return x, gain


def fk(
    x,
    si=0.002,
    dx=1,
    vbounds=None,
    btype="highpass",
    ntr_pad=0,
    ntr_tap=None,
    lagc=0.5,
    collection=None,
    kfilt=None,
):
    """Frequency-wavenumber filter: filters apparent plane-waves velocity
    :param x: the input array to be filtered. dimension, the filtering is considering
    axis=0: spatial dimension, axis=1 temporal dimension. (ntraces, ns)
    :param si: sampling interval (secs)
    :param dx: spatial interval (usually meters)
    :param vbounds: velocity high pass [v1, v2], cosine taper from 0 to 1 between v1 and v2
    :param btype: {‘lowpass’, ‘highpass’}, velocity filter : defaults to highpass
    :param ntr_pad: padding will add ntr_padd mirrored traces to each side
    :param ntr_tap: taper (if None, set to ntr_pad)
    :param lagc: length of agc in seconds. If set to None or 0, no agc
    :param kfilt: optional (None) if kfilter is applied, parameters as dict (bounds are in m-1
    according to the dx parameter) kfilt = {'bounds': [0.05, 0.1], 'btype', 'highpass'}
    :param collection: vector length ntraces. Each unique value set of traces is a collection
    on which the FK filter will run separately (shot gaters, receiver gathers)
    :return:
    """
    if collection is not None:
        xout = np.zeros_like(x)
        for c in np.unique(collection):
            sel = collection == c
            xout[sel, :] = fk(
                x[sel, :],
                si=si,
                dx=dx,
                vbounds=vbounds,
                ntr_pad=ntr_pad,
                btype=btype,
                ntr_tap=ntr_tap,
                lagc=lagc,
                collection=None,
                kfilt=kfilt,
            )
        return xout

    assert vbounds
    nx, nt = x.shape

    # lateral padding left and right
    ntr_pad = int(ntr_pad)
    ntr_tap = ntr_pad if ntr_tap is None else ntr_tap
    nxp = nx + ntr_pad * 2

    # compute frequency wavenumber scales and deduce the velocity filter
    fscale = fourier.fscale(nt, si)
    kscale = fourier.fscale(nxp, dx)
    kscale[0] = 1e-6
    v = fscale[np.newaxis, :] / kscale[:, np.newaxis]
    if btype.lower() in ["highpass", "hp"]:
        fk_att = fourier.fcn_cosine(vbounds)(np.abs(v))
    elif btype.lower() in ["lowpass", "lp"]:
        fk_att = 1 - fourier.fcn_cosine(vbounds)(np.abs(v))

    # if a k-filter is also provided, apply it
    if kfilt is not None:
        katt = fourier._freq_vector(np.abs(kscale), kfilt["bounds"], typ=kfilt["btype"])
        fk_att *= katt[:, np.newaxis]

    # import matplotlib.pyplot as plt
    # plt.imshow(np.fft.fftshift(np.abs(v), axes=0).T, aspect='auto', vmin=0, vmax=1e5,
    #            extent=[np.min(kscale), np.max(kscale), 0, np.max(fscale) * 2])
    # plt.imshow(np.fft.fftshift(np.abs(fk_att), axes=0).T, aspect='auto', vmin=0, vmax=1,
    #            extent=[np.min(kscale), np.max(kscale), 0, np.max(fscale) * 2])

    # apply the attenuation in fk-domain
    if not lagc:
        xf = np.copy(x)
        gain = 1
    else:
        xf, gain = agc(x, wl=lagc, si=si)
    if ntr_pad > 0:
        # pad the array with a mirrored version of itself and apply a cosine taper
        xf = np.r_[np.flipud(xf[:ntr_pad]), xf, np.flipud(xf[-ntr_pad:])]
    if ntr_tap > 0:
        taper = fourier.fcn_cosine([0, ntr_tap])(np.arange(nxp))  # taper up
        taper *= 1 - fourier.fcn_cosine([nxp - ntr_tap, nxp])(
            np.arange(nxp)
        )  # taper down
        xf = xf * taper[:, np.newaxis]
    xf = np.real(np.fft.ifft2(fk_att * np.fft.fft2(xf)))

    if ntr_pad > 0:
        xf = xf[ntr_pad:-ntr_pad, :]
    return xf * gain


def kfilt(
    x, collection=None, ntr_pad=0, ntr_tap=None, lagc=300, butter_kwargs=None, gpu=False
):
    """
    Applies a butterworth filter on the 0-axis with tapering / padding
    :param x: the input array to be filtered. dimension, the filtering is considering
    axis=0: spatial dimension, axis=1 temporal dimension. (ntraces, ns)
    :param collection:
    :param ntr_pad: traces added to each side (mirrored)
    :param ntr_tap: n traces for apodizatin on each side
    :param lagc: window size for time domain automatic gain control (no agc otherwise)
    :param butter_kwargs: filtering parameters: defaults: {'N': 3, 'Wn': 0.1, 'btype': 'highpass'}
    :param gpu: bool
    :return:
    """
    if gpu:
        import cupy as gp
    else:
        gp = np

    if butter_kwargs is None:
        butter_kwargs = {"N": 3, "Wn": 0.1, "btype": "highpass"}
    if collection is not None:
        xout = gp.zeros_like(x)
        for c in gp.unique(collection):
            sel = collection == c
            xout[sel, :] = kfilt(
                x=x[sel, :],
                ntr_pad=0,
                ntr_tap=None,
                collection=None,
                lagc=lagc,
                butter_kwargs=butter_kwargs,
                gpu=gpu,
            )
        return xout
    nx, nt = x.shape

    # lateral padding left and right
    ntr_pad = int(ntr_pad)
    ntr_tap = ntr_pad if ntr_tap is None else ntr_tap
    nxp = nx + ntr_pad * 2

    # apply agc and keep the gain in handy
    if not lagc:
        xf = gp.copy(x)
        gain = 1
    else:
        xf, gain = agc(x, wl=lagc, si=1.0, gpu=gpu)
    if ntr_pad > 0:
        # pad the array with a mirrored version of itself and apply a cosine taper
        xf = gp.r_[gp.flipud(xf[:ntr_pad]), xf, gp.flipud(xf[-ntr_pad:])]
    if ntr_tap > 0:
        taper = fourier.fcn_cosine([0, ntr_tap], gpu=gpu)(gp.arange(nxp))  # taper up
        taper *= 1 - fourier.fcn_cosine([nxp - ntr_tap, nxp], gpu=gpu)(
            gp.arange(nxp)
        )  # taper down
        xf = xf * taper[:, gp.newaxis]
    sos = scipy.signal.butter(**butter_kwargs, output="sos")
    if gpu:
        from .filter_gpu import sosfiltfilt_gpu

        xf = sosfiltfilt_gpu(sos, xf, axis=0)
    else:
        xf = scipy.signal.sosfiltfilt(sos, xf, axis=0)

    if ntr_pad > 0:
        xf = xf[ntr_pad:-ntr_pad, :]
    return xf * gain


def fshift(w, s, axis=-1, ns=None):
    """
    Shifts a 1D or 2D signal in frequency domain, to allow for accurate non-integer shifts
    :param w: input signal (if complex, need to provide ns too)
    :param s: shift in samples, positive shifts forward
    :param axis: axis along which to shift (last axis by default)
    :param axis: axis along which to shift (last axis by default)
    :param ns: if a rfft frequency domain array is provided, give a number of samples as there
     is an ambiguity
    :return: w
    """
    # create a vector that contains a 1 sample shift on the axis
    ns = ns or w.shape[axis]
    shape = np.array(w.shape) * 0 + 1
    shape[axis] = ns
    dephas = np.zeros(shape)
    np.put(dephas, 1, 1)
    dephas = scipy.fft.rfft(dephas, axis=axis)
    # fft the data along the axis and the dephas
    do_fft = np.invert(np.iscomplexobj(w))
    if do_fft:
        W = scipy.fft.rfft(w, axis=axis)
    else:
        W = w
    # if multiple shifts, broadcast along the other dimensions, otherwise keep a single vector
    if not np.isscalar(s):
        s_shape = np.array(w.shape)
        s_shape[axis] = 1
        s = s.reshape(s_shape)
    # apply the shift (s) to the fft angle to get the phase shift and broadcast
    W *= np.exp(1j * np.angle(dephas) * s)
    if do_fft:
        W = np.real(scipy.fft.irfft(W, ns, axis=axis))
        W = W.astype(w.dtype)
    return W


def adc_shifts(version=1, nc=NC):
    """
    Neuropixel NP1
    The sampling is serial within the same ADC, but it happens at the same time in all ADCs.
    The ADC to channel mapping is done per odd and even channels:
    ADC1: ch1, ch3, ch5, ch7...
    ADC2: ch2, ch4, ch6....
    ADC3: ch33, ch35, ch37...
    ADC4: ch34, ch36, ch38...
    Therefore, channels 1, 2, 33, 34 get sample at the same time. I hope this is more or
    less clear. In 1.0, it is similar, but there we have 32 ADC that sample each 12 channels."
    - Nick on Slack after talking to Carolina - ;-)

    There are 384 channels (each with AP and LFP) divided into 32 groups (each group containing 1 ADC)
    The ADC cycle is at 30kHz * 13 = 360 kHz (hence the 13 cycles per AP sample).
    The ADC (from what I understand) goes like this : AP1-AP2-AP3-...-AP11-AP12-LF1-AP1-AP2-...-AP12-LF2-AP1-...
    A. Wyngaard

    For NP2 there are 16 cycles

    The probe always records from all 384 channels; you can disable sites, but they actually still get read back.
    The sample time shifts are always the same for a given channel -- each channel is hardwired to a specific
     ADC and has a specific order in the sampling lineup. So you should always calculate
      the sample shift based on the original channel number. In the SpikeGLX metadata,
      these are listed in the snsSaveChannelSubset field.

    :param version: neuropixel major version 1 or 2
    :param nc: number of channels
    """
    if version == 1 or version == "NPultra":
        adc_channels = 12
        n_cycles = 13
        # version 1 uses 32 ADC that sample 12 channels each
    elif np.floor(version) == 2:
        # version 2 uses 24 ADC that sample 16 channels each
        adc_channels = n_cycles = 16
    adc = np.floor(np.arange(NC) / (adc_channels * 2)) * 2 + np.mod(np.arange(NC), 2)
    sample_shift = np.zeros_like(adc)
    for a in adc:
        sample_shift[adc == a] = np.arange(adc_channels) / n_cycles
    return sample_shift[:nc], adc[:nc]


# --------------------------------------------------------------------------------------------------------------
# unchanged callers, re-bound so that they call the reference functions above
# --------------------------------------------------------------------------------------------------------------
def _rebind(func, **overrides):
    g = dict(func.__globals__)
    g.update(overrides)
    f = types.FunctionType(func.__code__, g, func.__name__, func.__defaults__, func.__closure__)
    f.__kwdefaults__ = func.__kwdefaults__
    return f


def _namespace(module, **overrides):
    d = {k: getattr(module, k) for k in dir(module) if not k.startswith("__")}
    d.update(overrides)
    return types.SimpleNamespace(**d)


ref_trace_header = _rebind(lib_neuropixel.trace_header, adc_shifts=adc_shifts)
ref_destripe = _rebind(
    lib_voltage.destripe,
    fourier=_namespace(fourier, fshift=fshift),
    neuropixel=_namespace(lib_neuropixel, adc_shifts=adc_shifts, trace_header=ref_trace_header),
    _get_destripe_parameters=_rebind(lib_voltage._get_destripe_parameters, kfilt=kfilt),
)

# --------------------------------------------------------------------------------------------------------------
# comparison machinery
# --------------------------------------------------------------------------------------------------------------
N_CASES = 0
N_RAISED = 0
FAILURES = []


def _copy(a):
    """independent copy of an argument that keeps the memory layout (strides order, negative strides excepted)"""
    if isinstance(a, np.ndarray):
        if a.flags.c_contiguous or a.flags.f_contiguous:
            return a.copy(order="K")
        # non contiguous view: rebuild a view with the same strides on a private buffer
        base = a
        while isinstance(base.base, np.ndarray):
            base = base.base
        newbase = base.copy(order="K")
        offset = a.__array_interface__["data"][0] - base.__array_interface__["data"][0]
        return np.ndarray(a.shape, a.dtype, newbase, offset=offset, strides=a.strides)
    if isinstance(a, dict):
        return {k: _copy(v) for k, v in a.items()}
    if isinstance(a, (list, tuple)):
        return type(a)(_copy(v) for v in a)
    return a


def _same(a, b, path="result"):
    """returns None if a and b are identical, a message otherwise"""
    if type(a) is not type(b):
        return f"{path}: type {type(a).__name__} != {type(b).__name__}"
    if isinstance(a, (tuple, list)):
        if len(a) != len(b):
            return f"{path}: length {len(a)} != {len(b)}"
        for i, (u, v) in enumerate(zip(a, b)):
            msg = _same(u, v, f"{path}[{i}]")
            if msg:
                return msg
        return None
    if isinstance(a, dict):
        if list(a.keys()) != list(b.keys()):
            return f"{path}: keys differ"
        for k in a:
            msg = _same(a[k], b[k], f"{path}[{k!r}]")
            if msg:
                return msg
        return None
    if isinstance(a, (np.ndarray, np.generic)):
        if a.dtype != b.dtype:
            return f"{path}: dtype {a.dtype} != {b.dtype}"
        if a.shape != b.shape:
            return f"{path}: shape {a.shape} != {b.shape}"
        if a.dtype != object:
            if np.asarray(a).tobytes() != np.asarray(b).tobytes():
                equal = np.array_equal(a, b, equal_nan=a.dtype.kind in "fc")
                return f"{path}: values differ (np.array_equal says {equal}, bytes differ)"
        elif not np.array_equal(a, b):
            return f"{path}: values differ"
        if isinstance(a, np.ndarray):
            fa = (a.flags.c_contiguous, a.flags.f_contiguous, a.flags.writeable)
            fb = (b.flags.c_contiguous, b.flags.f_contiguous, b.flags.writeable)
            if fa != fb:
                return f"{path}: flags (C, F, writeable) {fa} != {fb}"
        return None
    if isinstance(a, float) and a != a:
        return None if b != b else f"{path}: {a} != {b}"
    return None if a == b else f"{path}: {a!r} != {b!r}"


def _run(func, args, kwargs):
    with warnings.catch_warnings(), np.errstate(all="ignore"):
        warnings.simplefilter("ignore")
        try:
            return func(*args, **kwargs), None
        except Exception as e:  # noqa
            return None, e


def check(label, ref, new, *args, **kwargs):
    """
    Runs ref and new on private copies of the arguments, compares results, exceptions, arguments after the
    call, and that returning (or not) the first argument itself (in-place contract) is the same
    """
    global N_CASES, N_RAISED
    N_CASES += 1
    a_ref, k_ref = _copy(args), _copy(kwargs)
    a_new, k_new = _copy(args), _copy(kwargs)
    msg = _same(a_ref, a_new, "copied arguments") or _same(k_ref, k_new, "copied keyword arguments")
    assert msg is None, msg
    r_ref, e_ref = _run(ref, a_ref, k_ref)
    r_new, e_new = _run(new, a_new, k_new)
    if (e_ref is None) != (e_new is None) or type(e_ref) is not type(e_new):
        msg = f"exception {e_ref!r} != {e_new!r}"
    else:
        msg = _same(r_ref, r_new)
        msg = msg or _same(a_ref, a_new, "arguments after the call")
        msg = msg or _same(k_ref, k_new, "keyword arguments after the call")
        if msg is None and e_ref is None:
            def alias(r, a, k):
                first = r[0] if isinstance(r, tuple) else r
                ins = [v for v in list(a) + list(k.values()) if isinstance(v, np.ndarray)]
                return [first is v for v in ins] + [isinstance(first, np.ndarray) and np.shares_memory(first, v) for v in ins]
            if alias(r_ref, a_ref, k_ref) != alias(r_new, a_new, k_new):
                msg = "aliasing of the result with the inputs differs"
    if msg:
        FAILURES.append(f"{label}: {msg}")
    N_RAISED += e_ref is not None
    if os.environ.get("DEMO_VERBOSE") and e_ref is not None:
        print(f"    {label}: {e_ref!r}")
    return e_ref


# --------------------------------------------------------------------------------------------------------------
# input generators
# --------------------------------------------------------------------------------------------------------------
rng = np.random.default_rng(20240605)


def traces(nc, ns, dtype=np.float64, layout="C", dead=(), scale=50.0, spikes=True):
    """band limited noise + common stripes + a few local spikes, in the requested dtype and memory layout"""
    x = rng.standard_normal((nc, ns)) * scale
    if ns > 8:
        x = x + (np.sin(np.arange(ns) / 3.0) * scale * 4)[np.newaxis, :] * (rng.random() > 0.5)
    if spikes and nc > 0 and ns > 0:
        for _ in range(3):
            x[rng.integers(nc), rng.integers(ns)] += scale * 20 * rng.choice([-1, 1])
    for i in dead:
        x[i, :] = 0
    if np.dtype(dtype).kind in "iu":
        info = np.iinfo(dtype)
        x = np.clip(np.round(x), info.min, info.max)
    x = x.astype(dtype)
    if layout == "C":
        return np.ascontiguousarray(x)
    if layout == "F":
        return np.asfortranarray(x)
    if layout == "rows":  # every second row of a larger array
        big = np.zeros((nc * 2, ns), dtype=dtype)
        big[::2] = x
        return big[::2]
    if layout == "cols":  # a window of columns of a larger array
        big = np.zeros((nc, ns + 7), dtype=dtype)
        big[:, 3:ns + 3] = x
        return big[:, 3:ns + 3]
    if layout == "rev":  # negative strides on both axes
        return np.ascontiguousarray(x[::-1, ::-1])[::-1, ::-1]
    raise ValueError(layout)


LAYOUTS = ["C", "F", "rows", "cols", "rev"]
FLOATS = [np.float64, np.float32]


# --------------------------------------------------------------------------------------------------------------
# the checks
# --------------------------------------------------------------------------------------------------------------
def check_adc_shifts():
    new = lib_neuropixel.adc_shifts
    versions = [1, 1.0, 2, 2.0, 2.1, 2.4, 2.9, "NPultra", np.int64(1), np.float32(2.4), True]
    ncs = [NC, 0, 1, 2, 5, 23, 24, 25, 32, 33, 383, 385, 1000, -1, -10, -384, -500, None]
    for v in versions:
        check(f"adc_shifts({v!r})", adc_shifts, new, v)
        check(f"adc_shifts(version={v!r})", adc_shifts, new, version=v)
        for nc in ncs:
            check(f"adc_shifts({v!r}, nc={nc})", adc_shifts, new, version=v, nc=nc)
    check("adc_shifts()", adc_shifts, new)
    for v in [0, 3, 1.5, 3.2, -1, "NP2", "foo", None, [1], np.nan]:  # not admissible: same exception
        check(f"adc_shifts({v!r})", adc_shifts, new, v)
    for v, ns in [(1, 1), (2, 1), (2.4, 4), ("NPultra", 1)]:
        check(f"trace_header({v!r}, {ns})", ref_trace_header, lib_neuropixel.trace_header, version=v, nshank=ns)


def check_fshift():
    new = fourier.fshift
    # 1d signals, scalar shifts, odd and even lengths
    for ns in [1, 2, 3, 4, 5, 16, 17, 100, 243, 500, 501]:
        for dtype in [np.float64, np.float32, np.int16, np.float16]:
            w = (rng.standard_normal(ns) * 100).astype(dtype)
            s = [1, -1, 0, 0.5, -2.25, np.float64(3.3), np.float32(0.1), ns, 1000.7][rng.integers(9)]
            check(f"fshift 1d ns={ns} {np.dtype(dtype)} s={s!r}", fshift, new, w, s)
    # 2d signals, one shift per trace or scalar shift, both axes, all layouts
    for i in range(90):
        nc, ns = [(1, 30), (4, 31), (7, 64), (24, 100), (5, 3), (3, 2), (16, 333), (2, 10), (384, 200)][i % 9]
        dtype = [np.float64, np.float32, np.int16, np.float64, np.int32][i % 5]
        layout = LAYOUTS[(i // 2) % 5]
        w = traces(nc, ns, dtype, layout)
        axis = [-1, 1, 0][i % 3]
        nshifts = nc if axis != 0 else ns
        if i % 4 == 3:
            s = float(rng.uniform(-3, 3))
        else:
            s = rng.uniform(-1, 1, nshifts) if i % 2 else (np.arange(nshifts) % 13) / 13
            s = s.astype([np.float64, np.float32][i % 2]) if i % 7 else (s * 10).astype(int)
        check(f"fshift 2d #{i} {w.shape} {w.dtype} {layout} axis={axis}", fshift, new, w, s, axis=axis)
    # the sampling delays of the probes
    for v in [1, 2, "NPultra"]:
        h = lib_neuropixel.trace_header(version=v)
        for ns in [256, 301]:
            w = traces(NC, ns, [np.float64, np.float32][ns % 2])
            check(f"fshift probe {v} ns={ns}", fshift, new, w, h["sample_shift"], axis=1)
            check(f"fshift probe {v} ns={ns} neg", fshift, new, w, -h["sample_shift"], axis=1)
    # frequency domain input (modified in place and returned), with and without ns
    for i, ns in enumerate([16, 17, 100, 101, 2, 3]):
        w = traces(6, ns)
        W = scipy.fft.rfft(w, axis=-1).astype([np.complex128, np.complex64][i % 2])
        s = rng.uniform(-2, 2, 6) if i % 2 else 1.5
        check(f"fshift rfft ns={ns}", fshift, new, W, s, ns=ns)
        check(f"fshift rfft ns={ns} axis", fshift, new, W, s, axis=1, ns=ns)
        check(f"fshift complex no ns {ns}", fshift, new, W, s)  # ambiguous call: whatever it does, the same
    # 3d, and calls that are not admissible
    check("fshift 3d", fshift, new, rng.standard_normal((3, 4, 50)), 1.5, axis=-1)
    check("fshift 3d axis 1", fshift, new, rng.standard_normal((3, 40, 5)), 0.5, axis=1)
    check("fshift 3d vector", fshift, new, rng.standard_normal((3, 4, 50)), rng.uniform(-1, 1, 12), axis=-1)
    check("fshift wrong number of shifts", fshift, new, traces(5, 40), np.arange(4.0), axis=1)
    check("fshift list of shifts", fshift, new, traces(3, 40), [1.0, 2.0, 3.0], axis=1)
    check("fshift list signal", fshift, new, [1.0, 2.0, 3.0], 1)
    check("fshift bad axis", fshift, new, traces(3, 40), 1.0, axis=2)
    check("fshift 0d", fshift, new, np.float64(3.0), 1.0)
    check("fshift nan shift", fshift, new, traces(3, 40), np.nan)
    check("fshift empty", fshift, new, np.zeros(0), 1.0)
    check("fshift no trace", fshift, new, np.zeros((0, 10)), np.zeros(0), axis=1)
    check("fshift one sample", fshift, new, np.zeros((5, 1)), np.zeros(5), axis=1)
    check("fshift read only", fshift, new, np.broadcast_to(rng.standard_normal(50), (4, 50)), np.arange(4.0), axis=1)


def check_agc():
    new = lib_voltage.agc
    i = 0
    for nc, ns in [(1, 50), (2, 51), (5, 128), (16, 300), (32, 1001), (384, 400), (3, 1), (4, 2), (7, 9)]:
        for dead in [(), (0,), (nc - 1,), tuple(range(nc)), tuple(range(0, nc, 2))]:
            for dtype in [np.float64, np.float32, np.int16]:
                i += 1
                layout = LAYOUTS[i % 5]
                x = traces(nc, ns, dtype, layout, dead=dead)
                wl, si = [(0.5, 0.002), (300, 1.0), (11, 1.0), (0.01, 0.002), (3000, 1.0), (2, 1.0)][i % 6]
                kw = {} if i % 3 else {"epsilon": [0, 1e-3, 1e-8, 10.0][(i // 3) % 4]}
                check(f"agc #{i} {x.shape} {x.dtype} {layout} dead={len(dead)} wl={wl} {kw}", agc, new, x, wl=wl, si=si, **kw)
    check("agc defaults", agc, new, traces(8, 700))
    # dtype ranges: narrow integers for which the gain corrected value does not fit, isolated spikes, huge and tiny
    for dtype in [np.int8, np.uint8, np.int16, np.int32, np.int64]:
        for layout in LAYOUTS:
            x = np.zeros((6, 400), dtype=dtype)
            x[1, 200] = np.iinfo(dtype).max
            x[2, 10] = np.iinfo(dtype).min
            x[3, :] = np.iinfo(dtype).max
            x[4, ::50] = 100
            y = traces(6, 400, dtype, layout)
            y[...] = x
            check(f"agc range {np.dtype(dtype)} {layout}", agc, new, y, wl=300, si=1.0)
    for dtype in FLOATS:
        for scale in [1e-300, 1e-30, 1e30, 1e300]:
            with np.errstate(all="ignore"):
                x = traces(5, 200, dtype, scale=scale)
            check(f"agc scale {scale} {np.dtype(dtype)}", agc, new, x, wl=21, si=1.0)
        x = traces(6, 200, dtype)
        x[1, 5] = np.nan
        x[2, 7] = np.inf
        x[3, :] = 0
        x[4, :] = -0.0
        check(f"agc nan inf {np.dtype(dtype)}", agc, new, x, wl=21, si=1.0)
    # not admissible: same exception (or same result)
    check("agc 1d", agc, new, rng.standard_normal(100))
    check("agc 3d square", agc, new, rng.standard_normal((3, 50, 50)), wl=5, si=1.0)
    check("agc 3d", agc, new, rng.standard_normal((3, 4, 50)), wl=5, si=1.0)
    check("agc no trace", agc, new, np.zeros((0, 50)), wl=5, si=1.0)
    check("agc no sample", agc, new, np.zeros((4, 0)), wl=5, si=1.0)
    check("agc read only", agc, new, np.broadcast_to(rng.standard_normal(50), (4, 50)), wl=5, si=1.0)
    check("agc bool", agc, new, rng.random((4, 50)) > 0.5, wl=5, si=1.0)
    check("agc complex", agc, new, rng.standard_normal((4, 50)) * (1 + 1j), wl=5, si=1.0)
    check("agc list", agc, new, [[1.0, 2.0], [3.0, 4.0]], wl=5, si=1.0)
    check("agc si 0", agc, new, traces(4, 50), wl=5, si=0)


def collections(nc, kind):
    if kind == 0:
        return None
    if kind == 1:  # shanks, interleaved
        return np.arange(nc) % 4
    if kind == 2:  # three blocks, float labels
        return np.floor(np.arange(nc) * 3 / nc) * 0.5
    if kind == 3:  # a single group
        return np.zeros(nc, dtype=np.int8)
    if kind == 4:  # strings
        return np.array(["ab"[i % 2] for i in range(nc)])
    if kind == 5:  # two groups of different sizes, not sorted
        return np.where(np.arange(nc) % 3 == 0, 7, -1)
    if kind == 6:  # random labels, with groups large enough to be filtered
        while True:
            c = rng.integers(-1, 2, nc)
            if np.min(np.unique(c, return_counts=True)[1]) >= nc // 5:
                return c


def check_kfilt():
    new = lib_voltage.kfilt
    butters = [None, {"N": 3, "Wn": 0.01, "btype": "highpass"}, {"N": 2, "Wn": 0.3, "btype": "lowpass"},
               {"N": 4, "Wn": [0.1, 0.4], "btype": "bandpass"}, {"N": 1, "Wn": 0.05, "btype": "highpass"}]
    for i in range(150):
        nc = [144, 160, 192, 131, 384, 150, 200][(i // 7) % 7]
        ns = [100, 257, 64, 300][i % 4] if nc < 384 else 150
        dtype = [np.float64, np.float32, np.float64, np.int16][(i // 3) % 4]
        layout = LAYOUTS[(i // 2) % 5]
        dead = [(), (3,), (0, nc - 1), tuple(range(4, nc, 4))][(i // 5) % 4]
        x = traces(nc, ns, dtype, layout, dead=dead)
        kw = {"collection": collections(nc, i % 7)}
        if kw["collection"] is None:
            kw.pop("collection") if i % 2 else None
            kw["ntr_pad"] = [0, 10, 60, nc, 7.0, 1][(i // 7) % 6]
            if i % 3:
                kw["ntr_tap"] = [None, 0, 5, 20][(i // 21) % 4]
        elif i % 5 == 0:  # ignored with a collection
            kw["ntr_pad"], kw["ntr_tap"] = 12, 4
        if i % 4:
            kw["lagc"] = [0, None, 30, 300, 3000, 7][(i // 4) % 6]
        if i % 3 != 1:
            kw["butter_kwargs"] = butters[(i // 3) % 5]
        check(f"kfilt #{i} {x.shape} {x.dtype} {layout} { {k: (v if k != 'collection' else i % 7) for k, v in kw.items()} }",
              kfilt, new, x, **kw)
    # not admissible: same exception (the state of x, gain corrected in place or not, included)
    x = traces(48, 100)
    check("kfilt bad butter", kfilt, new, x, butter_kwargs={"N": 3, "Wn": 2.0, "btype": "highpass"})
    check("kfilt bad butter no agc", kfilt, new, x, lagc=0, butter_kwargs={"N": 3, "Wn": 2.0, "btype": "highpass"})
    check("kfilt bad butter groups", kfilt, new, x, collection=collections(48, 1), butter_kwargs={"N": 3, "Wn": 2.0, "btype": "highpass"})
    check("kfilt bad butter key", kfilt, new, x, butter_kwargs={"order": 3})
    check("kfilt bad butter no group", kfilt, new, x, collection=np.full(48, np.nan), butter_kwargs={"N": 3, "Wn": 2.0})
    check("kfilt no trace", kfilt, new, np.zeros((0, 100)), collection=np.zeros(0), butter_kwargs={"N": 3, "Wn": 2.0})
    check("kfilt no trace, no collection", kfilt, new, np.zeros((0, 100)))
    check("kfilt too few traces", kfilt, new, traces(6, 100))
    check("kfilt small groups", kfilt, new, traces(48, 100), collection=np.arange(48) // 6)
    check("kfilt one small group", kfilt, new, traces(48, 100), collection=np.r_[np.zeros(44), np.ones(4)])
    check("kfilt short collection", kfilt, new, x, collection=np.zeros(40))
    check("kfilt long collection", kfilt, new, x, collection=np.zeros(50))
    check("kfilt 2d collection", kfilt, new, x, collection=np.zeros((48, 1)))
    check("kfilt list collection", kfilt, new, x, collection=[0] * 48)
    check("kfilt 1d", kfilt, new, rng.standard_normal(100))
    check("kfilt 1d groups", kfilt, new, rng.standard_normal(100), collection=np.arange(100) % 2)
    check("kfilt 3d", kfilt, new, rng.standard_normal((40, 10, 10)))
    check("kfilt negative pad", kfilt, new, x, ntr_pad=-3)
    check("kfilt pad larger than the array", kfilt, new, x, ntr_pad=53, ntr_tap=0)
    check("kfilt pad larger than the array, tap", kfilt, new, x, ntr_pad=53)
    c = (np.arange(48) % 2).astype(float)
    c[::6] = np.nan
    check("kfilt nan labels", kfilt, new, x, collection=c)
    check("kfilt negative tap", kfilt, new, x, ntr_pad=5, ntr_tap=-3)
    check("kfilt big tap", kfilt, new, x, ntr_pad=5, ntr_tap=100)
    check("kfilt str pad", kfilt, new, x, ntr_pad="a")
    check("kfilt read only", kfilt, new, np.broadcast_to(rng.standard_normal(50), (40, 50)))
    check("kfilt read only groups", kfilt, new, np.broadcast_to(rng.standard_normal(50), (40, 50)), collection=np.arange(40) % 2)


def check_fk():
    new = lib_voltage.fk
    for i in range(84):
        nc = [48, 64, 96, 51, 80, 128][(i // 7) % 6]
        ns = [64, 101, 200, 50][i % 4]
        dtype = [np.float64, np.float32, np.float64, np.int16][(i // 3) % 4]
        layout = LAYOUTS[(i // 2) % 5]
        x = traces(nc, ns, dtype, layout, dead=[(), (2,)][(i // 5) % 2])
        kw = {"vbounds": [[200, 1000], [0.5, 4], (1e4, 1e5), [30.0, 90.0]][(i // 2) % 4]}
        kw["collection"] = collections(nc, i % 7)
        if kw["collection"] is None:
            kw.pop("collection")
            kw["ntr_pad"] = [0, 5, 12, nc, 3.0, 1][(i // 7) % 6]
        else:  # the padding applies to each group
            kw["ntr_pad"] = [0, 3, 5, 3.0, 8, 1][(i // 7) % 6]
        if i % 3:
            kw["ntr_tap"] = [None, 0, 4, 9][(i // 21) % 4]
        if i % 4:
            kw["lagc"] = [0, None, 0.05, 0.5, 0.01][(i // 4) % 5]
        if i % 5 < 2:
            kw["btype"] = ["highpass", "lp", "HP", "lowpass", "Lowpass"][(i // 5) % 5]
        if i % 3 == 0:
            kw["kfilt"] = [None, {"bounds": [0.05, 0.1], "btype": "highpass"}, {"bounds": [0.1, 0.3], "btype": "lp"}][(i // 3) % 3]
        if i % 2:
            kw["si"], kw["dx"] = [(0.002, 1), (1 / 30000, 20), (0.004, 2.5)][(i // 2) % 3]
        check(f"fk #{i} {x.shape} {x.dtype} {layout} { {k: (v if k != 'collection' else i % 7) for k, v in kw.items()} }",
              fk, new, x, **kw)
    x = traces(24, 64)
    check("fk no vbounds", fk, new, x)
    check("fk no vbounds groups", fk, new, x, collection=collections(24, 1))
    check("fk bad btype", fk, new, x, vbounds=[200, 1000], btype="bandpass")
    check("fk bad kfilt", fk, new, x, vbounds=[200, 1000], kfilt={"bounds": [0.1, 0.2]})
    check("fk bad kfilt btype", fk, new, x, vbounds=[200, 1000], kfilt={"bounds": [0.1, 0.2], "btype": "bp"})
    check("fk negative tap", fk, new, x, vbounds=[200, 1000], ntr_pad=4, ntr_tap=-2)
    check("fk big tap", fk, new, x, vbounds=[200, 1000], ntr_pad=4, ntr_tap=40)
    check("fk negative pad", fk, new, x, vbounds=[200, 1000], ntr_pad=-4)
    check("fk pad larger than the array", fk, new, x, vbounds=[200, 1000], ntr_pad=26, ntr_tap=0)
    check("fk pad larger than the array, tap", fk, new, x, vbounds=[200, 1000], ntr_pad=26)
    check("fk pad larger than the groups", fk, new, x, vbounds=[200, 1000], ntr_pad=8, collection=collections(24, 1))
    check("fk array vbounds", fk, new, x, vbounds=np.array([200, 1000]))
    c = (np.arange(24) % 2).astype(float)
    c[::6] = np.nan
    check("fk nan labels", fk, new, x, vbounds=[200, 1000], collection=c)
    check("fk 1d", fk, new, rng.standard_normal(64), vbounds=[200, 1000])
    check("fk no trace", fk, new, np.zeros((0, 64)), vbounds=[200, 1000])
    check("fk one trace", fk, new, traces(1, 64), vbounds=[200, 1000], ntr_pad=1)
    check("fk short collection", fk, new, x, vbounds=[200, 1000], collection=np.zeros(20))
    check("fk read only", fk, new, np.broadcast_to(rng.standard_normal(50), (40, 50)), vbounds=[200, 1000])


def check_destripe():
    new = lib_voltage.destripe
    i = 0
    for version, fs in [(1, 30000), (2, 30000), (2.4, 30000), ("NPultra", 30000), (1, 2500), (None, 30000)]:
        hv = 1 if version is None else version
        h = lib_neuropixel.trace_header(version=hv, nshank=4 if version == 2.4 else 1)
        for k_filter in [True, False]:
            for labels in [None, "few", "tip", False]:
                i += 1
                ns = [600, 901, 1200][i % 3]
                x = traces(NC, ns, FLOATS[i % 2], LAYOUTS[i % 5], scale=20e-6)
                # a stripe recorded with the sampling delay of each channel
                t = np.arange(ns)[np.newaxis, :] - h["sample_shift"][:, np.newaxis]
                x += (200e-6 * np.sin(2 * np.pi * t * 0.05) * np.exp(-((t - ns / 2) / 40) ** 2)).astype(x.dtype)
                kw = {"k_filter": k_filter}
                if isinstance(labels, str):
                    cl = np.zeros(NC, dtype=int)
                    cl[rng.choice(NC, 12, replace=False)] = rng.choice([1, 2], 12)
                    if labels == "tip":
                        cl[-(20 + i):] = 3
                    kw["channel_labels"] = cl
                elif labels is False:
                    kw["channel_labels"] = False
                if i % 2 or version is None:
                    kw["h"] = h
                if i % 4 == 0:
                    kw["k_kwargs"] = {"ntr_pad": 30, "ntr_tap": 10, "lagc": 500, "butter_kwargs": {"N": 3, "Wn": 0.02, "btype": "highpass"}}
                if i % 6 == 5:
                    kw["butter_kwargs"] = {"N": 2, "Wn": 500 / fs * 2, "btype": "highpass"}
                if version == 2.4 and labels is None:  # one spatial filter per shank
                    kw["k_kwargs"] = {"collection": h["shank"], "lagc": 300, "butter_kwargs": {"N": 3, "Wn": 0.01, "btype": "highpass"}}
                    if not k_filter:
                        kw["k_kwargs"] = {"collection": h["shank"], "operator": ["median", "average"][i % 2]}
                check(f"destripe #{i} version={version} fs={fs} k_filter={k_filter} labels={labels} {x.dtype} {sorted(kw)}",
                      ref_destripe, new, x, fs, neuropixel_version=version, **kw)
    check("destripe defaults", ref_destripe, new, traces(NC, 500, scale=20e-6), 30000)
    check("destripe wrong channel count", ref_destripe, new, traces(100, 500, scale=20e-6), 30000)
    check("destripe int16", ref_destripe, new, traces(NC, 500, np.int16), 30000)


def main():
    for fcn in [check_adc_shifts, check_fshift, check_agc, check_kfilt, check_fk, check_destripe]:
        n0, r0, f0 = N_CASES, N_RAISED, len(FAILURES)
        fcn()
        print(f"{fcn.__name__}: {N_CASES - n0} cases ({N_RAISED - r0} of them raise, in the reference and in the library alike), "
              f"{len(FAILURES) - f0} differences")
    if FAILURES:
        print(f"NOT EQUIVALENT: {len(FAILURES)} of {N_CASES} cases differ from the reference implementation")
        for f in FAILURES[:40]:
            print("  " + f)
        return 1
    print(f"all {N_CASES} cases identical to the reference implementation")
    return 0


if __name__ == "__main__":
    sys.exit(main())
