import sys, os; sys.path.insert(0, os.path.join(os.path.dirname(os.path.abspath(__file__)), "src"))
"""
C05 - referencing / spatial filtering with channel groups (`collection`) must act on each group on its own:
  * car leaves a zero median (or mean) at every sample within each channel group
  * kfilt / fk with groups equal the same filter applied to each group alone (same butterworth, AGC, velocity settings)
  * a disturbance common to the channels of one shank is removed by per-shank referencing (> 40 dB)
The oracle is the definition: boolean masks `collection == c`, np.median / np.mean, scipy.signal.sosfiltfilt.
Channel groupings tested: contiguous shanks (4 x 96) and the dense NP2.4 four-shank layout of
neuropixel.trace_header(version=2, nshank=4), where the channels of a shank come in several blocks of 48.
"""
import numpy as np
import scipy.signal

import neuropixel
from ibldsp import voltage

rng = np.random.default_rng(42)
NC, NS, FS = 384, 1500, 30000
errors = []


def db(a, b):
    return 20 * np.log10(np.sqrt(np.mean(a ** 2)) / np.sqrt(np.mean(b ** 2)) + 1e-30)


def check(name, ok, detail):
    print(f"{'ok  ' if ok else 'FAIL'} {name}: {detail}")
    if not ok:
        errors.append(name)


groupings = {
    "contiguous shanks (4 x 96)": np.repeat(np.arange(4), NC // 4).astype(float),
    "NP2.4 dense layout (trace_header(2, nshank=4)['shank'])": neuropixel.trace_header(version=2, nshank=4)["shank"],
}

for gname, collection in groupings.items():
    print(f"--- {gname}")
    groups = [collection == c for c in np.unique(collection)]
    x = rng.standard_normal((NC, NS)) * 20e-6

    # 1) referencing: zero median / mean at every sample within each group
    for operator, reducer in (("median", np.median), ("average", np.mean)):
        y = voltage.car(x.copy(), collection=collection, operator=operator)
        worst = max(np.max(np.abs(reducer(y[g, :], axis=0))) for g in groups)
        check(f"car {operator} [{gname}]", worst < 1e-9 * 20e-6 * 1e3,
              f"largest residual {operator} within a group = {worst:.3e} V (data rms 2e-05 V)")

    # 2) a disturbance common to the channels of one shank is removed by per-shank median referencing
    shank_noise = rng.standard_normal((len(groups), NS)) * 200e-6
    stripes = np.zeros((NC, NS))
    for ig, g in enumerate(groups):
        stripes[g, :] = shank_noise[ig]
    y = voltage.car(x + stripes, collection=collection, operator="median")
    # oracle for the residual: the local data referenced on its own, group by group
    expected = np.zeros_like(x)
    for g in groups:
        expected[g, :] = x[g, :] - np.median(x[g, :], axis=0)
    att = db(y - expected, stripes)
    check(f"per-shank stripes removed [{gname}]", att < -40, f"stripe attenuation {att:.1f} dB (needs < -40 dB)")

    # 3) k-filter with groups == k-filter of each group alone, without and with AGC
    butter_kwargs = {"N": 3, "Wn": 0.05, "btype": "highpass"}
    sos = scipy.signal.butter(**butter_kwargs, output="sos")
    y = voltage.kfilt(x.copy(), collection=collection, lagc=None, butter_kwargs=butter_kwargs)
    expected = np.zeros_like(x)
    for g in groups:
        expected[g, :] = scipy.signal.sosfiltfilt(sos, x[g, :], axis=0)
    err = db(y - expected, expected)
    check(f"kfilt no agc [{gname}]", err < -120, f"difference to per-group sosfiltfilt {err:.1f} dB")

    y = voltage.kfilt(x.copy(), collection=collection, lagc=300, butter_kwargs=butter_kwargs)
    expected = np.zeros_like(x)
    for g in groups:
        expected[g, :] = voltage.kfilt(x[g, :].copy(), collection=None, lagc=300, butter_kwargs=butter_kwargs)
    err = db(y - expected, expected)
    check(f"kfilt agc 300 [{gname}]", err < -120, f"difference to each group filtered alone {err:.1f} dB")

    # 4) fk filter with groups == fk filter of each group alone
    fk_kwargs = dict(si=1 / FS, dx=20e-6, vbounds=[0.2, 0.4], btype="lowpass", ntr_pad=10, ntr_tap=5, lagc=0.01)
    y = voltage.fk(x.copy(), collection=collection, **fk_kwargs)
    expected = np.zeros_like(x)
    for g in groups:
        expected[g, :] = voltage.fk(x[g, :].copy(), collection=None, **fk_kwargs)
    err = db(y - expected, expected)
    check(f"fk [{gname}]", err < -120, f"difference to each group filtered alone {err:.1f} dB")

if errors:
    print(f"\nC05 VIOLATED: {len(errors)} check(s) failed - channel groups are not processed on their own: {errors}")
    sys.exit(1)
print("\nC05 holds for the tested channel groupings")
sys.exit(0)
