import sys, os; sys.path.insert(0, os.path.join(os.path.dirname(os.path.abspath(__file__)), "src"))
"""
C05 - destriping removes ADC-skewed common noise and keeps local spikes.

A recording is processed the way it is done in practice: the probe header is built once and the
traces are destriped batch after batch with that header.  Every batch carries
  * a band-limited disturbance that hits all channels at the same physical instant, hence recorded by
    each channel with its own ADC sampling delay (channel c samples at time (n + sample_shift[c]) / fs)
  * a spike confined to a few neighbouring channels.
For every batch (not only the first one), every probe generation and both spatial filters, the disturbance
must come out attenuated by at least 40 dB and the spike must keep at least 90 % of its high-passed amplitude.
The oracle is the definition only: plain NumPy / SciPy, no copy of the library code.
"""
import numpy as np
import scipy.signal

import neuropixel
from ibldsp import voltage

FS = 30000
NS = 6000
NBATCHES = 3
MIN_ATTENUATION_DB = 40
MIN_SPIKE_RATIO = 0.9


def stripe(shifts, t0, freq, amp):
    """Common disturbance at physical time t0 (samples): gaussian-windowed burst, sampled with ADC delays"""
    t = np.arange(NS)[np.newaxis, :] + shifts[:, np.newaxis] - t0  # physical time of each recorded sample
    return amp * np.exp(-0.5 * (t / 25.0) ** 2) * np.cos(2 * np.pi * freq / FS * t)


def spike(shifts, channel, t0, amp):
    """Local spike (ricker-like) on a few neighbouring channels around `channel`"""
    nc = shifts.size
    t = np.arange(NS)[np.newaxis, :] + shifts[:, np.newaxis] - t0
    wav = (1 - (t / 6.0) ** 2) * np.exp(-0.5 * (t / 6.0) ** 2)
    spatial = np.exp(-0.5 * ((np.arange(nc) - channel) / 1.0) ** 2)
    spatial[spatial < 1e-2] = 0
    return -amp * spatial[:, np.newaxis] * wav


def db(x):
    return 20 * np.log10(x)


def main():
    failures = []
    sos = scipy.signal.butter(N=3, Wn=300 / FS * 2, btype="highpass", output="sos")
    for version in (1, 2, "NPultra"):
        for k_filter in (True, False):
            # the header is computed once for the recording and used for all of the batches
            h = neuropixel.trace_header(version=version)
            reference_shifts = neuropixel.adc_shifts(version=version)[0]
            rng = np.random.default_rng(12345)
            for ibatch in range(NBATCHES):
                t0 = NS / 2 + rng.uniform(-500, 500)
                freq = rng.uniform(800, 3000)
                amp = rng.uniform(50, 500) * 1e-6
                ch = int(rng.integers(40, 340))
                common = stripe(reference_shifts, t0, freq, amp)
                local = spike(reference_shifts, ch, t0 + 1500, 80e-6)
                # what comes in and what should come out, high-passed as the reference level
                hp_common = scipy.signal.sosfiltfilt(sos, common)
                hp_local = scipy.signal.sosfiltfilt(sos, local)
                out_common = voltage.destripe(
                    common.copy(), fs=FS, h=h, neuropixel_version=version, k_filter=k_filter)
                att = -db(np.sqrt(np.mean(out_common ** 2)) / np.sqrt(np.mean(hp_common ** 2)))
                out_both = voltage.destripe(
                    (common + local).copy(), fs=FS, h=h, neuropixel_version=version, k_filter=k_filter)
                ratio = np.max(np.abs(out_both[ch])) / np.max(np.abs(hp_local[ch]))
                leak = np.max(np.abs(out_both[ch, : int(t0) + 300])) / np.max(np.abs(hp_common))
                tag = f"probe {version!s:8} {'k-filter' if k_filter else 'median  '} batch {ibatch}"
                ok = att >= MIN_ATTENUATION_DB and ratio >= MIN_SPIKE_RATIO
                print(f"{tag}: stripe attenuation {att:6.1f} dB, spike amplitude kept {ratio * 100:5.1f} %, "
                      f"stripe leak on spike channel {db(leak):6.1f} dB  {'ok' if ok else 'FAIL'}")
                if not ok:
                    failures.append(tag)
            drift = np.max(np.abs(h["sample_shift"] - reference_shifts))
            if drift > 0:
                print(f"    header sample_shift after the batches differs from the ADC table by up to {drift:.3f} samples")
    if failures:
        print(f"\nC05 BROKEN: {len(failures)} destriped batches keep the common disturbance "
              f"(attenuation < {MIN_ATTENUATION_DB} dB) or lose the local spike:")
        for f in failures:
            print("   ", f)
        print("The first destripe call with a given header is fine, the following ones are not: the ADC delays "
              "of the header are no longer the ones of the probe when the re-alignment runs again.")
        return 1
    print("\nC05 holds: every batch is destriped to better than 40 dB with the spike preserved")
    return 0


if __name__ == "__main__":
    sys.exit(main())
