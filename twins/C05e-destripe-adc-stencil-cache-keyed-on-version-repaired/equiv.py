import sys, os; sys.path.insert(0, os.path.join(os.path.dirname(os.path.abspath(__file__)), "src"))
"""
C05 - destriping must attenuate by at least 40 dB a disturbance that hits all channels at the same
physical instant (recorded with each channel's ADC sampling delay), for both spatial filter variants
and every probe generation.

One process destripes chunks of the same size coming from probes of several generations, giving each
time the geometry of the probe through `h` (the way ibldsp.raw_metrics and decompress_destripe_cbin
do, with h=sr.geometry) and leaving `neuropixel_version` to its default.

Oracle: the stripe is an analytic band limited waveform f(t). A channel whose ADC samples `s` samples
late records f((n + s) / fs); a perfect destriping leaves nothing of it, and the residual is compared
to the rms of f itself.
"""
import numpy as np

import neuropixel
from ibldsp import voltage

FS = 30000.0
NS = 6000
MIN_ATTENUATION_DB = 40


def stripe(t):
    """Band limited common-mode disturbance (gaussian windowed tones, all well above the 300 Hz high-pass)"""
    out = 0
    for f0, t0, a in ((1500.0, 0.08, 1.0), (4000.0, 0.11, 0.7), (800.0, 0.13, 0.5)):
        out = out + a * np.exp(-0.5 * ((t - t0) / 0.004) ** 2) * np.cos(2 * np.pi * f0 * (t - t0))
    return 200e-6 * out


def rms(x, axis=-1):
    return np.sqrt(np.mean(x ** 2, axis=axis))


def main():
    n = np.arange(NS)
    middle = slice(NS // 4, 3 * NS // 4)  # stay away from the edges of the high-pass and of the circular shift
    reference = rms(stripe(n / FS)[middle])
    failures = []
    for version in (1, 2, "NPultra"):
        h = neuropixel.trace_header(version=version)
        # independent statement of the ADC delays: 12 channels per ADC out of 13 cycles (NP1, NPultra),
        # 16 channels per ADC out of 16 cycles (NP2), odd and even channels on separate ADCs
        nadc, ncycles = (16, 16) if version == 2 else (12, 13)
        delays = (np.arange(384) // 2 % nadc) / ncycles
        assert np.allclose(h["sample_shift"], delays), "ADC delay table changed"
        x = stripe((n[np.newaxis, :] + delays[:, np.newaxis]) / FS)
        for k_filter in (True, False):
            y = voltage.destripe(x.copy(), FS, h=h, k_filter=k_filter)
            attenuation = -20 * np.log10(np.max(rms(y[:, middle])) / reference)
            status = "ok" if attenuation >= MIN_ATTENUATION_DB else "FAIL"
            print(f"probe {version!s:8} k_filter={k_filter!s:5}: stripe attenuated by {attenuation:6.1f} dB  {status}")
            if attenuation < MIN_ATTENUATION_DB:
                failures.append((version, k_filter, attenuation))
    if failures:
        print(f"\nC05 broken: {len(failures)} destripe call(s) left an ADC-skewed common-mode stripe attenuated"
              f" by less than {MIN_ATTENUATION_DB} dB:")
        for version, k_filter, attenuation in failures:
            print(f"  probe {version}, k_filter={k_filter}: {attenuation:.1f} dB only - the channels were not"
                  f" re-aligned with the sample shifts of the header given for this probe")
        return 1
    print("\nC05 holds: every probe generation and both spatial filters remove the stripe")
    return 0


if __name__ == "__main__":
    sys.exit(main())
