import sys, os; sys.path.insert(0, os.path.join(os.path.dirname(os.path.abspath(__file__)), "src"))
"""
C05 - referencing must leave a zero mean (or median, as requested) at every sample within each
channel group, and destriping with average referencing per shank must remove a disturbance that
hits all channels at the same physical instant.

Inputs: a Neuropixel 2.4 (4 shanks) header in raw channel order, in which the shank of the
channels goes 0 x48, 1 x48, 0 x48, 1 x48, 2 x48, 3 x48 ... (the groups are interleaved).
Oracle: plain NumPy, straight from the definition.
"""
import numpy as np
import scipy.signal

import neuropixel
from ibldsp import voltage

failures = []
rng = np.random.default_rng(5)
h = neuropixel.trace_header(version=2, nshank=4)
shank = h["shank"]
nc, ns, fs = shank.size, 3000, 30000.0
groups = np.unique(shank)

# ---------------------------------------------------------------------------------------------
# 1. car with groups: zero mean / zero median per group, equal to referencing each group alone
# ---------------------------------------------------------------------------------------------
x = rng.normal(size=(nc, ns)) + shank[:, np.newaxis] * 7.0 + rng.normal(size=(1, ns)) * 3
for operator, fcn in (("average", np.mean), ("median", np.median)):
    for name, coll in (("NP2.4 shanks, raw channel order", shank),
                       ("same groups, channels sorted by shank", np.sort(shank))):
        out = voltage.car(x.copy(), collection=coll, operator=operator)
        worst_centre, worst_diff = 0.0, 0.0
        for g in groups:
            sel = coll == g
            worst_centre = max(worst_centre, np.max(np.abs(fcn(out[sel], axis=0))))
            worst_diff = max(worst_diff, np.max(np.abs(out[sel] - (x[sel] - fcn(x[sel], axis=0)))))
        ok = worst_centre < 1e-9 and worst_diff < 1e-9
        print(f"car operator={operator:8s} {name:40s} max |group {operator}| = {worst_centre:.3e}, "
              f"max |out - oracle| = {worst_diff:.3e}  {'ok' if ok else 'WRONG'}")
        if not ok:
            failures.append(f"car(operator={operator!r}) with collection ({name}) does not leave a zero "
                            f"{operator} in each group: residual {worst_centre:.3e}, error vs oracle {worst_diff:.3e}")

# ---------------------------------------------------------------------------------------------
# 2. destripe, average referencing per shank: common disturbance recorded with the ADC delays
# ---------------------------------------------------------------------------------------------
t = np.arange(ns) / fs


def stripe(tt):
    """band limited (1 - 3 kHz) burst in the middle of the window"""
    env = np.exp(-0.5 * ((tt - t[ns // 2]) / 4e-3) ** 2)
    return env * (np.sin(2 * np.pi * 1000 * tt) + 0.6 * np.sin(2 * np.pi * 2300 * tt + 1.0)
                  + 0.4 * np.cos(2 * np.pi * 3000 * tt))


# every shank picks up the disturbance with its own gain: this is why referencing is done per shank
shank_gain = np.array([1.0, 0.6, 1.5, 0.8])[shank.astype(int)]
for sign in (1, -1):
    tc = t[np.newaxis, :] + sign * h["sample_shift"][:, np.newaxis] / fs
    raw = 100e-6 * shank_gain[:, np.newaxis] * stripe(tc)
    sos = scipy.signal.butter(N=3, Wn=300 / fs * 2, btype="highpass", output="sos")
    ref = scipy.signal.sosfiltfilt(sos, raw)
    out = voltage.destripe(raw.copy(), fs=fs, h=h, neuropixel_version=2, k_filter=False,
                           k_kwargs={"collection": shank, "operator": "average"})
    sl = slice(200, ns - 200)
    att = 20 * np.log10(np.sqrt(np.mean(ref[:, sl] ** 2)) / np.sqrt(np.mean(out[:, sl] ** 2)))
    if sign == 1:
        att_fwd = att
    else:
        att_bwd = att
att = max(att_fwd, att_bwd)  # the physical sign convention is whichever the library realigns
print(f"destripe(k_filter=False, average per shank) attenuation of the common disturbance: {att:.1f} dB")
if att < 40:
    failures.append(f"destripe with average referencing per shank attenuates the ADC-skewed common "
                    f"disturbance by {att:.1f} dB only (at least 40 dB required)")

if failures:
    print("\nPROPERTY C05 BROKEN:")
    for f in failures:
        print(" -", f)
    sys.exit(1)
print("\nC05 holds")
sys.exit(0)
