"""
Differential check for refactor_N of property C06 (decompress_destripe_cbin / saturation).

Driver mode (no arguments): runs the same battery of cases once against the PRISTINE copy of the
library (/tmp/wt_C06_tmp/orig, extracted from git HEAD) and once against the worktree sources
(/tmp/wt_C06/src), each in its own interpreter with PYTHONPATH = <pyfftw stub>:<source dir>, so that
joblib worker processes import the same sources as well. Every file produced by every case (output
.bin, saturation / rms / timestamps npy, the intermediate ap_rms.bin / ap_time.bin) is hashed, as
well as the exception type / message when a case raises. The two result tables must be identical.

Worker mode (--run SRC OUT): executed by the driver.
"""
import hashlib
import json
import os
import shutil
import subprocess
import sys
from pathlib import Path

WT = Path("/tmp/wt_C06")
TMP = Path("/tmp/wt_C06_tmp")
ORIG = TMP / "orig"
NEW = WT / "src"
STUB = TMP / "stub"
META = WT / "src/tests/fixtures/sample3A_g0_t0.imec.ap.meta"
TAG = Path(__file__).stem  # equiv_1 / equiv_2 / equiv_3
NC = 385


def sha(path):
    return hashlib.sha256(Path(path).read_bytes()).hexdigest()


# ------------------------------------------------------------------------------------------------
# worker
# ------------------------------------------------------------------------------------------------
def make_recording(folder, ns, seed, saturated=()):
    """Writes a mock 3A recording: low amplitude noise + common mode, random sync bits, and full
    scale stretches (saturated) given as (first, last, proportion of channels)"""
    import numpy as np
    import spikeglx

    folder.mkdir(parents=True, exist_ok=True)
    bin_file = folder / "rec_g0_t0.imec.ap.bin"
    spikeglx._mock_spikeglx_file(bin_file, META, ns=ns, nc=NC, sync_depth=16)
    rng = np.random.default_rng(seed)
    d = rng.integers(-25, 25, size=(ns, NC)).astype(np.int16)
    d += (12 * np.sin(np.arange(ns) / 37.0))[:, np.newaxis].astype(np.int16)  # stripes
    d[:, 40] = 0  # a dead channel
    d[:, 100] += (rng.integers(-1, 2, size=ns) * 20).astype(np.int16)  # a noisier one
    for first, last, prop in saturated:
        nsat = int(np.ceil((NC - 1) * prop))
        chans = rng.permutation(NC - 1)[:nsat]
        d[first:last, chans] = 511 * rng.choice([-1, 1], size=nsat).astype(np.int16)
    d[:, -1] = rng.integers(0, 2 ** 15, size=ns).astype(np.int16)  # sync words
    d.tofile(bin_file)
    return bin_file


def hash_folder(folder):
    out = {}
    for f in sorted(folder.rglob("*")):
        if f.is_file() and not f.name.startswith("rec_g0_t0"):
            out[str(f.relative_to(folder))] = (f.stat().st_size, sha(f))
    return out


def run_cases(src, out):
    src, out = Path(src).resolve(), Path(out)
    import numpy as np
    import pyfftw
    import spikeglx
    import ibldsp.voltage as voltage
    import ibldsp.fourier as fourier
    import ibldsp.utils as utils

    assert Path(pyfftw.__file__).resolve().parent == STUB.resolve(), pyfftw.__file__
    for m in (spikeglx, voltage, fourier, utils):
        assert str(Path(m.__file__).resolve()).startswith(str(src) + os.sep), (m.__file__, src)

    results = {}
    h_full = spikeglx.Reader(make_recording(out / "_geom", 64, 0)).geometry
    shutil.rmtree(out / "_geom")

    def sub_header(nch):
        return {k: (v[:nch].copy() if isinstance(v, np.ndarray) and v.size == 384 else v)
                for k, v in h_full.items()}

    def case(name, ns, seed=1, saturated=(), runs=None, hkeys=None, **kwargs):
        folder = out / name
        bin_file = make_recording(folder, ns, seed, saturated)
        res = {}
        kw = dict(reject_channels=False, nbatch=4096, nprocesses=1)
        kw.update(kwargs)
        if hkeys is not None:
            kw["h"] = sub_header(hkeys)
        if "output_qc_path" in kw:
            kw["output_qc_path"] = folder / kw["output_qc_path"]
            kw["output_qc_path"].mkdir()
        if isinstance(kw.get("wrot"), str):
            ncv = hkeys or 384
            rng = np.random.default_rng(7)
            kw["wrot"] = (np.eye(ncv) + rng.standard_normal((ncv, ncv)) * 0.01) * 30
        for i, extra in enumerate(runs or [{}]):
            kwi = dict(kw, **extra)
            racy = False
            try:
                ret = voltage.decompress_destripe_cbin(
                    bin_file, output_file=folder / "out" / "destriped.bin", **kwi)
                res[f"run{i}"] = repr(ret)
            except BaseException as e:  # noqa
                msg = str(e).splitlines()[0] if str(e) else ""
                # when several workers run and one fails, which one fails first and what the others
                # have written by then is a race (in the original too): compare the type only
                racy = kwi["nprocesses"] != 1
                res[f"run{i}"] = type(e).__name__ if racy else f"{type(e).__name__}: {msg}"
            res[f"files{i}"] = sorted(hash_folder(folder)) if racy else hash_folder(folder)
        results[name] = res
        # checks the case is not vacuous: some non zero output
        f = folder / "out" / "destriped.bin"
        res["nonzero"] = bool(f.exists() and np.any(np.fromfile(f, dtype=np.uint8)))
        shutil.rmtree(folder)

    only = os.environ.get("C06_ONLY")  # development aid: substring filter on the case names

    def mk(name, ns, **kw):
        if only and only not in name:
            return
        (out / name / "out").mkdir(parents=True, exist_ok=True)
        case(name, ns, **kw)

    sat = lambda *a: tuple(a)  # noqa
    # 1. sweep lengths x batch sizes x worker counts on a 32 channels header (fast)
    for ns in (4096, 4097, 6000, 8192, 10240, 12345, 20481):
        for nbatch in (4096, 5000):
            for nproc in (1, 2, 3, 5, 8):
                if nproc > 1 and ns / nproc < 2100:
                    continue
                mk(f"sweep_ns{ns}_nb{nbatch}_np{nproc}", ns, seed=ns + nproc, hkeys=64,
                   nbatch=nbatch, nprocesses=nproc,
                   saturated=(sat(1000, 1040, 0.5), sat(ns - 2070, ns - 2030, 0.3),
                              sat(3060, 3090, 0.25), sat(ns - 5, ns, 1.0)))
    # 2. short recordings, single batch or shorter than the taper (errors must be identical)
    for ns in (800, 1024, 1500, 2047, 2048, 2049, 3000, 4095):
        mk(f"short_ns{ns}", ns, hkeys=64, saturated=(sat(100, 130, 0.6),))
    mk("short_2workers", 3000, hkeys=64, nprocesses=2)
    # 3. options
    opts = dict(hkeys=64, saturated=(sat(2040, 2060, 0.4), sat(6100, 6200, 0.9)))
    mk("opt_append", 9000, runs=[{}, {"append": True}, {"append": True, "nprocesses": 2}], **opts)
    mk("opt_append_norms", 9000, runs=[{"compute_rms": True}, {"append": True, "nprocesses": 3}],
       **opts)
    mk("opt_ns2add", 9000, ns2add=777, **opts)
    mk("opt_ns2add_np2", 9000, ns2add=777, nprocesses=2, **opts)
    mk("opt_ns2add_neg", 9000, ns2add=-3, **opts)
    mk("opt_wrot_scalar", 9000, wrot=0.5, **opts)
    mk("opt_wrot_matrix", 9000, wrot="matrix", nprocesses=2, **opts)
    mk("opt_car", 9000, k_filter=False, **opts)
    mk("opt_car_np3", 13000, k_filter=False, nprocesses=3, **opts)
    mk("opt_ncout_nosync", 9000, nc_out=64, **opts)
    mk("opt_ncout_70", 9000, nc_out=70, nprocesses=2, **opts)
    mk("opt_float32", 9000, dtype=np.float32, **opts)
    mk("opt_int32_np2", 9000, dtype=np.int32, nprocesses=2, ns2add=10, **opts)
    mk("opt_norms", 9000, compute_rms=False, **opts)
    mk("opt_norms_np2", 9000, compute_rms=False, nprocesses=2, **opts)
    mk("opt_qcpath", 9000, output_qc_path="qc", **opts)
    mk("opt_butter", 9000, butter_kwargs={"N": 2, "Wn": 0.05, "btype": "highpass"}, **opts)
    mk("opt_kkwargs", 9000, k_kwargs={"ntr_pad": 10, "ntr_tap": 0, "lagc": 300,
                                      "butter_kwargs": {"N": 3, "Wn": 0.02, "btype": "highpass"}},
       **opts)
    mk("opt_readerkw", 9000, reader_kwargs={"sort": False}, **opts)
    mk("opt_default_nproc", 9000, nprocesses=None, **opts)
    # 4. full header, with and without channel rejection
    mk("full_384", 9000, saturated=(sat(2040, 2060, 0.4),))
    mk("full_384_reject", 12000, reject_channels=True, nprocesses=2,
       saturated=(sat(2040, 2060, 0.4), sat(8000, 8050, 0.21)))
    mk("full_384_reject_car", 12000, reject_channels=True, k_filter=False,
       saturated=(sat(2040, 2060, 0.4),))

    # 5. the saturation function on its own
    rng = np.random.default_rng(11)
    hs = hashlib.sha256()
    for nc, ns_ in ((1, 1), (1, 2), (4, 50), (32, 300), (384, 4096)):
        for kw in ({}, {"proportion": 0.5}, {"mute_window_samples": 1}, {"mute_window_samples": 12},
                   {"v_per_sec": 1e-9, "fs": 2500}):
            data = rng.standard_normal((nc, ns_)).astype(np.float32) * 1e-4
            data[:, ns_ // 3: ns_ // 3 + 9] = 0.7
            for mv in (0.6, np.full(nc, 0.6, dtype=np.float32), np.array([0.6])):
                try:
                    s, m = voltage.saturation(data, mv, **kw)
                    hs.update(repr((s.dtype, s.shape, m.dtype, m.shape)).encode())
                    hs.update(s.tobytes() + m.tobytes())
                except BaseException as e:  # noqa
                    hs.update(f"{type(e).__name__}: {e}".encode())
    results["saturation_function"] = hs.hexdigest()
    with open(out / "results.json", "w") as fid:
        json.dump(results, fid, indent=1, sort_keys=True)


# ------------------------------------------------------------------------------------------------
# driver
# ------------------------------------------------------------------------------------------------
def main():
    assert ORIG.joinpath("ibldsp/voltage.py").exists() and STUB.joinpath("pyfftw.py").exists()
    tables = {}
    for label, src in (("orig", ORIG), ("new", NEW)):
        out = TMP / f"{TAG}_{label}"
        shutil.rmtree(out, ignore_errors=True)
        out.mkdir(parents=True)
        env = dict(os.environ, PYTHONPATH=f"{STUB}{os.pathsep}{src}", TMPDIR=str(TMP),
                   PYTHONDONTWRITEBYTECODE="1", JOBLIB_TEMP_FOLDER=str(TMP))
        subprocess.run([sys.executable, __file__, "--run", str(src), str(out)], check=True, env=env,
                       cwd=str(TMP))
        tables[label] = json.loads((out / "results.json").read_text())
        shutil.rmtree(out)
    a, b = tables["orig"], tables["new"]
    assert set(a) == set(b)
    bad = [k for k in a if a[k] != b[k]]
    ncases = len(a) - 1
    nok = sum(1 for k, v in a.items() if isinstance(v, dict) and v.get("nonzero"))
    nerr = sum(1 for k, v in a.items() if isinstance(v, dict) and any(
        kk.startswith("run") and vv != "None" for kk, vv in v.items()))
    print(f"{ncases} destripe cases ({nok} with non-trivial output, {nerr} raising), "
          f"+ saturation() battery")
    if bad:
        for k in bad:
            print("DIFFERENT:", k, a[k], b[k], sep="\n   ")
        print("NOT EQUIVALENT")
        sys.exit(1)
    assert nok > 40 or os.environ.get("C06_ONLY")
    print("EQUIVALENT")


if __name__ == "__main__":
    if len(sys.argv) > 1 and sys.argv[1] == "--run":
        run_cases(sys.argv[2], sys.argv[3])
    else:
        main()
