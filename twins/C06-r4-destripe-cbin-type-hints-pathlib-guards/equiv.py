import sys, os; sys.path.insert(0, os.path.join(os.path.dirname(os.path.abspath(__file__)), "src"))
"""
Differential equivalence check for the modernisation clean-up of
`ibldsp.voltage.decompress_destripe_cbin` (and the docstring of `ibldsp.voltage.saturation`).

The two functions defined below under their original names (`saturation`, `decompress_destripe_cbin`) are
verbatim copies of the ORIGINAL implementations (git HEAD); they are the reference.  The functions under test are
`ibldsp.voltage.saturation` and `ibldsp.voltage.decompress_destripe_cbin`, imported from the `src` folder next to
this file.  Every case runs both on the same seeded mock SpikeGLX recording, each into its own output folder, and
compares every file written byte for byte (and the npy files as arrays: dtype, shape, values), the return values
and, when something raises, the exception types.

pyfftw is an optional dependency; when it is not installed a small numpy stand-in with the same call signature
is written to a temporary folder and put on the path (also for the joblib worker processes).

Exit code 0 when everything is identical, 1 with a message otherwise.
"""
import shutil
import tempfile
import time
import traceback
from pathlib import Path

_HERE = os.path.dirname(os.path.abspath(__file__))
_SRC = os.path.join(_HERE, "src")
_STUB_DIR = tempfile.mkdtemp(prefix="demo_c06_stub_")
_PYFFTW_STUB = '''
import numpy as np


def empty_aligned(shape, dtype="float64", order="C", n=None):
    return np.empty(shape, dtype=dtype, order=order)


class FFTW:
    def __init__(self, input_array, output_array, axes=(-1,), direction="FFTW_FORWARD", threads=1, **kwargs):
        self.a, self.b, self.axis, self.direction = input_array, output_array, axes[0], direction

    def __call__(self, x):
        x = np.asarray(x)
        if x.shape != self.a.shape:
            raise ValueError("Invalid shape: the new input array should be the same shape as the input array")
        if self.direction == "FFTW_FORWARD":
            return np.fft.rfft(x, axis=self.axis).astype(self.b.dtype)
        return np.fft.irfft(x, n=self.b.shape[self.axis], axis=self.axis).astype(self.b.dtype)
'''
try:
    import pyfftw  # noqa
    _extra_path = [_SRC]
except ImportError:
    with open(os.path.join(_STUB_DIR, "pyfftw.py"), "w") as _fid:
        _fid.write(_PYFFTW_STUB)
    sys.path.insert(1, _STUB_DIR)
    _extra_path = [_SRC, _STUB_DIR]
# the joblib (loky) worker processes import spikeglx / ibldsp / pyfftw by name: they get the same path
os.environ["PYTHONPATH"] = os.pathsep.join(_extra_path + [p for p in [os.environ.get("PYTHONPATH")] if p])

import numpy as np  # noqa: E402
import scipy.signal  # noqa: E402
import scipy.stats  # noqa: E402
from joblib import Parallel, delayed, cpu_count  # noqa: E402

import spikeglx  # noqa: E402
import neuropixel  # noqa: E402
import ibldsp.fourier as fourier  # noqa: E402
import ibldsp.utils as utils  # noqa: E402
import ibldsp.voltage as voltage  # noqa: E402
from ibldsp.voltage import (  # noqa: E402  (helpers that the clean-up did not touch)
    detect_bad_channels_cbin,
    _get_destripe_parameters,
    interpolate_bad_channels,
)


# ------------------------------------------------------------------------------------------------------------------
# REFERENCE: verbatim copies of the original implementations
# ------------------------------------------------------------------------------------------------------------------


def saturation(data, max_voltage, v_per_sec=1e-8, fs=30_000, proportion=0.2, mute_window_samples=7):
    """
    Computes
    :param data: [nc, ns]: voltage traces array
    :param max_voltage: maximum value of the voltage: scalar or array of size nc (same units as data)
    :param v_per_sec: maximum derivative of the voltage in V/s (or units/s)
    :param fs: sampling frequency Hz (defaults to 30kHz)
    :param proportion: 0 < proportion <1  of channels above threshold to consider the sample as saturated (0.2)
    :param mute_window_samples=7: number of samples for the cosine taper applied to the saturation
    :return:
        saturation [ns]: boolean array indicating the saturated samples
        mute [ns]: float array indicating the mute function to apply to the data [0-1]
    """
    # first computes the saturated samples
    max_voltage = np.atleast_1d(max_voltage)[:, np.newaxis]
    saturation = np.mean(np.abs(data) > max_voltage * 0.98, axis=0)
    # then compute the derivative of the voltage saturation
    n_diff_saturated = np.mean(np.abs(np.diff(data, axis=-1)) / fs >= v_per_sec, axis=0)
    n_diff_saturated = np.r_[n_diff_saturated, 0]
    # if either of those reaches more than the proportion of channels labels the sample as saturated
    saturation = np.logical_or(saturation > proportion, n_diff_saturated > proportion)
    # apply a cosine taper to the saturation to create a mute function
    win = scipy.signal.windows.cosine(mute_window_samples)
    mute = np.maximum(0, 1 - scipy.signal.convolve(saturation, win, mode='same'))
    return saturation, mute


def decompress_destripe_cbin(
    sr_file,
    output_file=None,
    h=None,
    wrot=None,
    append=False,
    nc_out=None,
    butter_kwargs=None,
    dtype=np.int16,
    ns2add=0,
    nbatch=None,
    nprocesses=None,
    compute_rms=True,
    reject_channels=True,
    k_kwargs=None,
    k_filter=True,
    reader_kwargs=None,
    output_qc_path=None,
):
    """
    From a spikeglx Reader object, decompresses and apply ADC.
    Saves output as a flat binary file in int16
    Production version with optimized FFTs - requires pyfftw
    :param sr: seismic reader object (spikeglx.Reader)
    :param output_file: (optional, defaults to .bin extension of the compressed bin file)
    :param h: (optional) neuropixel trace header. Dictionary with key 'sample_shift'
    :param wrot: (optional) whitening matrix [nc x nc] or amplitude scalar to apply to the output
    :param append: (optional, False) for chronic recordings, append to end of file
    :param nc_out: (optional, True) saves non selected channels (synchronisation trace) in output
    :param butterworth filter parameters: {'N': 3, 'Wn': 300 / sr.fs * 2, 'btype': 'highpass'}
    :param dtype: (optional, np.int16) output sample format
    :param ns2add: (optional) for kilosort, adds padding samples at the end of the file so the total
    number of samples is a multiple of the batchsize
    :param nbatch: (optional) batch size
    :param nprocesses: (optional) number of parallel processes to run, defaults to number or processes detected with joblib
     interp 3:outside of brain and discard
    :param reject_channels: (True) detects noisy or bad channels and interpolate them. Channels outside of the brain are left
     untouched
    :param k_kwargs: (None) arguments for the kfilter function
    :param reader_kwargs: (None) optional arguments for the spikeglx Reader instance
    :param k_filter: (True) Performs a k-filter - if False will do median common average referencing
    :param output_qc_path: (None) if specified, will save the QC rms in a different location than the output
    :return:
    """
    import pyfftw

    SAMPLES_TAPER = 1024
    NBATCH = nbatch or 65536
    # handles input parameters
    reader_kwargs = {} if reader_kwargs is None else reader_kwargs
    sr = spikeglx.Reader(sr_file, open=True, **reader_kwargs)
    if reject_channels:  # get bad channels if option is on
        channel_labels = detect_bad_channels_cbin(sr)
    assert isinstance(sr_file, str) or isinstance(sr_file, Path)
    butter_kwargs, k_kwargs, spatial_fcn = _get_destripe_parameters(
        sr.fs, butter_kwargs, k_kwargs, k_filter
    )
    h = sr.geometry if h is None else h
    ncv = h["sample_shift"].size  # number of channels
    output_file = (
        sr.file_bin.with_suffix(".bin") if output_file is None else Path(output_file)
    )
    assert output_file != sr.file_bin
    taper = np.r_[0, scipy.signal.windows.cosine((SAMPLES_TAPER - 1) * 2), 0]
    # create the FFT stencils
    nc_out = nc_out or sr.nc
    # compute LP filter coefficients
    sos = scipy.signal.butter(**butter_kwargs, output="sos")
    nbytes = dtype(1).nbytes
    nprocesses = nprocesses or int(cpu_count() - cpu_count() / 4)
    win = pyfftw.empty_aligned((ncv, NBATCH), dtype="float32")
    WIN = pyfftw.empty_aligned((ncv, int(NBATCH / 2 + 1)), dtype="complex64")
    fft_object = pyfftw.FFTW(win, WIN, axes=(1,), direction="FFTW_FORWARD", threads=4)
    dephas = np.zeros((ncv, NBATCH), dtype=np.float32)
    dephas[:, 1] = 1.0
    DEPHAS = np.exp(
        1j * np.angle(fft_object(dephas)) * h["sample_shift"][:, np.newaxis]
    )

    # if we want to compute the rms ap across the session as well as the saturation
    if compute_rms:
        # creates a saturation memmap, this is a nsamples vector of booleans
        file_saturation = output_file.parent.joinpath("_iblqc_ephysSaturation.samples.npy")
        np.save(file_saturation, np.zeros(sr.ns, dtype=bool))
        # creates the place holders for the rms
        ap_rms_file = output_file.parent.joinpath("ap_rms.bin")
        ap_time_file = output_file.parent.joinpath("ap_time.bin")
        rms_nbytes = np.float32(1).nbytes
        if append:
            rms_offset = Path(ap_rms_file).stat().st_size
            time_offset = Path(ap_time_file).stat().st_size
            with open(ap_time_file, "rb") as tid:
                t = tid.read()
            time_data = np.frombuffer(t, dtype=np.float32)
            t0 = time_data[-1]
        else:
            rms_offset = 0
            time_offset = 0
            t0 = 0
            open(ap_rms_file, "wb").close()
            open(ap_time_file, "wb").close()
    if append:
        # need to find the end of the file and the offset
        offset = Path(output_file).stat().st_size
    else:
        offset = 0
        open(output_file, "wb").close()

    # chunks to split the file into, dependent on number of parallel processes
    CHUNK_SIZE = int(sr.ns / nprocesses)

    def my_function(i_chunk, n_chunk):
        _sr = spikeglx.Reader(sr_file, **reader_kwargs)
        _saturation = np.load(file_saturation, mmap_mode="r+")
        n_batch = int(np.ceil(i_chunk * CHUNK_SIZE / NBATCH))
        first_s = (NBATCH - SAMPLES_TAPER * 2) * n_batch

        # Find the maximum sample for each chunk
        max_s = _sr.ns if i_chunk == n_chunk - 1 else (i_chunk + 1) * CHUNK_SIZE
        # need to redefine this here to avoid 4 byte boundary error
        win = pyfftw.empty_aligned((ncv, NBATCH), dtype="float32")
        WIN = pyfftw.empty_aligned((ncv, int(NBATCH / 2 + 1)), dtype="complex64")
        fft_object = pyfftw.FFTW(
            win, WIN, axes=(1,), direction="FFTW_FORWARD", threads=4
        )
        ifft_object = pyfftw.FFTW(
            WIN, win, axes=(1,), direction="FFTW_BACKWARD", threads=4
        )

        fid = open(output_file, "r+b")
        if i_chunk == 0:
            fid.seek(offset)
        else:
            fid.seek(offset + ((first_s + SAMPLES_TAPER) * nc_out * nbytes))

        if compute_rms:
            aid = open(ap_rms_file, "r+b")
            tid = open(ap_time_file, "r+b")
            if i_chunk == 0:
                aid.seek(rms_offset)
                tid.seek(time_offset)
            else:
                aid.seek(rms_offset + (n_batch * ncv * rms_nbytes))
                tid.seek(time_offset + (n_batch * rms_nbytes))

        while True:
            last_s = np.minimum(NBATCH + first_s, _sr.ns)
            # Apply tapers
            chunk = _sr[first_s:last_s, :ncv].T
            saturated_samples, mute_saturation = saturation(
                data=chunk, max_voltage=_sr.range_volts[:ncv], fs=_sr.fs)
            _saturation[first_s:last_s] = saturated_samples
            chunk[:, :SAMPLES_TAPER] *= taper[:SAMPLES_TAPER]
            chunk[:, -SAMPLES_TAPER:] *= taper[SAMPLES_TAPER:]
            # Apply filters
            chunk = scipy.signal.sosfiltfilt(sos, chunk)
            # Find the indices to save
            ind2save = [SAMPLES_TAPER, NBATCH - SAMPLES_TAPER]
            if last_s == _sr.ns:
                # for the last batch just use the normal fft as the stencil doesn't fit
                chunk = fourier.fshift(chunk, s=h["sample_shift"])
                ind2save[1] = NBATCH
            else:
                # apply precomputed fshift of the proper length
                chunk = ifft_object(fft_object(chunk) * DEPHAS)
            if first_s == 0:
                # for the first batch save the start with taper applied
                ind2save[0] = 0
            # interpolate missing traces after the low-cut filter it's important to leave the
            # channels outside of the brain outside of the computation
            if reject_channels:
                chunk = interpolate_bad_channels(chunk, channel_labels, h["x"], h["y"])
                inside_brain = np.where(channel_labels != 3)[0]
                # this applies either the k-filter or CAR
                chunk[inside_brain, :] = spatial_fcn(chunk[inside_brain, :])
            else:
                chunk = spatial_fcn(chunk)  # apply the k-filter / CAR

            # mute the saturated samples, then add back the untouched sync trace and save
            chunk = chunk * mute_saturation[np.newaxis, :]
            chunk = np.r_[chunk, _sr[first_s:last_s, ncv:].T].T

            # Compute rms - we get it before applying the whitening
            if compute_rms:
                ap_rms = utils.rms(chunk[:, :ncv], axis=0)
                ap_t = t0 + (first_s + (last_s - first_s - 1) / 2) / _sr.fs
                ap_rms.astype(np.float32).tofile(aid)
                ap_t.astype(np.float32).tofile(tid)

            # convert to normalised
            intnorm = 1 / _sr.sample2volts
            chunk = chunk[slice(*ind2save), :] * intnorm
            # apply the whitening matrix if necessary
            if wrot is not None:
                chunk[:, :ncv] = np.dot(chunk[:, :ncv], wrot)
            chunk[:, :nc_out].astype(dtype).tofile(fid)
            first_s += NBATCH - SAMPLES_TAPER * 2

            if last_s >= max_s:
                if last_s == _sr.ns:
                    if ns2add > 0:
                        np.tile(chunk[-1, :nc_out].astype(dtype), (ns2add, 1)).tofile(
                            fid
                        )
                fid.close()
                if compute_rms:
                    aid.close()
                    tid.close()
                break

    _ = Parallel(n_jobs=nprocesses)(
        delayed(my_function)(i, nprocesses) for i in range(nprocesses)
    )
    sr.close()

    # Here convert the ap_rms bin files to the ibl format and save
    if compute_rms:
        with open(ap_rms_file, "rb") as aid, open(ap_time_file, "rb") as tid:
            rms_data = aid.read()
            time_data = tid.read()
        time_data = np.frombuffer(time_data, dtype=np.float32)
        rms_data = np.frombuffer(rms_data, dtype=np.float32)
        saturation_data = np.load(file_saturation)
        assert rms_data.shape[0] == time_data.shape[0] * ncv
        rms_data = rms_data.reshape(time_data.shape[0], ncv)
        output_qc_path = output_file.parent if output_qc_path is None else output_qc_path
        np.save(output_qc_path.joinpath("_iblqc_ephysTimeRmsAP.rms.npy"), rms_data)
        np.save(output_qc_path.joinpath("_iblqc_ephysTimeRmsAP.timestamps.npy"), time_data)
        np.save(output_qc_path.joinpath("_iblqc_ephysSaturation.samples.npy"), saturation_data)


# ------------------------------------------------------------------------------------------------------------------
# HARNESS
# ------------------------------------------------------------------------------------------------------------------
ref_saturation = saturation
ref_decompress_destripe_cbin = decompress_destripe_cbin
new_saturation = voltage.saturation
new_decompress_destripe_cbin = voltage.decompress_destripe_cbin

FIXTURES = Path(_SRC).joinpath("tests", "fixtures")
META_FILES = {
    "np1": FIXTURES.joinpath("sample3B_g0_t0.imec1.ap.meta"),
    "np2": FIXTURES.joinpath("sampleNP2.1_g0_t0.imec.ap.meta"),
}
TAPER = 1024
MIN_NBATCH = 2304  # stride of 256 samples at least
MAX_NS = 30000  # samples: 30000 * 385 channels * 2 bytes = 23 MB input at most
MAX_SCRATCH_BYTES = 600e6  # watchdog: the whole scratch folder stays well below 1 GB
MAX_CASE_SECONDS = 300  # watchdog: a case takes a few seconds
FAILURES = []
N_CHECKS = {"saturation": 0, "expressions": 0, "destripe": 0, "destripe_raising": 0,
            "destripe_with_saturated_stretches": 0}


def fail(msg):
    FAILURES.append(msg)
    print("MISMATCH: " + msg)


def same_array(a, b):
    a, b = np.asarray(a), np.asarray(b)
    return a.dtype == b.dtype and a.shape == b.shape and np.array_equal(a, b, equal_nan=a.dtype.kind in "fc")


def call(fcn, *args, **kwargs):
    """returns (result, None) or (None, exception)"""
    try:
        return fcn(*args, **kwargs), None
    except BaseException as e:  # noqa
        if isinstance(e, (KeyboardInterrupt, SystemExit)):
            raise
        return None, e


# ---------------------------------------------------------------------------------------------- saturation
def check_saturation(rng, n):
    for i in range(n):
        nc = int(rng.choice([1, 2, 5, 16, 64]))
        ns = int(rng.choice([2, 3, 7, 50, 333, 1200]))
        kind = i % 5
        data = rng.normal(0, 1e-5, (nc, ns))
        if kind == 1:
            data = data.astype(np.float32)
        if kind >= 2 and ns > 10:  # saturated stretches
            for _ in range(int(rng.integers(1, 4))):
                s0 = int(rng.integers(0, ns - 2))
                data[:, s0:s0 + int(rng.integers(1, 40))] = rng.choice([-1, 1]) * 0.6
        max_voltage = 0.6 if kind % 2 else np.full(nc, 0.6) * rng.uniform(0.5, 1.5, nc)
        kwargs = {}
        if kind == 3:
            kwargs = dict(v_per_sec=float(rng.choice([1e-8, 1e-6, 1.0])), fs=float(rng.choice([2500, 30000])),
                          proportion=float(rng.uniform(0.05, 0.9)), mute_window_samples=int(rng.choice([1, 3, 7, 12])))
        if kind == 4 and i % 10 == 4:  # inadmissible shape: both must raise the same thing
            max_voltage = np.full(nc + 1, 0.6)
        (r, er), (n_, en) = call(ref_saturation, data.copy(), max_voltage, **kwargs), call(
            new_saturation, data.copy(), max_voltage, **kwargs)
        N_CHECKS["saturation"] += 1
        if (er is None) != (en is None) or type(er) is not type(en):
            fail(f"saturation case {i}: exceptions differ {er!r} / {en!r}")
        elif er is None and not (same_array(r[0], n_[0]) and same_array(r[1], n_[1])):
            fail(f"saturation case {i}: results differ")


# ---------------------------------------------------------------------------------------------- rewritten expressions
def check_expressions():
    """the expressions that were respelled, old spelling against new spelling"""
    for samples_taper in [2, 3, 16, 1024]:
        old = np.r_[0, scipy.signal.windows.cosine((samples_taper - 1) * 2), 0]
        new = np.concatenate(([0], scipy.signal.windows.cosine((samples_taper - 1) * 2), [0]))
        N_CHECKS["expressions"] += 1
        if not same_array(old, new):
            fail(f"taper expression differs for {samples_taper}")
    for a in range(-3, 60):  # loop exit condition on integers
        for b in range(-3, 60, 7):
            N_CHECKS["expressions"] += 1
            if (np.minimum(a, 40) >= b) != (not (np.minimum(a, 40) < b)):
                fail("loop condition differs")


# ---------------------------------------------------------------------------------------------- destripe to file
def make_recording(folder, rng, probe, ns, compress=False, saturate=True):
    """seeded mock recording: low amplitude noise + common mode + saturated stretches, random sync words"""
    folder.mkdir(parents=True, exist_ok=True)
    bin_file = folder.joinpath(f"mock_{probe}_g0_t0.imec0.ap.bin")
    spikeglx._mock_spikeglx_file(bin_file, META_FILES[probe], ns=ns, nc=385, sync_depth=16)
    data = rng.integers(-12, 13, size=(ns, 385)).astype(np.int16)
    data[:, :384] += np.int16(np.round(8 * np.sin(np.arange(ns) / 37.0)))[:, np.newaxis]
    data[:, :384] += (np.arange(384) % 5).astype(np.int16)[np.newaxis, :]
    if saturate:
        sr = spikeglx.Reader(bin_file)
        smax = int(np.min(sr.range_volts[:384] / sr.sample2volts[:384]))
        sr.close()
        marks = [0, ns - 1] + [int(m) for m in rng.integers(0, ns, size=3)]
        for m in marks[int(rng.integers(0, 3)):]:
            w = int(rng.integers(1, 120))
            nch = int(rng.choice([40, 120, 384]))
            data[m:m + w, :nch] = int(rng.choice([-1, 1])) * min(smax - 1, 32767)
    data[:, -1] = rng.integers(-32768, 32768, size=ns).astype(np.int16)  # sync words use all the bits
    with open(bin_file, "wb") as fid:
        data.tofile(fid)
    if compress:
        sr = spikeglx.Reader(bin_file)
        cbin_file = sr.compress_file(keep_original=False)
        sr.close()
        return Path(cbin_file)
    return bin_file


def sub_header(probe, n):
    h = neuropixel.trace_header(version=1 if probe == "np1" else 2)
    return {k: v[:n] for k, v in h.items()}


def folder_content(folder):
    return {str(p.relative_to(folder)): p.read_bytes() for p in sorted(folder.rglob("*")) if p.is_file()}


def run_side(fcn, sr_file, out_dir, case, use_default_output):
    """runs one implementation `case['n_runs']` times (append mode from the second run on) into `out_dir`"""
    out_dir.mkdir(parents=True, exist_ok=True)
    kwargs = dict(case["kwargs"])
    if case.get("qc_dir"):
        out_dir.joinpath("qc").mkdir(exist_ok=True)
        kwargs["output_qc_path"] = out_dir.joinpath("qc")
    if use_default_output:
        # output next to the input: work on a private copy of the input folder
        for f in sr_file.parent.iterdir():
            shutil.copy(f, out_dir.joinpath(f.name))
        sr_file = out_dir.joinpath(sr_file.name)
        output_file = None
    elif case.get("same_as_input"):
        for f in sr_file.parent.iterdir():
            shutil.copy(f, out_dir.joinpath(f.name))
        sr_file = out_dir.joinpath(sr_file.name)
        output_file = sr_file
    else:
        output_file = out_dir.joinpath("destriped.bin")
        if case.get("output_as_str"):
            output_file = str(output_file)
    if case.get("input_as_str"):
        sr_file = str(sr_file)
    results = []
    for i_run in range(case["n_runs"]):
        results.append(call(fcn, sr_file, output_file=output_file, append=(i_run > 0) or case.get("append_first", False),
                            **kwargs))
    return results


def build_cases(rng):
    cases = []

    def add(**kw):
        base = dict(probe="np1", ns=5000, ncv=16, n_runs=1, compress=False, saturate=True, kwargs={})
        base.update(kw)
        # admissible batch sizes only: with a stride NBATCH - 2 * taper <= 0 the (original) batch loop never advances
        assert base["kwargs"]["nbatch"] >= MIN_NBATCH and base["ns"] <= MAX_NS
        assert (base["ns"] / (base["kwargs"]["nbatch"] - 2 * TAPER)) <= 128, "too many batches for a quick case"
        cases.append(base)

    strides = lambda nb: nb - 2 * TAPER  # noqa

    def small_k_kwargs(k_filter, ncv):
        """the default k-filter pads 60 channels on each side: with a reduced header it needs a smaller padding"""
        if not k_filter or ncv is None or ncv > 60:
            return {}
        return {"k_kwargs": {"ntr_pad": int(ncv // 2), "ntr_tap": 0, "lagc": 3000,
                             "butter_kwargs": {"N": 3, "Wn": 0.01, "btype": "highpass"}}}

    # 1. single process: lengths x batch sizes, all batch seam positions relative to the end of the file
    for nb in [2304, 2305, 2560, 2777, 3001, 4096]:
        st = strides(nb)
        lengths = {nb - 700, nb - 1, nb, nb + 1, nb + st - 1, nb + st, nb + st + 1, nb + 3 * st, 2 * nb + 17,
                   int(rng.integers(nb, 3 * nb)), int(rng.integers(nb, 3 * nb))}
        for ns in sorted(lengths):
            ncv, k_filter = int(rng.choice([16, 32, 64])), bool(rng.integers(0, 2))
            add(ns=ns, ncv=ncv, probe=str(rng.choice(["np1", "np2"])),
                kwargs=dict(nbatch=nb, nprocesses=1, reject_channels=False, k_filter=k_filter,
                            ns2add=int(rng.choice([0, 0, 5, 131])), **small_k_kwargs(k_filter, ncv)))
    # 2. options: whitening, dtype, nc_out, padding, filters, qc path, append
    for i in range(70):
        nb = int(rng.choice([2304, 2560, 2777, 3072]))
        ncv = int(rng.choice([8, 16, 32, 64]))
        kwargs = dict(nbatch=nb, nprocesses=1, reject_channels=False, k_filter=bool(i % 2),
                      **small_k_kwargs(bool(i % 2), ncv))
        w = (i // 2) % 4
        if w == 1:
            kwargs["wrot"] = float(rng.uniform(0.2, 3))
        elif w == 2:
            kwargs["wrot"] = np.eye(ncv) + rng.normal(0, 0.1, (ncv, ncv))
        if i % 3 == 0:
            kwargs["dtype"] = [np.float32, np.int32, np.float64, np.int16][(i // 3) % 4]
        if i % 5 == 0:
            kwargs["nc_out"] = [ncv, ncv + 1, max(1, ncv - 3)][(i // 5) % 3]
        if i % 4 == 3:
            kwargs["ns2add"] = int(rng.integers(1, 300))
        if i % 6 == 1:
            kwargs["butter_kwargs"] = {"N": 2, "Wn": 0.05, "btype": "highpass"}
        if i % 6 == 3:
            kwargs["k_kwargs"] = {"ntr_pad": 6, "ntr_tap": 2, "lagc": 300,
                                  "butter_kwargs": {"N": 3, "Wn": 0.02, "btype": "highpass"}}
        if i % 6 == 4:
            kwargs["k_kwargs"] = {}
        add(ns=int(rng.integers(nb - 300, 4 * nb)), ncv=ncv, probe=["np1", "np2"][i % 2], kwargs=kwargs,
            n_runs=[1, 1, 2, 3][i % 4] if i % 7 else 2, qc_dir=(i % 5 == 2), saturate=(i % 9 != 0),
            output_as_str=(i % 8 == 0), input_as_str=(i % 8 == 4))
    # 3. all the channels of the probe (default header), with and without channel rejection, bin and cbin input
    for i in range(12):
        nb = [2560, 4096, 3000][i % 3]
        reject = i % 2 == 0
        ns = int(rng.integers(9300, 11000)) if reject else int(rng.integers(nb, 3 * nb))
        add(ns=ns, ncv=None, probe=["np1", "np2"][(i // 2) % 2], compress=(i % 4 == 1), default_output=(i % 4 == 1),
            kwargs=dict(nbatch=nb, nprocesses=1 if i % 3 else 2, reject_channels=reject, k_filter=(i % 4 != 3),
                        ns2add=[0, 64][i % 2]), n_runs=1 + (i % 5 == 0))
    # 4. worker counts 2..8: worker boundaries against batch seams
    for nproc in range(2, 9):
        for j in range(8):
            nb = int(rng.choice([2304, 2560, 3001, 4096]))
            ns = int(rng.integers(nb, 6 * nb)) if j else nb * nproc
            ncv = int(rng.choice([16, 32, 64]))
            kwargs = dict(nbatch=nb, nprocesses=nproc, reject_channels=False, k_filter=bool(j % 2),
                          ns2add=[0, 33][j % 2], **small_k_kwargs(bool(j % 2), ncv))
            if j % 4 == 2:
                kwargs["wrot"] = float(rng.uniform(0.5, 2))
            add(ns=ns, ncv=ncv, probe=["np1", "np2"][j % 2], kwargs=kwargs,
                n_runs=2 if j % 4 == 3 else 1, qc_dir=(j == 5))
    # 5. inputs on which the function raises: both must raise the same exception type
    add(ns=4000, kwargs=dict(nbatch=2560, nprocesses=1, reject_channels=False, k_filter=False, compute_rms=False))
    add(ns=4000, kwargs=dict(nbatch=2560, nprocesses=2, reject_channels=False, k_filter=False, compute_rms=False))
    add(ns=4000, kwargs=dict(nbatch=2560, nprocesses=1, reject_channels=False, k_filter=False), same_as_input=True)
    add(ns=4000, kwargs=dict(nbatch=2560, nprocesses=1, reject_channels=False, k_filter=False), append_first=True)
    add(ns=4000, kwargs=dict(nbatch=2560, nprocesses=1, reject_channels=False, k_filter=False, ns2add=None))
    add(ns=4000, kwargs=dict(nbatch=2560, nprocesses=1, reject_channels=False, k_filter=False, dtype=np.dtype("int16")))
    add(ns=4000, kwargs=dict(nbatch=2560, nprocesses=1, reject_channels=False, k_filter=False, wrot=np.eye(3)))
    add(ns=4000, kwargs=dict(nbatch=2560, nprocesses=1, reject_channels=False, k_filter=False, output_qc_path="not_a_path"))
    add(ns=4000, kwargs=dict(nbatch=2560, nprocesses=1, reject_channels=False, k_filter=False, reader_kwargs={"no_such": 1}))
    add(ns=1500, kwargs=dict(nbatch=2560, nprocesses=6, reject_channels=False, k_filter=False))
    # the default k-filter padding does not fit a 16 channels header, the detected labels do not fit a reduced header
    add(ns=4000, kwargs=dict(nbatch=2560, nprocesses=1, reject_channels=False, k_filter=True))
    add(ns=9500, ncv=64, kwargs=dict(nbatch=2560, nprocesses=1, reject_channels=True, k_filter=False))
    return cases


WATCH = {"case": None, "since": time.time(), "stop": False}


def watchdog(workdir):
    """aborts the whole run if a case runs away (time or disk): none should, this is a safety net"""
    import threading

    def loop():
        while not WATCH["stop"]:
            time.sleep(1.0)
            try:
                size = sum(p.stat().st_size for p in workdir.rglob("*") if p.is_file())
            except OSError:
                continue
            elapsed = time.time() - WATCH["since"]
            if size > MAX_SCRATCH_BYTES or elapsed > MAX_CASE_SECONDS:
                print(f"ABORT: {WATCH['case']} ran away ({size / 1e6:.0f} MB of scratch, {elapsed:.0f} s)", flush=True)
                shutil.rmtree(workdir, ignore_errors=True)
                shutil.rmtree(_STUB_DIR, ignore_errors=True)
                os._exit(1)

    thread = threading.Thread(target=loop, daemon=True)
    thread.start()
    return thread


def check_destripe(rng, workdir, verbose=False):
    cases = build_cases(rng)
    watchdog(workdir)
    # run grouped by worker count so that the joblib executor is re-used
    order = sorted(range(len(cases)), key=lambda i: (cases[i]["kwargs"].get("nprocesses") or 0, i))
    t_start = time.time()
    for count, i_case in enumerate(order):
        case = cases[i_case]
        WATCH.update(case=f"destripe case {i_case} {case}", since=time.time())
        cdir = workdir.joinpath(f"case_{i_case:04d}")
        sr_file = make_recording(cdir.joinpath("input"), rng, case["probe"], case["ns"], compress=case["compress"],
                                 saturate=case["saturate"])
        if case["ncv"] is not None:
            case["kwargs"]["h"] = sub_header(case["probe"], case["ncv"])
        use_default_output = case.get("default_output", False)
        res_ref = run_side(ref_decompress_destripe_cbin, sr_file, cdir.joinpath("ref"), case, use_default_output)
        res_new = run_side(new_decompress_destripe_cbin, sr_file, cdir.joinpath("new"), case, use_default_output)
        label = f"destripe case {i_case} ({ {k: v for k, v in case.items() if k != 'kwargs'} }, " \
                f"{ {k: (v if np.isscalar(v) or v is None else type(v).__name__) for k, v in case['kwargs'].items()} })"
        raised = False
        for (r, er), (n_, en) in zip(res_ref, res_new):
            if type(er) is not type(en):
                fail(f"{label}: exceptions differ: reference {er!r} / refactored {en!r}")
            if er is not None:
                raised = True
            if r is not n_ and not (r is None and n_ is None):
                fail(f"{label}: return values differ")
        fr, fn = folder_content(cdir.joinpath("ref")), folder_content(cdir.joinpath("new"))
        if set(fr) != set(fn):
            fail(f"{label}: files written differ: {sorted(fr)} / {sorted(fn)}")
        # when a worker process raises, joblib aborts the other workers at an arbitrary point: the partial content
        # of the files is then not reproducible from one run to the next (for the reference alone as well)
        racy = raised and (case["kwargs"].get("nprocesses") or 0) > 1
        for name in sorted(set(fr) & set(fn)):
            if racy:
                continue
            if fr[name] != fn[name]:
                fail(f"{label}: content of {name} differs")
            if name.endswith(".npy"):
                if not same_array(np.load(cdir.joinpath("ref", name)), np.load(cdir.joinpath("new", name))):
                    fail(f"{label}: array in {name} differs")
        if not raised and not use_default_output:
            # sanity of the harness itself: something substantial was written and compared
            nbytes = len(fr.get("destriped.bin", b""))
            if nbytes == 0:
                fail(f"{label}: harness error, empty output")
            sat = np.load(cdir.joinpath("ref", "_iblqc_ephysSaturation.samples.npy"))
            N_CHECKS["destripe_with_saturated_stretches"] += int(0 < np.sum(sat) < sat.size)
        N_CHECKS["destripe_raising" if raised else "destripe"] += 1
        if verbose:
            errs = [type(er).__name__ for _, er in res_ref if er is not None]
            print(f"[{count + 1}/{len(cases)}] {time.time() - t_start:6.1f}s raised={errs} {label}")
        shutil.rmtree(cdir, ignore_errors=True)


def main():
    verbose = "-v" in sys.argv
    rng = np.random.default_rng(20240606)
    workdir = Path(tempfile.mkdtemp(prefix="demo_c06_"))
    try:
        check_expressions()
        check_saturation(rng, 300)
        check_destripe(rng, workdir, verbose=verbose)
    except BaseException:  # noqa
        traceback.print_exc()
        FAILURES.append("the harness itself raised")
    finally:
        WATCH["stop"] = True
        shutil.rmtree(workdir, ignore_errors=True)
        shutil.rmtree(_STUB_DIR, ignore_errors=True)
    print(f"checks run: {N_CHECKS}")
    if FAILURES:
        print(f"FAILED: {len(FAILURES)} difference(s) between the reference and the refactored implementation")
        return 1
    print("OK: the refactored implementation is identical to the reference on every input")
    return 0


if __name__ == "__main__":
    sys.exit(main())
