import sys, os; sys.path.insert(0, os.path.join(os.path.dirname(os.path.abspath(__file__)), "src"))
"""
Differential equivalence check for the performance clean-up of ibldsp.voltage.decompress_destripe_cbin
(property C06: chunked destripe-to-file writes every sample exactly once, for any worker count).

The ORIGINAL implementation is carried below, verbatim, as `reference_decompress_destripe_cbin`.  Both the reference
and the function imported from the sources next to this file are run on a few hundred small synthetic recordings
(seeded random; edge cases included) and every file they write is compared byte for byte (output binary, rms / time
place holders, the three QC .npy files - the .npy header carries dtype and shape), as well as the exception type when
one is raised.  Exit code 0 if everything is identical, 1 with a message otherwise.

pyfftw is an optional dependency that is not installed here: if it cannot be imported a small NumPy stand-in module is
written to the scratch folder (same stand-in for the reference and for the refactored code).
"""
import contextlib
import io
import re
import shutil
import time
import traceback
import warnings
from pathlib import Path

HERE = Path(os.path.dirname(os.path.abspath(__file__)))
SRC = HERE / "src"
SCRATCH = HERE / ".tmp" / "demo_c06"
shutil.rmtree(SCRATCH, ignore_errors=True)
(SCRATCH / "stub").mkdir(parents=True)
os.environ.setdefault("TMPDIR", str(HERE / ".tmp"))

PYFFTW_STUB = '''
import numpy as np


def empty_aligned(shape, dtype="float32", **kwargs):
    return np.empty(shape, dtype=dtype)


class FFTW:
    def __init__(self, a, b, axes=(-1,), direction="FFTW_FORWARD", threads=1, **kwargs):
        self.a, self.b, self.axis, self.direction = a, b, axes[0], direction

    def __call__(self, x):
        if self.direction == "FFTW_FORWARD":
            return np.fft.rfft(x.astype(self.a.dtype), axis=self.axis).astype(self.b.dtype)
        return np.fft.irfft(x.astype(self.a.dtype), n=self.b.shape[self.axis], axis=self.axis).astype(self.b.dtype)
'''
extra_path = [str(SRC)]
try:
    import pyfftw  # noqa
except ImportError:
    (SCRATCH / "stub" / "pyfftw.py").write_text(PYFFTW_STUB)
    sys.path.insert(1, str(SCRATCH / "stub"))
    extra_path.append(str(SCRATCH / "stub"))
# the worker processes started by joblib must find the same sources (and the stand-in) as this process
os.environ["PYTHONPATH"] = os.pathsep.join(extra_path + [p for p in [os.environ.get("PYTHONPATH")] if p])

import numpy as np  # noqa
import scipy.signal  # noqa
import scipy.stats  # noqa
from joblib import Parallel, delayed, cpu_count, parallel_config  # noqa

import spikeglx  # noqa
import ibldsp.fourier as fourier  # noqa
import ibldsp.utils as utils  # noqa
import ibldsp.voltage as voltage  # noqa
from ibldsp.voltage import (  # noqa
    saturation, interpolate_bad_channels, detect_bad_channels_cbin, _get_destripe_parameters,
)

assert Path(voltage.__file__).resolve().parent.parent == SRC.resolve(), voltage.__file__


# ------------------------------------------------------------------------------------------------------------------
# verbatim copy of the ORIGINAL implementation (only the function name differs)
# ------------------------------------------------------------------------------------------------------------------
def reference_decompress_destripe_cbin(
    sr_file,
    output_file=None,
    h=None,
    wrot=None,
    append=False,
    nc_out=None,
    butter_kwargs=None,
    dtype=np.int16,
    ns2add=0,
    nbatch=None,
    nprocesses=None,
    compute_rms=True,
    reject_channels=True,
    k_kwargs=None,
    k_filter=True,
    reader_kwargs=None,
    output_qc_path=None,
):
    """
    From a spikeglx Reader object, decompresses and apply ADC.
    Saves output as a flat binary file in int16
    Production version with optimized FFTs - requires pyfftw
    :param sr: seismic reader object (spikeglx.Reader)
    :param output_file: (optional, defaults to .bin extension of the compressed bin file)
    :param h: (optional) neuropixel trace header. Dictionary with key 'sample_shift'
    :param wrot: (optional) whitening matrix [nc x nc] or amplitude scalar to apply to the output
    :param append: (optional, False) for chronic recordings, append to end of file
    :param nc_out: (optional, True) saves non selected channels (synchronisation trace) in output
    :param butterworth filter parameters: {'N': 3, 'Wn': 300 / sr.fs * 2, 'btype': 'highpass'}
    :param dtype: (optional, np.int16) output sample format
    :param ns2add: (optional) for kilosort, adds padding samples at the end of the file so the total
    number of samples is a multiple of the batchsize
    :param nbatch: (optional) batch size
    :param nprocesses: (optional) number of parallel processes to run, defaults to number or processes detected with joblib
     interp 3:outside of brain and discard
    :param reject_channels: (True) detects noisy or bad channels and interpolate them. Channels outside of the brain are left
     untouched
    :param k_kwargs: (None) arguments for the kfilter function
    :param reader_kwargs: (None) optional arguments for the spikeglx Reader instance
    :param k_filter: (True) Performs a k-filter - if False will do median common average referencing
    :param output_qc_path: (None) if specified, will save the QC rms in a different location than the output
    :return:
    """
    import pyfftw

    SAMPLES_TAPER = 1024
    NBATCH = nbatch or 65536
    if NBATCH <= 2 * SAMPLES_TAPER:
        raise ValueError(f"nbatch must be larger than the two taper margins ({2 * SAMPLES_TAPER} samples), got {NBATCH}")
    # handles input parameters
    reader_kwargs = {} if reader_kwargs is None else reader_kwargs
    sr = spikeglx.Reader(sr_file, open=True, **reader_kwargs)
    if reject_channels:  # get bad channels if option is on
        channel_labels = detect_bad_channels_cbin(sr)
    assert isinstance(sr_file, str) or isinstance(sr_file, Path)
    butter_kwargs, k_kwargs, spatial_fcn = _get_destripe_parameters(
        sr.fs, butter_kwargs, k_kwargs, k_filter
    )
    h = sr.geometry if h is None else h
    ncv = h["sample_shift"].size  # number of channels
    output_file = (
        sr.file_bin.with_suffix(".bin") if output_file is None else Path(output_file)
    )
    assert output_file != sr.file_bin
    taper = np.r_[0, scipy.signal.windows.cosine((SAMPLES_TAPER - 1) * 2), 0]
    # create the FFT stencils
    nc_out = nc_out or sr.nc
    # compute LP filter coefficients
    sos = scipy.signal.butter(**butter_kwargs, output="sos")
    nbytes = dtype(1).nbytes
    nprocesses = nprocesses or int(cpu_count() - cpu_count() / 4)
    win = pyfftw.empty_aligned((ncv, NBATCH), dtype="float32")
    WIN = pyfftw.empty_aligned((ncv, int(NBATCH / 2 + 1)), dtype="complex64")
    fft_object = pyfftw.FFTW(win, WIN, axes=(1,), direction="FFTW_FORWARD", threads=4)
    dephas = np.zeros((ncv, NBATCH), dtype=np.float32)
    dephas[:, 1] = 1.0
    DEPHAS = np.exp(
        1j * np.angle(fft_object(dephas)) * h["sample_shift"][:, np.newaxis]
    )

    # if we want to compute the rms ap across the session as well as the saturation
    if compute_rms:
        # creates a saturation memmap, this is a nsamples vector of booleans
        file_saturation = output_file.parent.joinpath("_iblqc_ephysSaturation.samples.npy")
        np.save(file_saturation, np.zeros(sr.ns, dtype=bool))
        # creates the place holders for the rms
        ap_rms_file = output_file.parent.joinpath("ap_rms.bin")
        ap_time_file = output_file.parent.joinpath("ap_time.bin")
        rms_nbytes = np.float32(1).nbytes
        if append:
            rms_offset = Path(ap_rms_file).stat().st_size
            time_offset = Path(ap_time_file).stat().st_size
            with open(ap_time_file, "rb") as tid:
                t = tid.read()
            time_data = np.frombuffer(t, dtype=np.float32)
            t0 = time_data[-1]
        else:
            rms_offset = 0
            time_offset = 0
            t0 = 0
            open(ap_rms_file, "wb").close()
            open(ap_time_file, "wb").close()
    if append:
        # need to find the end of the file and the offset
        offset = Path(output_file).stat().st_size
    else:
        offset = 0
        open(output_file, "wb").close()

    # chunks to split the file into, dependent on number of parallel processes
    CHUNK_SIZE = int(sr.ns / nprocesses)

    def my_function(i_chunk, n_chunk):
        _sr = spikeglx.Reader(sr_file, **reader_kwargs)
        _saturation = np.load(file_saturation, mmap_mode="r+") if compute_rms else None
        n_batch = int(np.ceil(i_chunk * CHUNK_SIZE / NBATCH))
        first_s = (NBATCH - SAMPLES_TAPER * 2) * n_batch

        # Find the maximum sample for each chunk
        max_s = _sr.ns if i_chunk == n_chunk - 1 else (i_chunk + 1) * CHUNK_SIZE
        # need to redefine this here to avoid 4 byte boundary error
        win = pyfftw.empty_aligned((ncv, NBATCH), dtype="float32")
        WIN = pyfftw.empty_aligned((ncv, int(NBATCH / 2 + 1)), dtype="complex64")
        fft_object = pyfftw.FFTW(
            win, WIN, axes=(1,), direction="FFTW_FORWARD", threads=4
        )
        ifft_object = pyfftw.FFTW(
            WIN, win, axes=(1,), direction="FFTW_BACKWARD", threads=4
        )

        fid = open(output_file, "r+b")
        if i_chunk == 0:
            fid.seek(offset)
        else:
            fid.seek(offset + ((first_s + SAMPLES_TAPER) * nc_out * nbytes))

        if compute_rms:
            aid = open(ap_rms_file, "r+b")
            tid = open(ap_time_file, "r+b")
            if i_chunk == 0:
                aid.seek(rms_offset)
                tid.seek(time_offset)
            else:
                aid.seek(rms_offset + (n_batch * ncv * rms_nbytes))
                tid.seek(time_offset + (n_batch * rms_nbytes))

        while True:
            last_s = np.minimum(NBATCH + first_s, _sr.ns)
            # Apply tapers
            chunk = _sr[first_s:last_s, :ncv].T
            saturated_samples, mute_saturation = saturation(
                data=chunk, max_voltage=_sr.range_volts[:ncv], fs=_sr.fs)
            if compute_rms:
                _saturation[first_s:last_s] = saturated_samples
            chunk[:, :SAMPLES_TAPER] *= taper[:SAMPLES_TAPER]
            chunk[:, -SAMPLES_TAPER:] *= taper[SAMPLES_TAPER:]
            # Apply filters
            chunk = scipy.signal.sosfiltfilt(sos, chunk)
            # Find the indices to save
            ind2save = [SAMPLES_TAPER, NBATCH - SAMPLES_TAPER]
            if last_s == _sr.ns:
                # for the last batch just use the normal fft as the stencil doesn't fit
                chunk = fourier.fshift(chunk, s=h["sample_shift"])
                ind2save[1] = NBATCH
            else:
                # apply precomputed fshift of the proper length
                chunk = ifft_object(fft_object(chunk) * DEPHAS)
            if first_s == 0:
                # for the first batch save the start with taper applied
                ind2save[0] = 0
            # interpolate missing traces after the low-cut filter it's important to leave the
            # channels outside of the brain outside of the computation
            if reject_channels:
                chunk = interpolate_bad_channels(chunk, channel_labels, h["x"], h["y"])
                inside_brain = np.where(channel_labels != 3)[0]
                # this applies either the k-filter or CAR
                chunk[inside_brain, :] = spatial_fcn(chunk[inside_brain, :])
            else:
                chunk = spatial_fcn(chunk)  # apply the k-filter / CAR

            # mute the saturated samples, then add back the untouched sync trace and save
            chunk = chunk * mute_saturation[np.newaxis, :]
            chunk = np.r_[chunk, _sr[first_s:last_s, ncv:].T].T

            # Compute rms - we get it before applying the whitening
            if compute_rms:
                ap_rms = utils.rms(chunk[:, :ncv], axis=0)
                ap_t = t0 + (first_s + (last_s - first_s - 1) / 2) / _sr.fs
                ap_rms.astype(np.float32).tofile(aid)
                ap_t.astype(np.float32).tofile(tid)

            # convert to normalised
            intnorm = 1 / _sr.sample2volts
            chunk = chunk[slice(*ind2save), :] * intnorm
            # apply the whitening matrix if necessary
            if wrot is not None:
                chunk[:, :ncv] = np.dot(chunk[:, :ncv], wrot)
            chunk[:, :nc_out].astype(dtype).tofile(fid)
            first_s += NBATCH - SAMPLES_TAPER * 2

            if last_s >= max_s:
                if last_s == _sr.ns:
                    if ns2add > 0:
                        np.tile(chunk[-1, :nc_out].astype(dtype), (ns2add, 1)).tofile(
                            fid
                        )
                fid.close()
                if compute_rms:
                    aid.close()
                    tid.close()
                break

    _ = Parallel(n_jobs=nprocesses)(
        delayed(my_function)(i, nprocesses) for i in range(nprocesses)
    )
    sr.close()

    # Here convert the ap_rms bin files to the ibl format and save
    if compute_rms:
        with open(ap_rms_file, "rb") as aid, open(ap_time_file, "rb") as tid:
            rms_data = aid.read()
            time_data = tid.read()
        time_data = np.frombuffer(time_data, dtype=np.float32)
        rms_data = np.frombuffer(rms_data, dtype=np.float32)
        saturation_data = np.load(file_saturation)
        assert rms_data.shape[0] == time_data.shape[0] * ncv
        rms_data = rms_data.reshape(time_data.shape[0], ncv)
        output_qc_path = output_file.parent if output_qc_path is None else output_qc_path
        np.save(output_qc_path.joinpath("_iblqc_ephysTimeRmsAP.rms.npy"), rms_data)
        np.save(output_qc_path.joinpath("_iblqc_ephysTimeRmsAP.timestamps.npy"), time_data)
        np.save(output_qc_path.joinpath("_iblqc_ephysSaturation.samples.npy"), saturation_data)


# ------------------------------------------------------------------------------------------------------------------
# synthetic recordings
# ------------------------------------------------------------------------------------------------------------------
FIXTURES = SRC / "tests" / "fixtures"
META_3B = FIXTURES / "sample3B_g0_t0.imec1.ap.meta"  # Neuropixel 1, 10 bits, snsShankMap
META_NP21 = FIXTURES / "sampleNP2.1_g0_t0.imec.ap.meta"  # Neuropixel 2.1, 14 bits
META_GEOM = FIXTURES / "sample3B_version202304.ap.meta"  # snsGeomMap flavour


def write_meta(fixture, meta_file, n_ap, ns):
    """Copies a fixture meta-data file, keeping only the first n_ap voltage channels and the sync channel"""
    md = spikeglx.read_meta_data(fixture)
    fs = spikeglx._get_fs_from_meta(md)
    n_ap_full = int(md["snsApLfSy"][0])
    n_sy = int(md["snsApLfSy"][2])
    n_ap = n_ap_full if n_ap is None else n_ap
    lines = []
    for line in Path(fixture).read_text().splitlines():
        key = line.split("=", maxsplit=1)[0]
        if key == "fileSizeBytes":
            line = f"fileSizeBytes={ns * (n_ap + n_sy) * 2}"
        elif key == "fileTimeSecs":
            line = f"fileTimeSecs={ns / fs}"
        elif key == "nSavedChans":
            line = f"nSavedChans={n_ap + n_sy}"
        elif key == "snsApLfSy":
            line = f"snsApLfSy={n_ap},0,{n_sy}"
        elif key == "snsSaveChanSubset" and n_ap != n_ap_full:
            line = f"snsSaveChanSubset=0:{n_ap - 1},768"
        elif key in ("~snsShankMap", "~snsGeomMap") and n_ap != n_ap_full:
            groups = re.findall(r"\([^)]*\)", line)
            line = key + "=" + "".join(groups[: n_ap + 1])
        lines.append(line)
    Path(meta_file).write_text("\n".join(lines) + "\n")
    return n_ap + n_sy


def make_recording(folder, fixture, n_ap, ns, rng, content):
    """Writes name.ap.bin / name.ap.meta in folder; returns the path of the binary file and the int16 data"""
    folder.mkdir(parents=True, exist_ok=True)
    bin_file = folder / "rec_g0_t0.imec0.ap.bin"
    nc = write_meta(fixture, bin_file.with_suffix(".meta"), n_ap, ns)
    maxint = int(spikeglx._get_max_int_from_meta(spikeglx.read_meta_data(bin_file.with_suffix(".meta"))))
    ncv = nc - 1
    amp = int(rng.integers(2, 30))
    data = rng.integers(-amp, amp + 1, size=(ns, nc)).astype(np.int16)
    data[:, :ncv] += rng.integers(-amp, amp + 1, size=(ns, 1)).astype(np.int16)  # a common stripe
    if content in ("dead", "mixed"):
        data[:, rng.choice(ncv, size=max(1, ncv // 16), replace=False)] = 0
        data[:, rng.choice(ncv, size=max(1, ncv // 16), replace=False)] *= 7
    if content in ("saturated", "mixed"):
        for _ in range(int(rng.integers(1, 4))):
            i0 = int(rng.integers(0, ns))
            i1 = min(ns, i0 + int(rng.integers(1, 400)))
            chans = rng.choice(ncv, size=int(np.ceil(ncv * rng.uniform(0.1, 1.0))), replace=False)
            data[i0:i1, chans] = (maxint - 1) * (1 if rng.random() < 0.5 else -1)
    if content == "edges":  # saturation right at the start and at the end of the recording
        data[:5, :ncv] = maxint - 1
        data[-3:, :ncv] = -(maxint - 1)
    if content == "slew":  # fast steps below the amplitude threshold
        for i0 in rng.integers(1, ns, size=3):
            data[i0:, :ncv] += np.int16(maxint // 3)
    if content == "zeros":
        data[:, :ncv] = 0
    # the sync trace holds full range 16 bits words
    data[:, ncv:] = rng.integers(-32768, 32768, size=(ns, nc - ncv)).astype(np.int16)
    data.tofile(bin_file)
    return bin_file, data


def compress_recording(bin_file, rng):
    """mtscomp compressed copy of a recording, in its own folder"""
    folder = bin_file.parent.with_name(bin_file.parent.name + "_cbin")
    folder.mkdir()
    for suffix in (".bin", ".meta"):
        shutil.copy(bin_file.with_suffix(suffix), folder / bin_file.with_suffix(suffix).name)
    sr = spikeglx.Reader(folder / bin_file.name)
    with contextlib.redirect_stderr(io.StringIO()):  # progress bars
        cbin = sr.compress_file(keep_original=False, chunk_duration=float(rng.choice([0.01, 0.05, 1.0])))
    sr.close()
    return cbin


# ------------------------------------------------------------------------------------------------------------------
# differential harness
# ------------------------------------------------------------------------------------------------------------------
def snapshot(folder):
    return {str(p.relative_to(folder)): p.read_bytes() for p in sorted(folder.rglob("*")) if p.is_file()}


def run_one(func, inputs, folder, kwargs, labels, backend, default_output):
    """
    Runs func on each of the inputs in turn (the second and later ones in append mode) writing to folder.
    Returns the type of the exception raised if any, and the content of every file in the output folder
    """
    folder.mkdir(parents=True)
    kwargs = dict(kwargs)
    if kwargs.pop("qc_elsewhere", False):
        kwargs["output_qc_path"] = folder / "qc"
        kwargs["output_qc_path"].mkdir()
    first_append = kwargs.pop("append", False)
    exc = None
    saved = voltage.detect_bad_channels_cbin, globals()["detect_bad_channels_cbin"]
    if labels is not None:  # forces the outcome of the bad channels detection so as to cover every label
        voltage.detect_bad_channels_cbin = lambda sr, **kw: labels.copy()
        globals()["detect_bad_channels_cbin"] = voltage.detect_bad_channels_cbin
    try:
        for i, sr_file in enumerate(inputs):
            if default_output:  # output next to a private copy of the compressed file
                for f in sr_file.parent.glob("*"):
                    shutil.copy(f, folder / f.name)
                sr_file, out = folder / sr_file.name, {}
            else:
                out = {"output_file": folder / "out.bin"}
            with warnings.catch_warnings(), parallel_config(backend=backend):
                warnings.simplefilter("ignore")
                func(sr_file, append=(i > 0) or first_append, **out, **kwargs)
    except Exception as e:  # noqa
        exc = type(e)
        if os.environ.get("DEMO_VERBOSE"):
            print(f"    {func.__name__}: {type(e).__name__}: {str(e)[:150]}", flush=True)
    finally:
        voltage.detect_bad_channels_cbin, globals()["detect_bad_channels_cbin"] = saved
    snap = snapshot(folder)
    shutil.rmtree(folder)
    return exc, snap


def describe(a, b, name):
    if name.endswith(".npy"):
        try:
            xa, xb = np.load(io.BytesIO(a)), np.load(io.BytesIO(b))
            return f"{name}: {xa.dtype}{xa.shape} vs {xb.dtype}{xb.shape}, {np.sum(xa != xb) if xa.shape == xb.shape else '?'} differ"
        except Exception:  # noqa
            pass
    return f"{name}: {len(a)} vs {len(b)} bytes, first difference at byte " \
           f"{next((i for i, (x, y) in enumerate(zip(a, b)) if x != y), min(len(a), len(b)))}"


N_CASES = 0
FAILURES = []
STATS = {"exceptions": {}, "multi": 0, "threads": 0, "processes": 0, "append": 0, "cbin": 0, "saturated": 0, "labels": 0}


def conflict_free(ns, nbatch, nprocesses):
    """
    True if no worker raises and no two workers write different bytes at the same place.  Batch k always covers the
    samples [k * stride, k * stride + nbatch) and is computed in the same way by whichever worker runs it, but a
    worker that starts after the batch reaching the end of the recording (or after the end of the recording) writes
    over the tail of the file something else (or raises): the output then depends on which worker comes last, for
    the original code as well.  Those runs are only compared with the workers run one after the other
    """
    stride, chunk_size = nbatch - 2048, int(ns / nprocesses)
    k_last = next(k for k in range(ns + 1) if k * stride + nbatch >= ns)
    return all(int(np.ceil(i * chunk_size / nbatch)) <= k_last for i in range(nprocesses)) and chunk_size > 0


def check(tag, inputs, kwargs, labels=None, backend="sequential", default_output=False, expect_size=None):
    """
    Runs the reference and the refactored function on the same inputs and compares what they raise and write.
    backend: how joblib runs the workers.  "sequential" runs them one after the other in this process, which makes
    the outcome reproducible even when two workers write over each other or when one of them raises; "threading" and
    "loky" (processes) run them concurrently
    """
    global N_CASES
    N_CASES += 1
    if os.environ.get("DEMO_VERBOSE"):
        print(f"{time.time():.1f} {tag} {[f.parent.name for f in inputs]} { {k: v for k, v in kwargs.items() if k not in ('wrot', 'h')} }", flush=True)
    folder = SCRATCH / "out"
    res_ref = run_one(reference_decompress_destripe_cbin, inputs, folder / "ref", kwargs, labels, backend, default_output)
    res_new = run_one(voltage.decompress_destripe_cbin, inputs, folder / "new", kwargs, labels, backend, default_output)
    (exc_ref, snap_ref), (exc_new, snap_new) = res_ref, res_new
    msg = []
    if exc_ref is not exc_new:
        msg.append(f"exception {exc_ref} vs {exc_new}")
    if exc_ref is not None and backend != "sequential":
        # when a worker raises, joblib stops the other workers wherever they are: what is left on disk depends on the
        # scheduling (for the original code as well) so that only the exception type can be compared
        snap_ref = snap_new = {}
    if sorted(snap_ref) != sorted(snap_new):
        msg.append(f"files written {sorted(snap_ref)} vs {sorted(snap_new)}")
    for name in sorted(set(snap_ref) & set(snap_new)):
        if snap_ref[name] != snap_new[name]:
            msg.append(describe(snap_ref[name], snap_new[name], name))
    if exc_ref is None and expect_size is not None:
        # sanity of the harness itself: the reference wrote a file of the expected size
        size = len(snap_ref.get("out.bin", snap_ref.get(inputs[0].with_suffix(".bin").name, b"")))
        if size != expect_size:
            msg.append(f"harness: reference output has {size} bytes, expected {expect_size}")
    if msg:
        FAILURES.append(f"[{tag}] {kwargs} -> " + "; ".join(msg))
    # book keeping for the final report
    if exc_ref is not None:
        STATS["exceptions"][exc_ref.__name__] = STATS["exceptions"].get(exc_ref.__name__, 0) + 1
    STATS["multi"] += int((kwargs.get("nprocesses") or 2) > 1)
    STATS["threads"] += int(backend == "threading" and (kwargs.get("nprocesses") or 2) > 1)
    STATS["processes"] += int(backend == "loky" and (kwargs.get("nprocesses") or 2) > 1)
    STATS["append"] += int(len(inputs) > 1)
    STATS["cbin"] += int(inputs[0].suffix == ".cbin")
    STATS["labels"] += int(labels is not None)
    sat = [k for k in snap_ref if k.endswith("ephysSaturation.samples.npy")]
    if exc_ref is None and sat:
        STATS["saturated"] += int(np.load(io.BytesIO(snap_ref[sat[0]])).any())
    return exc_ref


def random_options(rng, ncv, nc, ns, allow_reject=True):
    """Draws the optional arguments of decompress_destripe_cbin"""
    kw = {}
    # the batch stride is nbatch - 2048: keeps the number of batches of a run small
    nbatch_min = 2049 + ns // 10
    kw["nbatch"] = int(rng.choice([nbatch_min, max(nbatch_min, 3000), max(nbatch_min, 3072), 4096,
                                   int(rng.integers(nbatch_min, max(nbatch_min, min(ns + 600, 5200)) + 1))]))
    kw["nprocesses"] = int(rng.choice(np.arange(1, 9), p=[0.3, 0.2, 0.14, 0.1, 0.08, 0.06, 0.06, 0.06]))
    kw["compute_rms"] = bool(rng.random() < 0.85)
    kw["k_filter"] = bool(rng.random() < 0.6)
    kw["k_kwargs"] = {"ntr_pad": int(rng.integers(4, max(5, min(ncv // 2, 60) + 1))), "ntr_tap": int(rng.integers(0, 4)),
                      "lagc": [None, 300, 3000][int(rng.integers(3))],
                      "butter_kwargs": {"N": 3, "Wn": 0.01, "btype": "highpass"}} if (rng.random() < 0.8 or ncv < 60) else None
    kw["reject_channels"] = bool(allow_reject and rng.random() < 0.4)
    if rng.random() < 0.3:
        kw["ns2add"] = int(rng.integers(1, 700))
    if rng.random() < 0.4:
        kw["wrot"] = [float(rng.uniform(0.2, 3)), rng.normal(size=(ncv, ncv)) / np.sqrt(ncv),
                      np.eye(ncv) * 1.5][int(rng.integers(3))]
    if rng.random() < 0.3:
        kw["nc_out"] = int(rng.choice([nc, ncv, max(1, ncv // 2), 1]))
    if rng.random() < 0.2:
        kw["dtype"] = [np.int16, np.float32, np.int32, np.float64][int(rng.integers(4))]
    if rng.random() < 0.2:
        kw["butter_kwargs"] = {"N": int(rng.integers(1, 5)), "Wn": float(rng.uniform(0.01, 0.2)), "btype": "highpass"}
    if rng.random() < 0.15:
        kw["reader_kwargs"] = {"sort": False}
    if rng.random() < 0.15 and kw["compute_rms"]:
        kw["qc_elsewhere"] = True
    return kw


def expected_bytes(ns, nc, kw):
    return (ns + kw.get("ns2add", 0)) * (kw.get("nc_out") or nc) * np.dtype(kw.get("dtype", np.int16)).itemsize


def main():
    t_start = time.time()
    rng = np.random.default_rng(20240606)
    contents = ["noise", "saturated", "mixed", "dead", "edges", "slew", "zeros"]

    # ---- 1. small recordings (few channels): lengths x batch sizes x worker counts x options
    recordings = []
    for i in range(28):
        n_ap = int(rng.choice([12, 16, 24, 33, 64], p=[0.4, 0.3, 0.15, 0.1, 0.05]))
        # lengths around the batch seams: 1 batch, just above, many batches, short last batch
        ns = int(rng.choice([2049, 2050, 2600, 3000, 3072, 4096, 4097, 5000, 6001, int(rng.integers(2049, 7000))]))
        fixture = [META_3B, META_NP21, META_GEOM][i % 3]
        bin_file, data = make_recording(SCRATCH / f"rec{i:02d}", fixture, n_ap, ns, rng, contents[i % len(contents)])
        recordings.append((bin_file, data, n_ap, ns))
    for i, (bin_file, data, ncv, ns) in enumerate(recordings):
        for j in range(7):
            kw = random_options(rng, ncv, ncv + 1, ns)
            labels = None
            if kw["reject_channels"] and rng.random() < 0.85:
                labels = rng.choice([0, 0, 0, 1, 2], size=ncv).astype(float)
                if rng.random() < 0.7:  # outside of the brain: the top of the probe, or scattered channels
                    n_out = int(rng.integers(1, ncv // 3 + 1))
                    labels[-n_out:] = 3
                    if rng.random() < 0.3:
                        labels = rng.permutation(labels)
                if rng.random() < 0.06:
                    labels[:] = [0, 3][int(rng.integers(2))]
            check(f"small/{i}/{j}", [bin_file], kw, labels=labels, expect_size=expected_bytes(ns, ncv + 1, kw))

    # ---- 2. worker boundaries at every position relative to the batch seams: one recording, all worker counts
    bin_file, data, ncv, ns = recordings[3]
    for nbatch in (2049 + ns // 8, 2049 + ns // 3, ns - 1, ns, ns + 1):
        for nprocesses in range(1, 9):
            kw = {"nbatch": nbatch, "nprocesses": nprocesses, "reject_channels": False, "k_filter": False}
            check(f"workers/{nbatch}/{nprocesses}", [bin_file], kw, expect_size=expected_bytes(ns, ncv + 1, kw))

    # ---- 2b. workers running concurrently (threads): recordings without saturation, no conflicting writes
    quiet = [r for i, r in enumerate(recordings) if contents[i % len(contents)] in ("noise", "zeros")]
    n_done = 0
    for _ in range(400):
        bin_file, data, ncv, ns = quiet[int(rng.integers(len(quiet)))]
        kw = random_options(rng, ncv, ncv + 1, ns, allow_reject=False)
        kw["nprocesses"] = int(rng.integers(2, 9))
        if n_done < 16 and conflict_free(ns, kw["nbatch"], kw["nprocesses"]):
            check(f"threads/{n_done}", [bin_file], kw, backend="threading", expect_size=expected_bytes(ns, ncv + 1, kw))
            n_done += 1

    # ---- 3. append mode: a second (and third) run concatenated to the first one
    for i in range(12):
        inputs = [recordings[int(k)][0] for k in rng.choice(len(recordings), size=int(rng.integers(2, 4)))]
        ncvs = {recordings[[r[0] for r in recordings].index(f)][2] for f in inputs}
        if len(ncvs) > 1:  # appending needs the same channel count
            inputs = [inputs[0]] * len(inputs)
        _, _, ncv, ns = recordings[[r[0] for r in recordings].index(inputs[0])]
        kw = random_options(rng, ncv, ncv + 1, ns, allow_reject=False)
        kw.pop("qc_elsewhere", None)
        check(f"append/{i}", inputs, kw)

    # ---- 4. inputs on which the function raises: the exception type and the files left behind must match
    bin_file, data, ncv, ns = recordings[0]
    for nbatch in (1, 1000, 2047, 2048):
        check(f"raise/nbatch{nbatch}", [bin_file], {"nbatch": nbatch, "nprocesses": 1, "reject_channels": False})
    check("raise/append-without-files", [bin_file], {"nbatch": 3000, "nprocesses": 1, "append": True, "reject_channels": False})
    check("raise/append-without-files-norms", [bin_file],
          {"nbatch": 3000, "nprocesses": 2, "append": True, "compute_rms": False, "reject_channels": False})
    check("raise/wrot-shape", [bin_file], {"nbatch": 3000, "nprocesses": 1, "reject_channels": False, "wrot": np.eye(ncv + 3)})
    check("raise/labels-shape", [bin_file], {"nbatch": 3000, "nprocesses": 1, "reject_channels": True}, labels=np.zeros(ncv + 2))
    check("raise/bad-butter", [bin_file], {"nbatch": 3000, "nprocesses": 1, "reject_channels": False,
                                           "butter_kwargs": {"N": 3, "Wn": 2.0, "btype": "highpass"}})
    for k in range(6):  # a last batch shorter than the taper
        nbatch = int(rng.integers(2049, 3500))
        stride = nbatch - 2048
        n_ap = 12
        ns_short = nbatch + stride * int(rng.integers(0, 3)) + int(rng.integers(1, min(stride, 1023) + 1))
        bf, _ = make_recording(SCRATCH / f"short{k}", META_3B, n_ap, ns_short, rng, "noise")
        check(f"raise/short-last-batch/{k}", [bf], {"nbatch": nbatch, "nprocesses": int(rng.integers(1, 4)),
                                                   "reject_channels": False, "k_filter": False})
    for k, ns_tiny in enumerate((1, 2, 500, 1023, 1024, 1025, 2047, 2048)):  # recordings shorter than a batch
        bf, _ = make_recording(SCRATCH / f"tiny{k}", META_3B, 12, ns_tiny, rng, "noise")
        check(f"tiny/{ns_tiny}", [bf], {"nbatch": 2500, "nprocesses": 1 + k % 2, "reject_channels": False, "k_filter": bool(k % 2),
                                        "k_kwargs": {"ntr_pad": 4, "ntr_tap": 0, "lagc": 300,
                                                     "butter_kwargs": {"N": 3, "Wn": 0.01, "btype": "highpass"}}})

    # ---- 5. user supplied trace header: fewer channels than the file holds, the others are carried over like the sync
    for i in range(10):
        bin_file, data, ncv, ns = recordings[int(rng.integers(len(recordings)))]
        geometry = spikeglx.Reader(bin_file).geometry
        n_h = int(rng.integers(12, ncv + 1))
        h = {k: v[:n_h].copy() for k, v in geometry.items()}
        h["sample_shift"] = rng.uniform(0, 1, size=n_h)
        kw = random_options(rng, n_h, ncv + 1, ns, allow_reject=False)
        kw["h"] = h
        check(f"header/{i}", [bin_file], kw, expect_size=expected_bytes(ns, ncv + 1, kw))

    # ---- 6. compressed (mtscomp) inputs, default output file next to the input, real worker processes
    for i in range(12):
        bin_file, data, ncv, ns = recordings[int(rng.integers(len(recordings)))]
        cbin = compress_recording(bin_file, rng)
        kw = random_options(rng, ncv, ncv + 1, ns)
        kw.pop("qc_elsewhere", None)
        check(f"cbin/{i}", [cbin], kw, default_output=bool(i < 6), expect_size=expected_bytes(ns, ncv + 1, kw))
        shutil.rmtree(cbin.parent)
    # worker processes: a compressed and a flat recording without saturation, no conflicting writes
    bin_file, data, ncv, ns = max(quiet, key=lambda r: r[3])
    for i, nprocesses in enumerate((3, 2)):
        kw = {"nbatch": 2049 + ns // 4, "nprocesses": nprocesses, "reject_channels": False, "k_filter": bool(i), "ns2add": 33 * i,
              "k_kwargs": {"ntr_pad": 4, "ntr_tap": 0, "lagc": 300, "butter_kwargs": {"N": 3, "Wn": 0.01, "btype": "highpass"}}}
        assert conflict_free(ns, kw["nbatch"], nprocesses)
        sr_file = compress_recording(bin_file, rng) if i == 0 else bin_file
        check(f"processes/{i}", [sr_file], kw, backend="loky", expect_size=expected_bytes(ns, ncv + 1, kw))

    # ---- 7. full size probes (384 channels + sync), default parameters, automatic bad channels detection
    for i, (fixture, content) in enumerate([(META_3B, "mixed"), (META_NP21, "saturated")]):
        ns = int(rng.integers(2400, 3000))
        bin_file, data = make_recording(SCRATCH / f"full{i}", fixture, None, ns, rng, content)
        nc = data.shape[1]
        for kw in ({"nbatch": 3000, "nprocesses": 1 + i, "reject_channels": True},
                   {"nbatch": 2300, "nprocesses": 2 - i, "reject_channels": False, "k_filter": bool(i % 2), "ns2add": 77})[:2 - i]:
            check(f"full/{i}", [bin_file], kw, expect_size=expected_bytes(ns, nc, kw))
        shutil.rmtree(bin_file.parent)

    shutil.rmtree(SCRATCH, ignore_errors=True)
    print(f"{N_CASES} cases in {time.time() - t_start:.0f} s: {STATS}")
    if FAILURES:
        print(f"{len(FAILURES)} MISMATCHES between the reference and the refactored decompress_destripe_cbin:")
        for f in FAILURES[:20]:
            print("  " + f)
        return 1
    print("reference and refactored decompress_destripe_cbin are identical on every case")
    return 0


if __name__ == "__main__":
    try:
        code = main()
    except Exception:  # noqa
        traceback.print_exc()
        print("demo.py failed to run")
        code = 1
    sys.exit(code)
