import sys, os; sys.path.insert(0, os.path.join(os.path.dirname(os.path.abspath(__file__)), "src"))
"""
C06 - chunked destripe-to-file: the sync channel has to be copied bit for bit, for any worker count,
whatever the contents of the recording - including stretches where the amplifiers saturate.

The recording built here has a quiet background and two short stretches where all channels sit at
the rail (so the samples are flagged as saturated and the traces get muted).  The sync word is random.
Oracle (plain NumPy, from the definition):
  - the output has exactly ns rows of nc int16
  - column nc-1 of the output is the sync column of the source, bit for bit
  - the voltage traces are zero on the saturated samples (the mute applies to them, and only to them)
  - the output is the same with 1 and 3 worker processes
"""
import shutil
import tempfile
from pathlib import Path

import numpy as np

HERE = Path(os.path.dirname(os.path.abspath(__file__)))
TMP = Path(tempfile.mkdtemp(prefix="c06_demo_"))

# tiny NumPy stand-in for pyfftw (not installed here), importable from the joblib workers as well
STUB = TMP / "stub"
STUB.mkdir()
STUB.joinpath("pyfftw.py").write_text(
    "import numpy as np\n"
    "def empty_aligned(shape, dtype):\n"
    "    return np.empty(shape, dtype=dtype)\n"
    "class FFTW:\n"
    "    def __init__(self, a, b, axes=(-1,), direction='FFTW_FORWARD', threads=1):\n"
    "        self.b, self.ax, self.fwd = b, axes[0], direction == 'FFTW_FORWARD'\n"
    "    def __call__(self, x):\n"
    "        if self.fwd:\n"
    "            return np.fft.rfft(x, axis=self.ax)\n"
    "        return np.fft.irfft(x, n=self.b.shape[self.ax], axis=self.ax)\n"
)
sys.path.insert(1, str(STUB))
os.environ["PYTHONPATH"] = os.pathsep.join(
    [str(HERE / "src"), str(STUB)] + [p for p in os.environ.get("PYTHONPATH", "").split(os.pathsep) if p])

import spikeglx  # noqa
from ibldsp import voltage  # noqa

META = HERE / "src" / "tests" / "fixtures" / "sample3B_g0_t0.imec1.ap.meta"
NS, NC, NBATCH = 12000, 385, 4096
SATURATED = [(5000, 5120), (9300, 9340)]  # away from the ends; the first one ends on a batch seam


def make_recording(folder, saturated):
    rng = np.random.default_rng(42)
    bin_file = folder / "rec.ap.bin"
    spikeglx._mock_spikeglx_file(bin_file, META, ns=NS, nc=NC, sync_depth=16)
    D = rng.integers(-20, 21, size=(NS, NC)).astype(np.int16)  # ~ +/- 50 uV background
    for a, b in saturated:
        D[a:b, :-1] = 511  # 10 bits probe: all channels at the rail
    D[:, -1] = rng.integers(0, 2 ** 15, NS)  # sync word
    D.tofile(bin_file)
    return bin_file, D


def destripe_to_file(saturated, nprocesses):
    folder = Path(tempfile.mkdtemp(dir=TMP))
    bin_file, D = make_recording(folder, saturated)
    out_file = folder / "destriped.bin"
    voltage.decompress_destripe_cbin(
        bin_file, output_file=out_file, nbatch=NBATCH, nprocesses=nprocesses,
        reject_channels=False, k_filter=False)
    raw = np.fromfile(out_file, dtype=np.int16)
    sat = np.load(folder / "_iblqc_ephysSaturation.samples.npy")
    return D, raw, sat


def check(label, saturated, nprocesses):
    problems = []
    D, raw, sat = destripe_to_file(saturated, nprocesses)
    if raw.size != NS * NC:
        return None, [f"{label}: output has {raw.size / NC} samples, expected {NS}"]
    out = raw.reshape(NS, NC)
    # definition of the saturated samples: more than 20% of the channels above 98% of the range
    is_sat = np.mean(np.abs(D[:, :-1].astype(np.int32)) > 0.98 * 512, axis=1) > 0.2
    bad = np.where(out[:, -1] != D[:, -1])[0]
    if bad.size:
        problems.append(
            f"{label}: sync channel differs from the source at {bad.size} samples "
            f"(first {bad[0]}, last {bad[-1]}; {np.sum(is_sat[bad])} of them on saturated samples), "
            f"e.g. sample {bad[0]}: source {D[bad[0], -1]} -> file {out[bad[0], -1]}")
    if not np.all(out[is_sat, :-1] == 0):
        problems.append(f"{label}: voltage traces are not muted on the saturated samples")
    if sat.size != NS or not np.all(sat[is_sat]):
        problems.append(f"{label}: saturation file does not flag the saturated samples")
    return out, problems


try:
    problems = []
    _, p = check("no saturation, 2 workers", [], 2)
    problems += p
    out1, p = check("saturated stretches, 1 worker", SATURATED, 1)
    problems += p
    out3, p = check("saturated stretches, 3 workers", SATURATED, 3)
    problems += p
    if out1 is not None and out3 is not None and not np.array_equal(out1, out3):
        problems.append("output differs between 1 and 3 workers")
finally:
    shutil.rmtree(TMP, ignore_errors=True)

if problems:
    print("C06 VIOLATED")
    for p in problems:
        print(" -", p)
    sys.exit(1)
print("C06 holds: sync copied bit for bit, traces muted on saturated samples, same output for 1 and 3 workers")
sys.exit(0)
