import sys, os; sys.path.insert(0, os.path.join(os.path.dirname(os.path.abspath(__file__)), "src"))
"""
C06 - chunked destripe-to-file writes every sample exactly once, for any worker count.

Builds a small flat-binary recording (384 traces + 1 sync word, no external data), destripes it to disk with
1 and with 4 workers, and checks against the definition:
  * the output holds exactly ns (+ ns2add) samples of nc channels,
  * the sync column of the output is the sync column of the input, bit for bit,
  * the result does not depend on the number of workers,
  * the RMS / timestamps files hold one row per batch, the saturation file one entry per sample.
Exits 1 and says what is wrong if any of those fails, 0 otherwise.
"""
import tempfile
import textwrap
from pathlib import Path

import numpy as np

# --- pyfftw is not installed here: tiny NumPy stand-in, importable by this process and by any worker process
_stub_dir = tempfile.mkdtemp(prefix="pyfftw_stub_")
Path(_stub_dir, "pyfftw.py").write_text(textwrap.dedent('''
    import numpy as np


    def empty_aligned(shape, dtype="float32", **kwargs):
        return np.empty(shape, dtype=dtype)


    class FFTW:
        def __init__(self, a, b, axes=(-1,), direction="FFTW_FORWARD", threads=1, **kwargs):
            self.axis, self.forward = axes[0], direction == "FFTW_FORWARD"
            self.n, self.dtype = b.shape[axes[0]], b.dtype

        def __call__(self, x):
            if self.forward:
                return np.fft.rfft(x, axis=self.axis).astype(self.dtype)
            return np.fft.irfft(x, n=self.n, axis=self.axis).astype(self.dtype)
'''))
sys.path.insert(1, _stub_dir)
os.environ["PYTHONPATH"] = os.pathsep.join([sys.path[0], _stub_dir, os.environ.get("PYTHONPATH", "")])

import joblib  # noqa: E402
import spikeglx  # noqa: E402
from ibldsp import voltage  # noqa: E402

NC, NCV = 385, 384
NBATCH, TAPER = 8192, 1024  # the taper length is fixed in the library
STRIDE = NBATCH - 2 * TAPER
FS = 30000


def make_recording(folder, ns, seed):
    """int16 flat binary [ns, 385]: band-limited noise on the traces, a random 16 bit word on the sync channel"""
    rng = np.random.default_rng(seed)
    data = np.empty((ns, NC), dtype=np.int16)
    data[:, :NCV] = rng.normal(0, 40, size=(ns, NCV)).astype(np.int16)
    data[:, NCV] = rng.integers(0, 2 ** 15, size=ns).astype(np.int16)
    file_bin = Path(folder).joinpath("rec.ap.bin")
    data.tofile(file_bin)
    return file_bin, data


def n_batches(ns):
    """definition: batches start every STRIDE samples, the last one is the first to reach the end of the file"""
    return 1 if ns <= NBATCH else int(np.ceil((ns - NBATCH) / STRIDE)) + 1


def run(file_bin, ns, nprocesses, ns2add):
    out_dir = Path(tempfile.mkdtemp(prefix=f"destripe_{nprocesses}w_", dir=file_bin.parent))
    out = out_dir.joinpath("out.bin")
    # threads rather than processes: same fan-out, same code path, no dependency on how worker processes get spawned
    with joblib.parallel_config(backend="threading"):
        voltage.decompress_destripe_cbin(
            file_bin, output_file=out, nbatch=NBATCH, nprocesses=nprocesses, ns2add=ns2add,
            reject_channels=False, k_filter=False, compute_rms=True,
            reader_kwargs=dict(nc=NC, ns=ns, fs=FS, nsync=1),
        )
    return out_dir, out


def check(ns, workers=(1, 4), ns2add=7):
    problems = []
    with tempfile.TemporaryDirectory() as td:
        file_bin, data = make_recording(td, ns, seed=ns)
        outputs = {}
        for nw in workers:
            out_dir, out = run(file_bin, ns, nw, ns2add)
            tag = f"ns={ns} workers={nw}"
            nbytes = out.stat().st_size
            expected = (ns + ns2add) * NC * 2
            if nbytes != expected:
                problems.append(f"{tag}: output holds {nbytes / NC / 2:g} samples, expected {ns} + {ns2add} padding "
                                f"({(expected - nbytes) // (NC * 2)} samples were never written)")
            raw = np.fromfile(out, dtype=np.int16)
            raw = raw[: raw.size // NC * NC].reshape(-1, NC)
            outputs[nw] = raw
            n = min(raw.shape[0], ns)
            if raw.shape[0] < ns or not np.array_equal(raw[:n, NCV], data[:n, NCV]):
                nbad = int(np.sum(raw[:n, NCV] != data[:n, NCV])) + (ns - n)
                problems.append(f"{tag}: sync channel not copied bit for bit ({nbad} of {ns} sync samples wrong or missing)")
            elif ns2add and not np.all(raw[ns:, :] == raw[ns - 1, :]):
                problems.append(f"{tag}: the padding is not a copy of the last sample")
            rms = np.load(out_dir.joinpath("_iblqc_ephysTimeRmsAP.rms.npy"))
            tim = np.load(out_dir.joinpath("_iblqc_ephysTimeRmsAP.timestamps.npy"))
            sat = np.load(out_dir.joinpath("_iblqc_ephysSaturation.samples.npy"))
            if rms.shape != (n_batches(ns), NCV) or tim.shape != (n_batches(ns),):
                problems.append(f"{tag}: rms {rms.shape} / timestamps {tim.shape}, expected one row for each of the "
                                f"{n_batches(ns)} batches")
            if sat.shape != (ns,):
                problems.append(f"{tag}: saturation file has {sat.shape} entries for {ns} samples")
        ref = outputs[workers[0]]
        for nw in workers[1:]:
            if outputs[nw].shape != ref.shape or not np.array_equal(outputs[nw], ref):
                problems.append(f"ns={ns}: output with {nw} workers differs from output with {workers[0]} worker(s): "
                                f"shapes {outputs[nw].shape} vs {ref.shape}")
    return problems


if __name__ == "__main__":
    problems = []
    # recording lengths around the point where a batch ends right before the end of the file
    for ns in (2 * STRIDE + NBATCH - 3, 2 * STRIDE + NBATCH, 2 * STRIDE + NBATCH + 1, 2 * STRIDE + NBATCH + 3):
        problems += check(ns)
    if problems:
        print("C06 VIOLATED:")
        for p in problems:
            print("  -", p)
        sys.exit(1)
    print("C06 holds on the inputs tried: every sample written once, sync intact, identical for 1 and 4 workers")
    sys.exit(0)
