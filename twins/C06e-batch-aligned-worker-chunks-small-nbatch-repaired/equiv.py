import sys, os; sys.path.insert(0, os.path.join(os.path.dirname(os.path.abspath(__file__)), "src"))
"""
C06 - chunked destripe-to-file writes every sample exactly once, for any worker count.

Destripes a small synthetic recording to disk with 1, 2 and 3 worker processes and a small (admissible)
batch size, and checks the output against the definition:
  - the file holds ns samples of nc channels
  - the sync column is the input sync column, bit for bit
  - the file is byte-identical whatever the number of workers
  - the file equals a batch-wise in-memory destriping written here in plain NumPy / SciPy
    (batch stride NBATCH - 2 * 1024, saved range [1024, NBATCH - 1024), first batch from 0, last batch to the end)
  - one RMS / timestamp entry per batch, one saturation entry per sample
Exits 1 and says what is wrong if any of those fails, 0 otherwise.
"""
import shutil
import tempfile
from pathlib import Path

import numpy as np
import scipy.signal

HERE = Path(os.path.dirname(os.path.abspath(__file__)))
SRC = HERE.joinpath("src")
TAPER = 1024

PYFFTW_STUB = '''
import numpy as np


def empty_aligned(shape, dtype="float32", **kwargs):
    return np.empty(shape, dtype=dtype)


class FFTW:
    def __init__(self, a, b, axes=(-1,), direction="FFTW_FORWARD", threads=1, **kwargs):
        self.axis = axes[0]
        self.n = b.shape[self.axis]
        self.dtype = b.dtype
        self.forward = direction == "FFTW_FORWARD"

    def __call__(self, x):
        if self.forward:
            return np.fft.rfft(x, axis=self.axis).astype(self.dtype)
        return np.fft.irfft(x, n=self.n, axis=self.axis).astype(self.dtype)
'''


def oracle(raw, s2v, sample_shift, fs, nbatch):
    """Batch-wise in memory destriping (high-pass, sub-sample shift, median car), from the definition"""
    ns, nc = raw.shape
    ncv = sample_shift.size
    stride = nbatch - 2 * TAPER
    sos = scipy.signal.butter(N=3, Wn=300 / fs * 2, btype="highpass", output="sos")
    taper = np.r_[0, scipy.signal.windows.cosine((TAPER - 1) * 2), 0]
    out = np.zeros((ns, nc), dtype=np.int16)
    written = np.zeros(ns, dtype=int)
    nbatches = 0
    first = 0
    while True:
        last = min(first + nbatch, ns)
        x = raw[first:last, :ncv].T.astype(np.float64) * s2v[:ncv, np.newaxis]
        x[:, :TAPER] *= taper[:TAPER]
        x[:, -TAPER:] *= taper[TAPER:]
        x = scipy.signal.sosfiltfilt(sos, x)
        n = x.shape[1]
        phase = np.exp(-2j * np.pi * np.fft.rfftfreq(n)[np.newaxis, :] * sample_shift[:, np.newaxis])
        x = np.fft.irfft(np.fft.rfft(x, axis=1) * phase, n=n, axis=1)
        x = x - np.median(x, axis=0)
        i0 = 0 if first == 0 else TAPER
        i1 = n if last == ns else nbatch - TAPER
        out[first + i0:first + i1, :ncv] = (x[:, i0:i1].T / s2v[np.newaxis, :ncv]).astype(np.int16)
        written[first + i0:first + i1] += 1
        nbatches += 1
        if last == ns:
            break
        first += stride
    assert np.all(written == 1)
    out[:, ncv:] = raw[:, ncv:]
    return out, nbatches


def main():
    tmp = Path(tempfile.mkdtemp(prefix="c06_demo_"))
    errors = []
    try:
        # numpy stand-in for pyfftw, also visible from the joblib worker processes
        stubs = tmp.joinpath("stubs")
        stubs.mkdir()
        stubs.joinpath("pyfftw.py").write_text(PYFFTW_STUB)
        sys.path.insert(1, str(stubs))
        os.environ["PYTHONPATH"] = os.pathsep.join([str(SRC), str(stubs), os.environ.get("PYTHONPATH", "")])
        import spikeglx
        from ibldsp import voltage

        assert Path(spikeglx.__file__).parent == SRC, spikeglx.__file__
        assert Path(voltage.__file__).parent.parent == SRC, voltage.__file__

        ns, nc, nbatch = 21000, 385, 4096
        rng = np.random.default_rng(6)
        t = np.arange(ns)[:, np.newaxis]
        # smooth oscillations + noise, well away from the saturation criteria (amplitude and slope)
        raw = (
            400 * np.sin(2 * np.pi * t / 1500 + np.linspace(0, 3, nc)[np.newaxis, :])
            + 120 * np.sin(2 * np.pi * t / 37 + np.linspace(0, 9, nc)[np.newaxis, :])
            + rng.normal(0, 25, size=(ns, nc))
        ).astype(np.int16)
        raw[:, -1] = rng.integers(0, 2 ** 15, size=ns).astype(np.int16)  # sync words
        meta = SRC.joinpath("tests", "fixtures", "sample3A_g0_t0.imec.ap.meta")
        bin_file = tmp.joinpath("rec", "demo_g0_t0.imec.ap.bin")
        bin_file.parent.mkdir()
        spikeglx._mock_spikeglx_file(bin_file, meta, ns=ns, nc=nc, sync_depth=16)
        raw.tofile(bin_file)

        sr = spikeglx.Reader(bin_file)
        s2v = np.array(sr.sample2volts, dtype=np.float64)
        h = sr.geometry
        fs = sr.fs
        assert np.array_equal(sr._raw[:, :], raw)
        sr.close()
        expected, nbatches = oracle(raw, s2v, np.asarray(h["sample_shift"], dtype=np.float64), fs, nbatch)

        outputs = {}
        for nproc in (1, 2, 3):
            out_dir = tmp.joinpath(f"out{nproc}")
            out_dir.mkdir()
            out_file = out_dir.joinpath("destriped.bin")
            voltage.decompress_destripe_cbin(
                bin_file, output_file=out_file, nbatch=nbatch, nprocesses=nproc,
                reject_channels=False, k_filter=False, compute_rms=True,
            )
            nbytes = out_file.stat().st_size
            if nbytes != ns * nc * 2:
                errors.append(f"nprocesses={nproc}: output has {nbytes} bytes, expected {ns * nc * 2} ({ns} samples)")
                continue
            d = np.fromfile(out_file, dtype=np.int16).reshape(ns, nc)
            outputs[nproc] = d
            if not np.array_equal(d[:, -1], raw[:, -1]):
                bad = np.where(d[:, -1] != raw[:, -1])[0]
                errors.append(f"nprocesses={nproc}: sync column differs from the input at {bad.size} samples, "
                              f"[{bad[0]}, {bad[-1]}]")
            diff = np.abs(d[:, :-1].astype(np.int32) - expected[:, :-1].astype(np.int32)).max(axis=1)
            bad = np.where(diff > 2)[0]
            if bad.size:
                errors.append(f"nprocesses={nproc}: {bad.size} samples differ from the in-memory batch-wise destriping, "
                              f"samples [{bad[0]}, {bad[-1]}], max abs difference {diff.max()} counts; "
                              f"{int(np.sum(~np.any(d[bad, :], axis=1)))} of them were never written (all zeros)")
            rms = np.load(out_dir.joinpath("_iblqc_ephysTimeRmsAP.rms.npy"))
            tim = np.load(out_dir.joinpath("_iblqc_ephysTimeRmsAP.timestamps.npy"))
            sat = np.load(out_dir.joinpath("_iblqc_ephysSaturation.samples.npy"))
            if rms.shape[0] != nbatches or tim.shape[0] != nbatches:
                errors.append(f"nprocesses={nproc}: {rms.shape[0]} rms / {tim.shape[0]} timestamps entries for {nbatches} batches")
            elif np.any(rms == 0) or np.any(np.diff(tim) <= 0):
                errors.append(f"nprocesses={nproc}: rms / timestamps entries are not one per batch in order")
            if sat.shape[0] != ns:
                errors.append(f"nprocesses={nproc}: saturation file has {sat.shape[0]} entries for {ns} samples")
        for nproc in outputs:
            if nproc != 1 and 1 in outputs and not np.array_equal(outputs[1], outputs[nproc]):
                bad = np.where(np.any(outputs[1] != outputs[nproc], axis=1))[0]
                errors.append(f"output with {nproc} workers is not byte-identical to the output with 1 worker: "
                              f"{bad.size} samples differ, [{bad[0]}, {bad[-1]}]")
    finally:
        shutil.rmtree(tmp, ignore_errors=True)
    if errors:
        print("C06 VIOLATED: destripe-to-file does not write every sample exactly once for any worker count")
        for e in errors:
            print("  - " + e)
        return 1
    print("C06 holds: sample count, sync column, worker-count independence, batch-wise oracle, qc files all as expected")
    return 0


if __name__ == "__main__":
    sys.exit(main())
