import sys, os; sys.path.insert(0, os.path.join(os.path.dirname(os.path.abspath(__file__)), "src"))
"""
C06 - chunked destripe-to-file: every batch is processed once, whatever the number of worker processes.

Destripes a short mock recording to disk with 1 and 8 worker processes and checks, against
the definition of the batching (stride NBATCH - 2 * taper, the batch that reaches the end of the
recording is the last one):
  - the size of the output and the sync column (bit for bit against the source)
  - the output of the N workers runs against the single worker run (byte identical)
  - the output against a batch-wise in-memory destriping
  - the QC files: one saturation flag per sample, one rms row / timestamp per batch
"""
import shutil
import tempfile
from pathlib import Path

import numpy as np
import scipy.signal

HERE = Path(os.path.dirname(os.path.abspath(__file__)))
SRC = HERE.joinpath("src")
TMP = Path(tempfile.mkdtemp(prefix="c06_demo_", dir=str(HERE.joinpath(".tmp")) if HERE.joinpath(".tmp").is_dir() else None))

# --- numpy stand-in for pyfftw, importable from here and from the joblib worker processes
TMP.joinpath("stub").mkdir()
TMP.joinpath("stub", "pyfftw.py").write_text('''
import numpy as np


def empty_aligned(shape, dtype="float32", **kwargs):
    return np.empty(shape, dtype=dtype)


class FFTW:
    def __init__(self, a, b, axes=(-1,), direction="FFTW_FORWARD", threads=1, **kwargs):
        self.axis, self.forward = axes[0], direction == "FFTW_FORWARD"
        self.n, self.dtype = b.shape[axes[0]], b.dtype

    def __call__(self, x):
        if self.forward:
            return np.fft.rfft(x, axis=self.axis).astype(self.dtype)
        return np.fft.irfft(x, n=self.n, axis=self.axis).astype(self.dtype)
''')
sys.path.insert(1, str(TMP.joinpath("stub")))
os.environ["PYTHONPATH"] = os.pathsep.join([str(SRC), str(TMP.joinpath("stub"))])

import spikeglx  # noqa
from ibldsp import voltage, fourier, utils  # noqa

assert Path(spikeglx.__file__).parent == SRC, spikeglx.__file__

TAPER = 1024
NBATCH = 8192
STRIDE = NBATCH - 2 * TAPER
NS = 5 * STRIDE + 1500  # the 5th batch reaches the end of the recording with 548 samples to spare
WORKERS = (1, 8)
META = SRC.joinpath("tests", "fixtures", "sample3A_g0_t0.imec.ap.meta")


def make_recording(folder):
    folder.mkdir(parents=True)
    bin_file = folder.joinpath("mock_g0_t0.imec.ap.bin")
    mock = spikeglx._mock_spikeglx_file(bin_file, META, ns=NS, nc=385, sync_depth=16)
    rng = np.random.default_rng(6)
    data = np.zeros((NS, 385), dtype=np.int16)
    # low amplitude noise with a common mode + a saturated stretch + a 7 bits sync pattern
    data[:, :-1] = rng.normal(0, 12, (NS, 384)) + rng.normal(0, 6, (NS, 1))
    data[14000:14060, :-1] = 32000
    data[:, -1] = rng.integers(0, 128, NS)
    data.tofile(bin_file)
    return bin_file, data


def expected_batches(ns):
    """the definition: batches start every STRIDE samples, the one that reaches the end is the last"""
    batches, first = [], 0
    while True:
        last = min(first + NBATCH, ns)
        batches.append((first, last))
        if last == ns:
            return batches
        first += STRIDE


def destripe_in_memory(sr, batches):
    """batch-wise destriping in memory with the documented margins (CAR, no channel rejection)"""
    ncv = sr.nc - sr.nsync
    taper = np.r_[0, scipy.signal.windows.cosine((TAPER - 1) * 2), 0]
    sos = scipy.signal.butter(N=3, Wn=300 / sr.fs * 2, btype="highpass", output="sos")
    out = np.zeros((sr.ns, sr.nc))
    for i, (first, last) in enumerate(batches):
        x = sr[first:last, :ncv].T.astype(np.float64)
        _, mute = voltage.saturation(x, max_voltage=sr.range_volts[:ncv], fs=sr.fs)
        x[:, :TAPER] *= taper[:TAPER]
        x[:, -TAPER:] *= taper[TAPER:]
        x = scipy.signal.sosfiltfilt(sos, x)
        x = fourier.fshift(x, s=sr.geometry["sample_shift"])
        x = x - np.median(x, axis=0)
        x = x * mute
        i0 = 0 if i == 0 else TAPER
        i1 = (last - first) if i == len(batches) - 1 else NBATCH - TAPER
        out[first + i0:first + i1, :ncv] = x[:, i0:i1].T / sr.sample2volts[:ncv]
    return out


def run(bin_file, out_folder, nprocesses):
    out_folder.mkdir(parents=True)
    out_file = out_folder.joinpath("destriped.bin")
    voltage.decompress_destripe_cbin(
        bin_file, output_file=out_file, nprocesses=nprocesses, nbatch=NBATCH,
        reject_channels=False, k_filter=False, compute_rms=True)
    return dict(
        raw=np.fromfile(out_file, dtype=np.int16),
        rms=np.load(out_folder.joinpath("_iblqc_ephysTimeRmsAP.rms.npy")),
        times=np.load(out_folder.joinpath("_iblqc_ephysTimeRmsAP.timestamps.npy")),
        saturation=np.load(out_folder.joinpath("_iblqc_ephysSaturation.samples.npy")),
    )


def main():
    problems = []
    bin_file, data = make_recording(TMP.joinpath("raw"))
    sr = spikeglx.Reader(bin_file)
    batches = expected_batches(NS)
    t_expected = np.array([(f + (l - f - 1) / 2) / sr.fs for f, l in batches], dtype=np.float32)
    oracle = destripe_in_memory(sr, batches)
    print(f"recording: {NS} samples, batch size {NBATCH}, {len(batches)} batches: {batches}")
    results = {}
    for nproc in WORKERS:
        res = results[nproc] = run(bin_file, TMP.joinpath(f"out_{nproc}"), nproc)
        tag = f"[{nproc} worker(s)]"
        if res["raw"].size != NS * 385:
            problems.append(f"{tag} output has {res['raw'].size / 385} samples, expected {NS}")
            continue
        d = res["raw"].reshape(NS, 385)
        if not np.array_equal(d[:, -1], data[:, -1]):
            problems.append(f"{tag} sync column differs from the source at "
                            f"{np.sum(d[:, -1] != data[:, -1])} samples")
        err = np.abs(d[:, :-1] - oracle[:, :-1]).max(axis=1)
        if err.max() > 2:
            bad = np.where(err > 2)[0]
            problems.append(f"{tag} output differs from in-memory batch-wise destriping at {bad.size} "
                            f"samples [{bad[0]} ... {bad[-1]}], max abs difference {err.max():.0f} counts")
        if not np.array_equal(res["raw"], results[1]["raw"]):
            bad = np.where(np.any(d != results[1]["raw"].reshape(NS, 385), axis=1))[0]
            problems.append(f"{tag} output is not byte-identical to the single worker output: "
                            f"{bad.size} samples differ [{bad[0]} ... {bad[-1]}]")
        if res["saturation"].size != NS:
            problems.append(f"{tag} saturation file has {res['saturation'].size} entries, expected {NS}")
        elif not res["saturation"][14000:14060].all() or res["saturation"][:13000].any():
            problems.append(f"{tag} saturated stretch not flagged where it is")
        if res["rms"].shape[0] != len(batches) or res["times"].size != len(batches):
            problems.append(f"{tag} rms file has {res['rms'].shape[0]} rows and {res['times'].size} timestamps "
                            f"for {len(batches)} batches; timestamps: {res['times']}")
        elif not np.allclose(res["times"], t_expected, atol=1e-6):
            problems.append(f"{tag} batch timestamps {res['times']} differ from {t_expected}")
        elif not np.array_equal(res["rms"], results[1]["rms"]):
            problems.append(f"{tag} rms rows differ from the single worker run")
    sr.close()
    shutil.rmtree(TMP, ignore_errors=True)
    if problems:
        print("PROPERTY C06 VIOLATED:")
        for p in problems:
            print("  - " + p)
        return 1
    print(f"OK: outputs, sync and QC files are consistent for {WORKERS} workers")
    return 0


if __name__ == "__main__":
    try:
        code = main()
    except Exception:
        import traceback
        traceback.print_exc()
        shutil.rmtree(TMP, ignore_errors=True)
        print("PROPERTY C06 VIOLATED: destriping to file raised")
        code = 1
    sys.exit(code)
