"""
Differential check for refactor_1 (fshift: extraction of _unit_delay_rfft / _broadcast_shifts helpers).

Imports the ORIGINAL library from the pristine copy /tmp/wt_C07_tmp/orig/src and the refactored one from
the worktree /tmp/wt_C07/src, and compares fourier.fshift, utils.parabolic_max,
waveforms.wave_shift_corrmax and waveforms.shift_waveform bit for bit (values, dtype, shape, exception type
and message, and the state of the input arrays after the call).
Prints EQUIVALENT and exits 0 when no difference is found.
"""
import copy
import importlib
import sys
import warnings

import numpy as np

ORIG = '/tmp/wt_C07_tmp/orig/src'
NEW = '/tmp/wt_C07/src'
warnings.filterwarnings('ignore')


def load(root):
    for k in list(sys.modules):
        if k.split('.')[0] in ('ibldsp', 'neuropixel', 'spikeglx', 'neurowaveforms'):
            del sys.modules[k]
    sys.path.insert(0, root)
    try:
        mods = {n: importlib.import_module(n) for n in ('ibldsp.fourier', 'ibldsp.utils', 'ibldsp.waveforms')}
    finally:
        sys.path.remove(root)
    for m in mods.values():
        assert m.__file__.startswith(root + '/'), (m.__file__, root)
    # the functions used by waveforms must come from the same tree
    assert mods['ibldsp.waveforms'].fshift is mods['ibldsp.fourier'].fshift
    assert mods['ibldsp.waveforms'].parabolic_max is mods['ibldsp.utils'].parabolic_max
    return mods


O = load(ORIG)
N = load(NEW)
for k in O:
    assert O[k] is not N[k] and O[k].__file__ != N[k].__file__

NCHECKS = 0
FAILURES = []


def same(a, b):
    if type(a) is not type(b):
        return False
    if isinstance(a, (tuple, list)):
        return len(a) == len(b) and all(same(x, y) for x, y in zip(a, b))
    if isinstance(a, np.ndarray):
        return a.dtype == b.dtype and a.shape == b.shape and a.tobytes() == b.tobytes()
    if isinstance(a, np.generic):
        return a.dtype == b.dtype and a.tobytes() == b.tobytes()
    if isinstance(a, float):
        return np.float64(a).tobytes() == np.float64(b).tobytes()
    return a == b


def run(f, args, kwargs):
    args = copy.deepcopy(args)
    kwargs = copy.deepcopy(kwargs)
    try:
        out = ('ok', f(*args, **kwargs))
    except Exception as e:  # noqa
        out = ('exc', type(e).__name__, str(e))
    # also report whether the output aliases the first input (in place behaviour)
    alias = out[0] == 'ok' and isinstance(out[1], np.ndarray) and len(args) > 0 and out[1] is args[0]
    return out, args, kwargs, alias


def check(module, name, *args, **kwargs):
    global NCHECKS
    NCHECKS += 1
    ro = run(getattr(O[module], name), args, kwargs)
    rn = run(getattr(N[module], name), args, kwargs)
    ok = same(ro[0], rn[0]) and same(ro[1], rn[1]) and ro[3] == rn[3]
    ok = ok and all(same(ro[2][k], rn[2][k]) for k in ro[2])
    if not ok:
        FAILURES.append((name, [getattr(a, 'shape', a) for a in args], kwargs, ro[0], rn[0]))
    return ro[0]


rng = np.random.default_rng(20240707)
FOU, UTI, WAV = 'ibldsp.fourier', 'ibldsp.utils', 'ibldsp.waveforms'

# ------------------------------------------------------------------ fshift
lengths = list(range(1, 40)) + [47, 64, 97, 100, 101, 127, 128, 255, 256, 257, 509, 1024, 2047, 2048]
nexc = 0
for ns in lengths:
    for dtype in (np.float32, np.float64):
        # full impulse basis for the small lengths, random otherwise
        x1 = rng.standard_normal(ns).astype(dtype)
        shifts = [0, 1, -1, ns - 1, -(ns - 1), ns // 2, 0.0, 0.5, -0.25, float(rng.uniform(-ns, ns)),
                  np.float64(rng.uniform(-ns, ns)), np.float32(1.5), np.int64(3), True]
        for s in shifts:
            r = check(FOU, 'fshift', x1, s)
            nexc += r[0] == 'exc'
        if ns <= 33:
            eye = np.eye(ns, dtype=dtype)
            for s in (0, 1, -2, 0.3, ns - 1):
                check(FOU, 'fshift', eye, s)
                check(FOU, 'fshift', eye, s, axis=0)
            check(FOU, 'fshift', eye, rng.uniform(-ns, ns, ns), axis=0)
            check(FOU, 'fshift', eye, rng.uniform(-ns, ns, ns), axis=1)
            check(FOU, 'fshift', eye, rng.integers(-ns, ns, ns))
        # 2D with scalar and per trace shifts on both axes
        ntr = int(rng.integers(1, 7))
        x2 = rng.standard_normal((ntr, ns)).astype(dtype)
        for axis in (-1, 1, 0, -2):
            n_ax = x2.shape[axis]
            n_other = x2.size // n_ax
            check(FOU, 'fshift', x2, float(rng.uniform(-n_ax, n_ax)), axis=axis)
            check(FOU, 'fshift', x2, rng.uniform(-n_ax, n_ax, n_other), axis=axis)
            check(FOU, 'fshift', x2, rng.uniform(-n_ax, n_ax, n_other).astype(np.float32), axis=axis)
            check(FOU, 'fshift', x2, rng.integers(-n_ax, n_ax + 1, n_other), axis=axis)
            # shifts already shaped, wrongly sized, 0-d, list
            check(FOU, 'fshift', x2, rng.uniform(-1, 1, (n_other, 1)), axis=axis)
            check(FOU, 'fshift', x2, rng.uniform(-1, 1, n_other + 1), axis=axis)
            check(FOU, 'fshift', x2, np.array(1.25), axis=axis)
            check(FOU, 'fshift', x2, [1.0] * n_other, axis=axis)
        check(FOU, 'fshift', x2, 1.5, axis=2)
        check(FOU, 'fshift', x2, 1.5, ns=ns + 1)
        check(FOU, 'fshift', x2, 1.5, ns=max(ns - 1, 0))
        # transposed, non contiguous and fortran ordered inputs
        check(FOU, 'fshift', x2.T, 0.7, axis=0)
        check(FOU, 'fshift', np.asfortranarray(x2), rng.uniform(-2, 2, ntr))
        check(FOU, 'fshift', x2[:, ::2], 0.7)
        # 3D
        x3 = rng.standard_normal((2, 3, ns)).astype(dtype)
        for axis in (0, 1, 2, -1):
            check(FOU, 'fshift', x3, -1.75, axis=axis)
            check(FOU, 'fshift', x3, rng.uniform(-2, 2, x3.size // x3.shape[axis]), axis=axis)
    # integer and boolean inputs
    xi = rng.integers(-100, 100, (3, ns))
    check(FOU, 'fshift', xi, 2)
    check(FOU, 'fshift', xi, 0.5)
    check(FOU, 'fshift', xi.astype(np.int16), rng.uniform(-2, 2, 3))
    check(FOU, 'fshift', xi > 0, 1)
    # frequency domain input: in place on the complex array, ns given or not
    for cdtype in (np.complex64, np.complex128):
        X = np.fft.rfft(rng.standard_normal((3, ns)), axis=-1).astype(cdtype)
        check(FOU, 'fshift', X, 1.5, ns=ns)
        check(FOU, 'fshift', X, rng.uniform(-2, 2, 3), ns=ns)
        check(FOU, 'fshift', X, 1.5)
        check(FOU, 'fshift', X, 1.5, ns=0)
        check(FOU, 'fshift', X, 2, axis=0, ns=3)
        check(FOU, 'fshift', X, rng.uniform(-2, 2, X.shape[1]), axis=0, ns=4)
# degenerate inputs
check(FOU, 'fshift', np.zeros(0), 1)
check(FOU, 'fshift', np.zeros((0, 4)), 1)
check(FOU, 'fshift', np.zeros((4, 0)), 1)
check(FOU, 'fshift', np.float64(3.0), 1)
check(FOU, 'fshift', np.array(3.0), 1)
check(FOU, 'fshift', [1.0, 2.0, 3.0], 1)
check(FOU, 'fshift', np.arange(8.0), None)
check(FOU, 'fshift', np.arange(8.0), 'a')
check(FOU, 'fshift', np.arange(8.0), np.nan)
check(FOU, 'fshift', np.arange(8.0), np.inf)
check(FOU, 'fshift', np.array([1.0, np.nan, np.inf, 0, 0, 0]), 0.5)
check(FOU, 'fshift', np.arange(8.0), 1, ns=8.0)
check(FOU, 'fshift', np.arange(8.0), 1 + 0j)

# ------------------------------------------------------------------ parabolic_max
for ns in list(range(1, 12)) + [31, 64, 121]:
    for dtype in (np.float32, np.float64):
        for _ in range(6):
            x = rng.standard_normal(ns).astype(dtype)
            check(UTI, 'parabolic_max', x)
            x2 = rng.standard_normal((int(rng.integers(1, 6)), ns)).astype(dtype)
            check(UTI, 'parabolic_max', x2)
        for imax in {0, ns - 1, ns // 2}:  # maxima on the edges, flat tops, ties
            x = np.zeros(ns, dtype=dtype)
            x[imax] = 1
            check(UTI, 'parabolic_max', x)
            check(UTI, 'parabolic_max', np.tile(x, (3, 1)))
        check(UTI, 'parabolic_max', np.ones(ns, dtype=dtype))
        check(UTI, 'parabolic_max', np.ones((2, ns), dtype=dtype))
        check(UTI, 'parabolic_max', np.full(ns, np.nan, dtype=dtype))
    check(UTI, 'parabolic_max', rng.integers(-5, 5, ns))
    check(UTI, 'parabolic_max', rng.integers(-5, 5, (4, ns)))
    check(UTI, 'parabolic_max', rng.standard_normal((2, 2, ns)))
    check(UTI, 'parabolic_max', rng.standard_normal((2, 3, ns)))
check(UTI, 'parabolic_max', np.zeros(0))
check(UTI, 'parabolic_max', np.zeros((0, 5)))
check(UTI, 'parabolic_max', np.zeros((3, 0)))
check(UTI, 'parabolic_max', np.array(1.0))
check(UTI, 'parabolic_max', [1.0, 3.0, 2.0])


# ------------------------------------------------------------------ wave_shift_corrmax
def wavelet(ns, width, dtype):
    t = np.arange(ns) - ns // 2
    return ((1 - (t / width) ** 2) * np.exp(-0.5 * (t / width) ** 2)).astype(dtype)


for ns in (2, 3, 8, 31, 64, 121, 128, 255):
    for dtype in (np.float32, np.float64):
        w = wavelet(ns, max(ns / 16, 1.0), dtype)
        for s in (0, 1, -3, 0.25, -4.03, 7.77, float(rng.uniform(-ns / 4, ns / 4))):
            w2 = O[FOU].fshift(w, s)
            check(WAV, 'wave_shift_corrmax', w, w2)
            check(WAV, 'wave_shift_corrmax', w2, w)
            check(WAV, 'wave_shift_corrmax', w + 0.05 * rng.standard_normal(ns).astype(dtype), w2)
        check(WAV, 'wave_shift_corrmax', rng.standard_normal(ns).astype(dtype), rng.standard_normal(ns).astype(dtype))
        check(WAV, 'wave_shift_corrmax', np.zeros(ns, dtype=dtype), np.zeros(ns, dtype=dtype))
        check(WAV, 'wave_shift_corrmax', w, w[:-1])
        check(WAV, 'wave_shift_corrmax', w, np.full(ns, np.nan, dtype=dtype))
check(WAV, 'wave_shift_corrmax', np.zeros(1), np.zeros(1))
check(WAV, 'wave_shift_corrmax', np.zeros(0), np.zeros(0))
check(WAV, 'wave_shift_corrmax', rng.standard_normal((4, 16)), rng.standard_normal((4, 16)))
check(WAV, 'wave_shift_corrmax', rng.integers(-9, 9, 32), rng.integers(-9, 9, 32))
check(WAV, 'wave_shift_corrmax', [1.0, 2.0], [1.0, 2.0])

# ------------------------------------------------------------------ shift_waveform
for nspk, ntr, ns in ((1, 4, 64), (5, 8, 121), (12, 6, 128), (3, 1, 40)):
    for dtype in (np.float32, np.float64):
        base = wavelet(ns, ns / 20, np.float64)[np.newaxis, :] * np.exp(-0.5 * (np.arange(ntr) - ntr // 2) ** 2)[:, np.newaxis]
        wfs = np.stack([O[FOU].fshift(base, float(rng.uniform(-3, 3))) for _ in range(nspk)])
        wfs = (-wfs * 40 + rng.standard_normal(wfs.shape)).astype(dtype)
        check(WAV, 'shift_waveform', wfs)
        wfs_nan = wfs.copy()
        wfs_nan[0, 0, 0] = np.nan
        check(WAV, 'shift_waveform', wfs_nan)

if FAILURES:
    print('DIFFERENT: %i / %i checks' % (len(FAILURES), NCHECKS))
    for f in FAILURES[:10]:
        print(f)
    sys.exit(1)
print('%i comparisons (%i of the scalar 1D fshift calls raise identically)' % (NCHECKS, nexc))
print('EQUIVALENT')
