import sys, os; sys.path.insert(0, os.path.join(os.path.dirname(os.path.abspath(__file__)), "src"))
"""
Differential equivalence check for the C07 modernisation clean-up.

The functions fshift (ibldsp.fourier), parabolic_max (ibldsp.utils) and wave_shift_corrmax (ibldsp.waveforms)
imported from the sources next to this file are compared, bit for bit, with verbatim copies of the ORIGINAL
implementations kept below (ref_*).  Exits 0 if everything is identical, 1 with a message otherwise.
"""
import warnings

import numpy as np
import scipy
import scipy.fft
import scipy.signal

import ibldsp.fourier
import ibldsp.utils
import ibldsp.waveforms

assert os.path.dirname(os.path.abspath(ibldsp.utils.__file__)).startswith(
    os.path.join(os.path.dirname(os.path.abspath(__file__)), "src")
), f"wrong sources imported: {ibldsp.utils.__file__}"


# ----------------------------------------------------------------------------------------------
# verbatim copies of the original implementations
# ----------------------------------------------------------------------------------------------
def ref_fshift(w, s, axis=-1, ns=None):
    """
    Shifts a 1D or 2D signal in frequency domain, to allow for accurate non-integer shifts
    :param w: input signal (if complex, need to provide ns too)
    :param s: shift in samples, positive shifts forward
    :param axis: axis along which to shift (last axis by default)
    :param axis: axis along which to shift (last axis by default)
    :param ns: if a rfft frequency domain array is provided, give a number of samples as there
     is an ambiguity
    :return: w
    """
    # create a vector that contains a 1 sample shift on the axis
    ns = ns or w.shape[axis]
    shape = np.array(w.shape) * 0 + 1
    shape[axis] = ns
    dephas = np.zeros(shape)
    np.put(dephas, 1, 1)
    dephas = scipy.fft.rfft(dephas, axis=axis)
    # fft the data along the axis and the dephas
    do_fft = np.invert(np.iscomplexobj(w))
    if do_fft:
        W = scipy.fft.rfft(w, axis=axis)
    else:
        W = w
    # if multiple shifts, broadcast along the other dimensions, otherwise keep a single vector
    if not np.isscalar(s):
        s_shape = np.array(w.shape)
        s_shape[axis] = 1
        s = s.reshape(s_shape)
    # apply the shift (s) to the fft angle to get the phase shift and broadcast
    W *= np.exp(1j * np.angle(dephas) * s)
    if do_fft:
        W = np.real(scipy.fft.irfft(W, ns, axis=axis))
        W = W.astype(w.dtype)
    return W


def ref_parabolic_max(x):
    """
    Maximum picking with parabolic interpolation around the maxima
    :param x: 1d or 2d array
    :return: interpolated max index, interpolated max
    """
    # for 2D arrays, operate along the last dimension
    ns = x.shape[-1]
    axis = -1
    imax = np.argmax(x, axis=axis)

    if x.ndim == 1:
        v010 = x[np.maximum(np.minimum(imax + np.array([-1, 0, 1]), ns - 1), 0)]
        v010 = v010[:, np.newaxis]
    else:
        v010 = np.vstack(
            (
                x[..., np.arange(x.shape[0]), np.maximum(imax - 1, 0)],
                x[..., np.arange(x.shape[0]), imax],
                x[..., np.arange(x.shape[0]), np.minimum(imax + 1, ns - 1)],
            )
        )
    poly = np.matmul(0.5 * np.array([[1, -2, 1], [-1, 0, 1], [0, 2, 0]]), v010)
    ipeak = -poly[1] / (poly[0] + np.double(poly[0] == 0)) / 2
    maxi = poly[2] + ipeak * poly[1] + ipeak**2.0 * poly[0]
    ipeak += imax
    # handle edges
    iedges = np.logical_or(imax == 0, imax == ns - 1)
    if x.ndim == 1:
        maxi = v010[1, 0] if iedges else maxi[0]
        ipeak = imax if iedges else ipeak[0]
    else:
        maxi[iedges] = v010[1, iedges]
        ipeak[iedges] = imax[iedges]
    return ipeak, maxi


def ref_wave_shift_corrmax(spike, spike2):
    '''
    Shift in time (sub-sample) the spike2 onto the spike
    (For residual subtraction, typically, the spike2 would be the template)
    :param spike: 1D array of float (e.g. on peak channel); same size as spike2
    :param spike2: 1D array of float
    :return: spike_resync: 1D array of float, shift_computed: in time sample (e.g. -4.03)
    '''
    # Numpy implementation of correlation centers it in the middle at np.floor(len_sample/2)
    assert spike.shape[0] == spike2.shape[0]
    sig_len = spike.shape[0]
    c = scipy.signal.correlate(spike, spike2, mode='same')
    ipeak, maxi = ref_parabolic_max(c)
    shift_computed = (ipeak - np.floor(sig_len / 2)) * -1
    spike_resync = ref_fshift(spike2, -shift_computed)
    return spike_resync, shift_computed


# ----------------------------------------------------------------------------------------------
# comparison machinery
# ----------------------------------------------------------------------------------------------
N_CASES = 0
N_RAISED = 0
FAILURES = []


def _same(a, b):
    """Exact comparison: type, dtype, shape and bytes (so that nans and signed zeros count too)"""
    if isinstance(a, tuple) or isinstance(b, tuple):
        return (
            isinstance(a, tuple) and isinstance(b, tuple) and len(a) == len(b)
            and all(_same(x, y) for x, y in zip(a, b))
        )
    if type(a) is not type(b):
        return False
    if isinstance(a, (np.ndarray, np.generic, float, complex)):
        a_, b_ = np.asarray(a), np.asarray(b)
        if a_.dtype != b_.dtype or a_.shape != b_.shape:
            return False
        if a_.dtype.kind == "O":  # the bytes of an object array are pointers
            return all(_same(x, y) for x, y in zip(a_.flatten().tolist(), b_.flatten().tolist()))
        return (
            np.array_equal(a_, b_, equal_nan=a_.dtype.kind in "fc")
            and np.ascontiguousarray(a_).tobytes() == np.ascontiguousarray(b_).tobytes()
        )
    return a == b


def _copy(arg):
    return arg.copy() if isinstance(arg, np.ndarray) else arg


def _run(fcn, args, kwargs):
    args = [_copy(a) for a in args]
    kwargs = {k: _copy(v) for k, v in kwargs.items()}
    with warnings.catch_warnings(record=True) as wlist:
        warnings.simplefilter("always")
        try:
            out = fcn(*args, **kwargs)
            exc = None
        except Exception as e:  # noqa
            out, exc = None, type(e)
    # the arguments are returned too, so that in-place modifications (or their absence) are compared
    return out, exc, args, kwargs, sorted(str(w.category.__name__) for w in wlist)


def check(label, new, ref, *args, **kwargs):
    global N_CASES, N_RAISED
    N_CASES += 1
    out_n, exc_n, args_n, kwargs_n, warn_n = _run(new, args, kwargs)
    out_r, exc_r, args_r, kwargs_r, warn_r = _run(ref, args, kwargs)
    N_RAISED += exc_r is not None
    if exc_n is not exc_r:
        FAILURES.append(f"{label}: exception {exc_n} vs reference {exc_r}")
    elif not _same(out_n, out_r):
        FAILURES.append(f"{label}: outputs differ")
    elif not all(_same(a, b) for a, b in zip(args_n, args_r)):
        FAILURES.append(f"{label}: input arguments left in a different state")
    elif not all(_same(kwargs_n[k], kwargs_r[k]) for k in kwargs_r):
        FAILURES.append(f"{label}: input keyword arguments left in a different state")
    elif warn_n != warn_r:
        FAILURES.append(f"{label}: warnings differ {warn_n} vs {warn_r}")
    elif exc_n is None and isinstance(out_r, np.ndarray) and len(args_r) and isinstance(args_r[0], np.ndarray):
        # aliasing: a complex input is returned itself (modified in place), a real one is not
        if (out_n is args_n[0]) != (out_r is args_r[0]):
            FAILURES.append(f"{label}: aliasing of output and input differs")


# ----------------------------------------------------------------------------------------------
# inputs
# ----------------------------------------------------------------------------------------------
def signal(rng, shape, dtype):
    kind = rng.integers(0, 5)
    if kind == 0:
        x = rng.normal(size=shape)
    elif kind == 1:
        x = np.cumsum(rng.normal(size=shape), axis=-1)
    elif kind == 2:  # impulse(s)
        x = np.zeros(shape)
        np.put(x, rng.integers(0, x.size, size=max(1, x.size // 50)), 1)
    elif kind == 3:
        x = rng.normal(size=shape) * 1e6
    else:
        x = np.round(rng.normal(size=shape) * 4)  # many ties and exact zeros
    if np.dtype(dtype).kind in "iu":
        x = np.round(x * 10)
    return x.astype(dtype)


def test_fshift(rng):
    new, ref = ibldsp.fourier.fshift, ref_fshift
    lengths = [2, 3, 4, 5, 7, 8, 16, 17, 31, 64, 97, 100, 121, 127, 128, 255, 500, 1024, 2047, 2048]
    dtypes = [np.float32, np.float64, np.float32, np.float64, np.int16, np.int32, np.float16]
    # 1D, scalar shifts of all python / numpy scalar kinds
    for i in range(200):
        ns = int(rng.choice(lengths)) if i % 4 else int(rng.integers(2, 300))
        w = signal(rng, (ns,), dtypes[i % len(dtypes)])
        s = [
            0, 1, -1, ns - 1, -(ns - 1), 0.0, 0.5, -0.25, float(rng.uniform(-ns, ns)), int(rng.integers(-ns, ns)),
            np.float64(rng.uniform(-ns, ns)), np.float32(rng.uniform(-3, 3)), np.int64(rng.integers(-ns, ns)), 2.5 * ns, True,
        ][i % 15]
        check(f"fshift 1d #{i} ns={ns} s={s!r}", new, ref, w, s)
        check(f"fshift 1d kw #{i}", new, ref, w, s=s, axis=[-1, 0][i % 2])
    # 2D / 3D, scalar and per-trace shifts along each axis
    for i in range(260):
        ndim = 2 if i % 3 else 3
        shape = tuple(int(rng.choice([1, 2, 3, 5, 8, 13, 32, 61, 96])) for _ in range(ndim))
        axis = int(rng.integers(-ndim, ndim))
        if shape[axis] < 2 and i % 10:
            continue
        w = signal(rng, shape, dtypes[i % 4])
        if i % 7 == 6:
            w = np.asfortranarray(w)
        if i % 11 == 10:
            w = w[..., ::-1]
        n = shape[axis]
        check(f"fshift nd scalar #{i} {shape} axis={axis}", new, ref, w, float(rng.uniform(-n, n)), axis=axis)
        check(f"fshift nd int #{i} {shape} axis={axis}", new, ref, w, int(rng.integers(-n, n + 1)), axis)
        # one shift per trace, already shaped or flat
        s_shape = list(shape)
        s_shape[axis] = 1
        s = rng.uniform(-n, n, size=s_shape)
        if i % 2:
            s = np.round(s)
        if i % 5 == 0:
            s = s.astype(np.float32)
        if i % 5 == 1:
            s = np.round(s).astype(np.int64)
        check(f"fshift nd per-trace #{i} {shape} axis={axis}", new, ref, w, s, axis=axis)
        check(f"fshift nd per-trace flat #{i} {shape} axis={axis}", new, ref, w, s.flatten(), axis=axis)
        if ndim == 2:
            # the historical call of the library: 2D array, vector of shifts, axis=1 / default
            check(f"fshift 2d vector #{i}", new, ref, w, rng.uniform(-2, 2, size=shape[0]), axis=1)
            check(f"fshift 2d vector default axis #{i}", new, ref, w, rng.uniform(-2, 2, size=shape[0]))
            check(f"fshift 2d vector axis 0 #{i}", new, ref, w, rng.uniform(-2, 2, size=shape[1]), axis=0)
    # complex input: frequency domain array and number of samples, modified in place
    for i in range(120):
        ns = int(rng.integers(2, 200))
        ntr = int(rng.integers(1, 6))
        x = signal(rng, (ntr, ns), np.float64)
        ctype = [np.complex128, np.complex64][i % 2]
        W = scipy.fft.rfft(x, axis=-1).astype(ctype)
        check(f"fshift complex #{i} scalar", new, ref, W, float(rng.uniform(-ns, ns)), ns=ns)
        check(f"fshift complex #{i} per trace", new, ref, W, rng.uniform(-3, 3, size=ntr), axis=-1, ns=ns)
        check(f"fshift complex #{i} 1d", new, ref, W[0], int(rng.integers(-ns, ns)), -1, ns)
        check(f"fshift complex #{i} axis 0", new, ref, np.ascontiguousarray(W.T), 1.5, axis=0, ns=ns)
        # without ns / with a falsy ns, the length of the spectrum is used: complex time domain signal
        z = (x[0] + 1j * x[-1]).astype(ctype)
        check(f"fshift complex #{i} no ns", new, ref, z, 2)
        check(f"fshift complex #{i} ns=0", new, ref, z, 0.5, ns=0)
        # real input with an explicit number of samples (padding / cropping of the output)
        check(f"fshift real #{i} ns given", new, ref, x, 1.25, ns=ns)
        check(f"fshift real #{i} ns larger", new, ref, x, 1, ns=ns + int(rng.integers(1, 5)))
        check(f"fshift real #{i} ns smaller", new, ref, x, -1, ns=max(2, ns - int(rng.integers(1, 5))))
        check(f"fshift real #{i} ns float", new, ref, x, -1, ns=float(ns))
    # edge cases and errors
    x = signal(rng, (4, 16), np.float64)
    check("fshift nan", new, ref, np.where(x > 1, np.nan, x), 0.5)
    check("fshift inf", new, ref, np.where(x > 1, np.inf, x), 1)
    check("fshift nan shift", new, ref, x, np.nan)
    check("fshift inf shift", new, ref, x, np.inf)
    check("fshift zeros", new, ref, np.zeros((3, 9), dtype=np.float32), 1.5)
    check("fshift bool", new, ref, x > 0, 1)
    check("fshift uint8", new, ref, (x * 10).astype(np.uint8), 1)
    check("fshift one sample", new, ref, np.ones(1), 1)
    check("fshift one sample 2d", new, ref, np.ones((5, 1)), 1)
    check("fshift empty axis", new, ref, np.ones((5, 0)), 1)
    check("fshift empty traces", new, ref, np.ones((0, 5)), 1)
    check("fshift 0d", new, ref, np.float64(1.0), 1)
    check("fshift 0d array", new, ref, np.array(1.0), 1)
    check("fshift 0d array ns", new, ref, np.array(1.0), 1, ns=4)
    check("fshift list signal", new, ref, [1.0, 2.0, 3.0], 1)
    check("fshift list signal ns", new, ref, [1.0, 2.0, 3.0], 1, ns=3)
    check("fshift list shifts", new, ref, x, [1.0, 2.0, 3.0, 4.0])
    check("fshift tuple shifts", new, ref, x, (1.0, 2.0, 3.0, 4.0))
    check("fshift 0d array shift", new, ref, x, np.array(1.5))
    check("fshift 0d array shift 1d", new, ref, x[0], np.array(1.5))
    check("fshift wrong number of shifts", new, ref, x, np.arange(3.0))
    check("fshift too many shifts", new, ref, x, np.arange(64.0).reshape(4, 16))
    check("fshift None shift", new, ref, x, None)
    check("fshift str shift", new, ref, x, "1")
    check("fshift complex shift", new, ref, x, 1j)
    check("fshift axis out of range", new, ref, x, 1, axis=2)
    check("fshift axis out of range neg", new, ref, x, 1, axis=-3)
    check("fshift axis None", new, ref, x, 1, axis=None)
    check("fshift axis float", new, ref, x, 1, axis=1.0)
    check("fshift negative ns", new, ref, x, 1, ns=-4)
    check("fshift complex ns mismatch", new, ref, scipy.fft.rfft(x), 1, ns=64)
    check("fshift int complex-incompatible", new, ref, x.astype(np.int64), np.ones(4, dtype=np.int64))
    check("fshift object", new, ref, x.astype(object), 1)
    check("fshift missing argument", new, ref, x)
    check("fshift extra keyword", new, ref, x, 1, n=3)


def test_parabolic_max(rng):
    new, ref = ibldsp.utils.parabolic_max, ref_parabolic_max
    dtypes = [np.float64, np.float32, np.int16, np.int64, np.float16, np.uint8]
    for i in range(300):
        ns = int(rng.integers(1, 80)) if i % 5 else int(rng.choice([1, 2, 3]))
        dtype = dtypes[i % len(dtypes)]
        x = signal(rng, (ns,), np.float64)
        if i % 4 == 0:  # maximum on an edge
            x[[0, -1][i % 8 == 0]] = np.abs(x).max() + 1
        if i % 9 == 0:  # plateau: null curvature
            x[:] = 3
        if np.dtype(dtype).kind == "u":
            x = np.abs(x)
        check(f"parabolic_max 1d #{i} ns={ns}", new, ref, x.astype(dtype))
    for i in range(300):
        shape = (int(rng.integers(1, 12)), int(rng.integers(1, 60)))
        dtype = dtypes[i % len(dtypes)]
        x = signal(rng, shape, np.float64)
        if i % 3 == 0:  # some maxima on the edges
            rows = rng.integers(0, shape[0], size=2)
            x[rows[0], 0] = np.abs(x).max() + 1
            x[rows[1], -1] = np.abs(x).max() + 2
        if i % 7 == 0:  # plateau and symmetric peak rows: null curvature / null slope
            x[0, :] = 1
        if np.dtype(dtype).kind == "u":
            x = np.abs(x)
        x = x.astype(dtype)
        if i % 10 == 9:
            x = np.asfortranarray(x)
        check(f"parabolic_max 2d #{i} {shape}", new, ref, x)
    # a cross-correlation, as in sync_timestamps and wave_shift_corrmax
    for i in range(60):
        a, b = rng.normal(size=(2, int(rng.integers(3, 200))))
        check(f"parabolic_max xcorr #{i}", new, ref, scipy.signal.correlate(a, b, mode=["full", "same"][i % 2]))
    x = rng.normal(size=(4, 9))
    check("parabolic_max nan 1d", new, ref, np.array([0, np.nan, 1, 2, 1.0]))
    check("parabolic_max nan 2d", new, ref, np.where(x > 1, np.nan, x))
    check("parabolic_max inf", new, ref, np.array([0, 1, np.inf, 1, 0.0]))
    check("parabolic_max two inf", new, ref, np.array([0, np.inf, np.inf, 1, 0.0]))
    check("parabolic_max bool", new, ref, x[0] > 0)
    check("parabolic_max bool 2d", new, ref, x > 0)
    check("parabolic_max complex", new, ref, x[0] + 1j * x[1])
    check("parabolic_max empty", new, ref, np.zeros(0))
    check("parabolic_max empty 2d", new, ref, np.zeros((3, 0)))
    check("parabolic_max no rows", new, ref, np.zeros((0, 3)))
    check("parabolic_max 0d", new, ref, np.array(1.0))
    check("parabolic_max 3d", new, ref, rng.normal(size=(3, 3, 7)))
    check("parabolic_max 3d single", new, ref, rng.normal(size=(1, 1, 7)))
    check("parabolic_max 3d square", new, ref, rng.normal(size=(4, 4, 7)))
    check("parabolic_max list", new, ref, [1.0, 3.0, 2.0])
    check("parabolic_max None", new, ref, None)
    check("parabolic_max object", new, ref, x.astype(object))
    check("parabolic_max object 1d", new, ref, x[0].astype(object))
    check("parabolic_max str", new, ref, np.array(["a", "c", "b"]))


def test_wave_shift_corrmax(rng):
    new, ref = ibldsp.waveforms.wave_shift_corrmax, ref_wave_shift_corrmax
    for i in range(300):
        ns = int(rng.choice([2, 3, 8, 31, 64, 82, 121, 128, 255])) if i % 3 else int(rng.integers(1, 150))
        dtype = [np.float64, np.float32, np.int16][i % 3]
        # a spike like wavelet and its shifted (and possibly noisy) copy
        t = np.arange(ns) - ns / 2 + rng.uniform(-2, 2)
        width = rng.uniform(0.5, 6)
        spike = -np.exp(-(t / width) ** 2) * 50 + np.exp(-((t - 2 * width) / width / 2) ** 2) * 15
        shift = rng.uniform(-ns / 4, ns / 4) if i % 4 else float(rng.integers(-3, 4))
        try:
            spike2 = ref_fshift(spike, shift)
        except IndexError:  # single sample
            spike2 = spike.copy()
        if i % 5 == 0:
            spike2 = spike2 + rng.normal(size=ns) * 2
        if i % 17 == 0:  # correlation peak on an edge
            spike, spike2 = np.zeros(ns), np.zeros(ns)
            spike[0], spike2[-1] = 1, 1
        if i % 19 == 0:
            spike, spike2 = np.zeros(ns), np.zeros(ns)
        check(f"wave_shift_corrmax #{i} ns={ns}", new, ref, spike.astype(dtype), spike2.astype(dtype))
        check(f"wave_shift_corrmax mixed #{i}", new, ref, spike.astype(np.float32), spike2)
        if i % 6 == 0:
            check(f"wave_shift_corrmax noise #{i}", new, ref, *rng.normal(size=(2, ns)))
    a = rng.normal(size=40)
    check("wave_shift_corrmax length mismatch", new, ref, a, a[:-1])
    check("wave_shift_corrmax length mismatch 2", new, ref, a[:3], a)
    check("wave_shift_corrmax 2d", new, ref, a.reshape(4, 10), a.reshape(4, 10))
    check("wave_shift_corrmax 2d and 1d", new, ref, a.reshape(40, 1), a)
    check("wave_shift_corrmax empty", new, ref, a[:0], a[:0])
    check("wave_shift_corrmax nan", new, ref, np.where(a > 1, np.nan, a), a)
    check("wave_shift_corrmax complex", new, ref, a + 1j * a[::-1], a * 1j)
    check("wave_shift_corrmax list", new, ref, list(a), list(a))
    check("wave_shift_corrmax None", new, ref, None, a)
    check("wave_shift_corrmax missing argument", new, ref, a)


def test_composition(rng):
    """The changed functions as their callers in the library chain them"""
    def chain(fshift, parabolic_max):
        def fcn(x, y, s):
            y = fshift(y, s, axis=-1)
            ipeak, maxi = parabolic_max(scipy.signal.correlate(x, y[0], mode="full"))
            return fshift(fshift(y, ipeak - x.shape[0] + 1), -s[::-1]), ipeak, maxi
        return fcn

    for i in range(60):
        ns, ntr = int(rng.integers(4, 120)), int(rng.integers(1, 7))
        x = signal(rng, (ns,), np.float64)
        y = np.tile(x, (ntr, 1)).astype([np.float32, np.float64][i % 2])
        check(f"composition #{i}", chain(ibldsp.fourier.fshift, ibldsp.utils.parabolic_max),
              chain(ref_fshift, ref_parabolic_max), x, y, rng.uniform(-3, 3, size=ntr))


if __name__ == "__main__":
    rng = np.random.default_rng(20240707)
    with np.errstate(all="ignore"):
        test_fshift(rng)
        test_parabolic_max(rng)
        test_wave_shift_corrmax(rng)
        test_composition(rng)
    if FAILURES:
        print(f"{len(FAILURES)} / {N_CASES} cases DIFFER from the original implementation")
        for f in FAILURES[:40]:
            print("  " + f)
        sys.exit(1)
    print(f"{N_CASES} cases identical to the original implementation (values, dtypes, shapes, warnings, in-place effects;"
          f" {N_RAISED} of them raise the same exception)")
    sys.exit(0)
