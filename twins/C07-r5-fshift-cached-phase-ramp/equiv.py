import sys, os; sys.path.insert(0, os.path.join(os.path.dirname(os.path.abspath(__file__)), "src"))
"""
Differential equivalence check for the C07 performance clean-up (fshift phase-ramp cache, in-place
exponential, no redundant output copy; parabolic_max hoisted constants).
The ref_* functions below are verbatim copies of the ORIGINAL implementations; the script compares them with
the functions imported from ./src on a few thousand seeded inputs, bit for bit (bytes, dtype, shape, flags,
python type of scalars, exception type and message, warnings, state of the input arrays after the call).
Exits 0 if everything is identical, 1 with a message otherwise.
"""
import warnings

import numpy as np
import scipy.fft
import scipy.signal

import ibldsp.fourier
import ibldsp.utils
import ibldsp.waveforms


# ----------------------------------------------------------------------------------------------------------
# verbatim copies of the original implementations
# ----------------------------------------------------------------------------------------------------------
def ref_fshift(w, s, axis=-1, ns=None):
    """
    Shifts a 1D or 2D signal in frequency domain, to allow for accurate non-integer shifts
    :param w: input signal (if complex, need to provide ns too)
    :param s: shift in samples, positive shifts forward
    :param axis: axis along which to shift (last axis by default)
    :param axis: axis along which to shift (last axis by default)
    :param ns: if a rfft frequency domain array is provided, give a number of samples as there
     is an ambiguity
    :return: w
    """
    # create a vector that contains a 1 sample shift on the axis
    ns = ns or w.shape[axis]
    shape = np.array(w.shape) * 0 + 1
    shape[axis] = ns
    dephas = np.zeros(shape)
    np.put(dephas, 1, 1)
    dephas = scipy.fft.rfft(dephas, axis=axis)
    # fft the data along the axis and the dephas
    do_fft = np.invert(np.iscomplexobj(w))
    if do_fft:
        W = scipy.fft.rfft(w, axis=axis)
    else:
        W = w
    # if multiple shifts, broadcast along the other dimensions, otherwise keep a single vector
    if not np.isscalar(s):
        s_shape = np.array(w.shape)
        s_shape[axis] = 1
        s = s.reshape(s_shape)
    # apply the shift (s) to the fft angle to get the phase shift and broadcast
    W *= np.exp(1j * np.angle(dephas) * s)
    if do_fft:
        W = np.real(scipy.fft.irfft(W, ns, axis=axis))
        W = W.astype(w.dtype)
    return W


def ref_parabolic_max(x):
    """
    Maximum picking with parabolic interpolation around the maxima
    :param x: 1d or 2d array
    :return: interpolated max index, interpolated max
    """
    # for 2D arrays, operate along the last dimension
    ns = x.shape[-1]
    axis = -1
    imax = np.argmax(x, axis=axis)

    if x.ndim == 1:
        v010 = x[np.maximum(np.minimum(imax + np.array([-1, 0, 1]), ns - 1), 0)]
        v010 = v010[:, np.newaxis]
    else:
        v010 = np.vstack(
            (
                x[..., np.arange(x.shape[0]), np.maximum(imax - 1, 0)],
                x[..., np.arange(x.shape[0]), imax],
                x[..., np.arange(x.shape[0]), np.minimum(imax + 1, ns - 1)],
            )
        )
    poly = np.matmul(0.5 * np.array([[1, -2, 1], [-1, 0, 1], [0, 2, 0]]), v010)
    ipeak = -poly[1] / (poly[0] + np.double(poly[0] == 0)) / 2
    maxi = poly[2] + ipeak * poly[1] + ipeak**2.0 * poly[0]
    ipeak += imax
    # handle edges
    iedges = np.logical_or(imax == 0, imax == ns - 1)
    if x.ndim == 1:
        maxi = v010[1, 0] if iedges else maxi[0]
        ipeak = imax if iedges else ipeak[0]
    else:
        maxi[iedges] = v010[1, iedges]
        ipeak[iedges] = imax[iedges]
    return ipeak, maxi


def ref_wave_shift_corrmax(spike, spike2):
    '''
    Shift in time (sub-sample) the spike2 onto the spike
    (For residual subtraction, typically, the spike2 would be the template)
    :param spike: 1D array of float (e.g. on peak channel); same size as spike2
    :param spike2: 1D array of float
    :return: spike_resync: 1D array of float, shift_computed: in time sample (e.g. -4.03)
    '''
    # Numpy implementation of correlation centers it in the middle at np.floor(len_sample/2)
    assert spike.shape[0] == spike2.shape[0]
    sig_len = spike.shape[0]
    c = scipy.signal.correlate(spike, spike2, mode='same')
    ipeak, maxi = ref_parabolic_max(c)
    shift_computed = (ipeak - np.floor(sig_len / 2)) * -1
    spike_resync = ref_fshift(spike2, -shift_computed)
    return spike_resync, shift_computed


# ----------------------------------------------------------------------------------------------------------
# comparison machinery
# ----------------------------------------------------------------------------------------------------------
N_CASES = 0
FAILURES = []


def _copy(a):
    # only frequency domain (complex) arrays are modified in place by fshift and need one copy per implementation;
    # real inputs are shared as they are (keeps their exact memory layout) and checked to be left untouched
    if isinstance(a, np.ndarray) and np.iscomplexobj(a):
        return a.copy(order="K")
    if isinstance(a, list):
        return [_copy(b) for b in a]
    return a


def _same(a, b, path="result"):
    """returns None if a and b are strictly identical, a message otherwise"""
    if type(a) is not type(b):
        return f"{path}: type {type(a)} != {type(b)}"
    if isinstance(a, (tuple, list)):
        if len(a) != len(b):
            return f"{path}: length {len(a)} != {len(b)}"
        for i, (aa, bb) in enumerate(zip(a, b)):
            msg = _same(aa, bb, f"{path}[{i}]")
            if msg:
                return msg
        return None
    if isinstance(a, (np.ndarray, np.generic)):
        if a.dtype != b.dtype:
            return f"{path}: dtype {a.dtype} != {b.dtype}"
        if a.shape != b.shape:
            return f"{path}: shape {a.shape} != {b.shape}"
        if not np.array_equal(a, b, equal_nan=True):
            return f"{path}: values differ (max abs diff {np.nanmax(np.abs(np.asarray(a) - np.asarray(b)))})"
        if a.dtype.char in "gG":
            # extended precision has uninitialised padding bytes: compare the sign bits instead of the raw bytes
            aa, bb = np.asarray(a), np.asarray(b)
            if not (np.array_equal(np.signbit(aa.real), np.signbit(bb.real))
                    and np.array_equal(np.signbit(aa.imag), np.signbit(bb.imag))):
                return f"{path}: values equal but sign of zero differs"
        elif np.asarray(a).tobytes() != np.asarray(b).tobytes():
            return f"{path}: values equal but bytes differ (sign of zero / nan payload)"
        if isinstance(a, np.ndarray):
            fa, fb = a.flags, b.flags
            for k in ("C_CONTIGUOUS", "F_CONTIGUOUS", "OWNDATA", "WRITEABLE", "ALIGNED"):
                if fa[k] != fb[k]:
                    return f"{path}: flag {k} {fa[k]} != {fb[k]}"
            if a.strides != b.strides:
                return f"{path}: strides {a.strides} != {b.strides}"
        return None
    if a != b and not (a != a and b != b):
        return f"{path}: {a!r} != {b!r}"
    return None


def _run(fcn, args, kwargs):
    with warnings.catch_warnings(record=True) as rec:
        warnings.simplefilter("always")
        try:
            out = ("ok", fcn(*args, **kwargs))
        except Exception as e:  # noqa
            out = ("raised", type(e), str(e))
    return out, sorted((w.category.__name__, str(w.message)) for w in rec)


def check(label, new, ref, *args, **kwargs):
    """runs both implementations on independent copies of the inputs and compares everything"""
    global N_CASES
    N_CASES += 1
    args_new, args_ref = _copy(list(args)), _copy(list(args))
    before = [a.tobytes() if isinstance(a, np.ndarray) else None for a in args]
    out_new, warn_new = _run(new, args_new, kwargs)
    out_ref, warn_ref = _run(ref, args_ref, kwargs)
    msg = None
    if out_new[0] != out_ref[0]:
        msg = f"outcome {out_new[:2]} != {out_ref[:2]}"
    elif out_new[0] == "raised":
        if out_new[1] is not out_ref[1]:
            msg = f"exception type {out_new[1]} != {out_ref[1]}"
        elif out_new[2] != out_ref[2]:
            msg = f"exception message {out_new[2]!r} != {out_ref[2]!r}"
    else:
        msg = _same(out_new[1], out_ref[1])
        # aliasing of the output with the first input (complex in-place path) must be the same
        if msg is None and isinstance(out_new[1], np.ndarray):
            if (out_new[1] is args_new[0]) != (out_ref[1] is args_ref[0]):
                msg = "aliasing of the output with the input differs"
    if msg is None and warn_new != warn_ref:
        msg = f"warnings {warn_new} != {warn_ref}"
    if msg is None:
        # state of the inputs after the call (untouched real input, identically modified complex input)
        msg = _same(args_new, args_ref, "inputs_after_call")
    if msg is None:
        for i, (a, o) in enumerate(zip(args, before)):
            if isinstance(a, np.ndarray) and not np.iscomplexobj(a) and a.tobytes() != o:
                msg = f"real input {i} was modified"
    if msg:
        FAILURES.append(f"{label}: {msg}")
        if len(FAILURES) > 20:
            finish()


def finish():
    if FAILURES:
        print(f"NOT EQUIVALENT: {len(FAILURES)} differing cases out of {N_CASES}")
        for f in FAILURES[:20]:
            print("  " + f)
        sys.exit(1)
    print(f"OK: {N_CASES} cases, refactored and original implementations are bit for bit identical")
    sys.exit(0)


# ----------------------------------------------------------------------------------------------------------
# input generation
# ----------------------------------------------------------------------------------------------------------
rng = np.random.default_rng(20260704)
new_fshift, new_pmax, new_corrmax = ibldsp.fourier.fshift, ibldsp.utils.parabolic_max, ibldsp.waveforms.wave_shift_corrmax


def cf(label, *a, **k):
    check("fshift " + label, new_fshift, ref_fshift, *a, **k)


def signal(shape, dtype):
    x = rng.standard_normal(shape) * 10 ** rng.uniform(-3, 3)
    if np.issubdtype(dtype, np.integer):
        return (x / np.max(np.abs(x) + 1e-30) * 1000).astype(dtype)
    return x.astype(dtype)


def scalar_shifts(n):
    return [0, 1, -1, n - 1, -(n - 1), n, 2 * n + 3, 0.0, -0.0, 0.5, -0.25, float(rng.uniform(-n, n)),
            np.float64(rng.uniform(-n, n)), np.float32(rng.uniform(-n, n)), np.int64(rng.integers(-n, n)),
            int(rng.integers(-n, n)), True, np.float16(1.5), np.longdouble(0.3)]


# 1) 1D signals, all lengths 2..130 then a spread up to 2048 (odd, even, prime, powers of two), scalar shifts
lengths = list(range(2, 131)) + [251, 255, 256, 257, 509, 512, 1000, 1021, 1024, 1025, 2039, 2047, 2048]
for n in lengths:
    for dtype in (np.float32, np.float64):
        w = signal(n, dtype)
        ss = scalar_shifts(n)
        for s in [ss[i] for i in rng.choice(len(ss), 4, replace=False)]:
            cf(f"1d n={n} {np.dtype(dtype).name} s={s!r}", w, s)
    # second call with the same length: exercises the cached table
    cf(f"1d repeat n={n}", signal(n, np.float64), float(rng.uniform(-n, n)))

# 2) full impulse basis (determines the linear operator): scalar and per-trace shifts, both axes
for n in (2, 3, 4, 5, 7, 8, 16, 31, 32, 33, 64, 97, 128, 211):
    for dtype in (np.float32, np.float64):
        eye = np.eye(n, dtype=dtype)
        for axis in (0, 1, -1, -2):
            cf(f"basis n={n} axis={axis} int", eye, int(rng.integers(-n, n)), axis=axis)
            cf(f"basis n={n} axis={axis} frac", eye, float(rng.uniform(-n, n)), axis=axis)
            cf(f"basis n={n} axis={axis} per-trace", eye, rng.uniform(-n, n, n), axis=axis)
            cf(f"basis n={n} axis={axis} per-trace int", eye, rng.integers(-n, n, n), axis=axis)

# 3) 2D and 3D arrays, every axis, scalar / per-trace shifts of several dtypes and shapes, many dtypes
dtypes = (np.float32, np.float64, np.float16, np.longdouble, np.int16, np.int32, np.int64, np.uint8, np.bool_)
for it in range(260):
    ndim = int(rng.integers(2, 4))
    shape = tuple(int(i) for i in rng.integers(1, 40, ndim))
    axis = int(rng.integers(-ndim, ndim))
    if shape[axis] < 2 and it % 10:
        shape = shape[:axis % ndim] + (int(rng.integers(2, 70)),) + shape[axis % ndim + 1:]
    dtype = dtypes[it % len(dtypes)] if it % 3 == 0 else (np.float32, np.float64)[it % 2]
    w = signal(shape, dtype) if dtype is not np.bool_ else rng.random(shape) > .5
    n = shape[axis]
    sshape = list(shape)
    sshape[axis] = 1
    kind = it % 6
    if kind == 0:
        s = float(rng.uniform(-n, n))
    elif kind == 1:
        s = rng.uniform(-n, n, sshape)
    elif kind == 2:
        s = rng.uniform(-n, n, int(np.prod(sshape)))  # flat vector, reshaped by fshift
    elif kind == 3:
        s = rng.uniform(-n, n, sshape).astype(np.float32)
    elif kind == 4:
        s = rng.integers(-n, n + 1, int(np.prod(sshape)))
    else:
        s = np.asfortranarray(rng.uniform(-n, n, sshape))
    cf(f"nd it={it} shape={shape} axis={axis} {np.dtype(dtype).name} kind={kind}", w, s, axis=axis)

# 4) memory layouts: transposed, strided, reversed, fortran ordered, read-only inputs
for it in range(60):
    a = signal((int(rng.integers(4, 30)), int(rng.integers(4, 30))), (np.float32, np.float64)[it % 2])
    views = [a.T, a[::2], a[:, ::3], a[::-1], a[:, ::-1], np.asfortranarray(a), a[1:-1, 2:]]
    w = views[it % len(views)]
    for axis in (0, 1):
        n = w.shape[axis]
        cf(f"layout it={it} axis={axis} scalar", w, float(rng.uniform(-n, n)), axis=axis)
        cf(f"layout it={it} axis={axis} vector", w, rng.uniform(-n, n, w.shape[1 - axis]), axis=axis)
    ro = a.copy()
    ro.flags.writeable = False
    cf(f"layout it={it} read-only", ro, 1.25)

# 5) frequency domain (complex) inputs: modified in place and returned, ns given or not, odd and even
for it in range(120):
    ns = int(rng.integers(2, 90))
    ntr = int(rng.integers(1, 6))
    cdtype = (np.complex64, np.complex128)[it % 2]
    W1 = scipy.fft.rfft(signal(ns, np.float64)).astype(cdtype)
    W2 = scipy.fft.rfft(signal((ntr, ns), np.float64), axis=-1).astype(cdtype)
    W0 = scipy.fft.rfft(signal((ns, ntr), np.float64), axis=0).astype(cdtype)
    cf(f"complex it={it} 1d ns", W1, float(rng.uniform(-ns, ns)), ns=ns)
    cf(f"complex it={it} 2d ns", W2, rng.uniform(-ns, ns, ntr), ns=ns)
    cf(f"complex it={it} 2d axis 0 ns", W0, rng.uniform(-ns, ns, ntr), axis=0, ns=ns)
    cf(f"complex it={it} 2d scalar ns", W2, int(rng.integers(-ns, ns)), ns=ns, axis=1)
    cf(f"complex it={it} no ns", W1, 0.5)  # ambiguous length: table of the wrong size, same outcome required
    cf(f"complex it={it} wrong ns", W2, 0.5, ns=ns + 3)
    cf(f"complex it={it} float ns", W1, 0.5, ns=float(ns))
    cf(f"complex it={it} numpy ns", W1, 0.5, ns=np.int64(ns))

# 6) edge cases and inadmissible inputs: same results, same exceptions (type and message)
for dtype in (np.float32, np.float64):
    cf("len 1", np.ones(1, dtype), 0.5)
    cf("len 0", np.ones(0, dtype), 0.5)
    cf("len 1 2d", np.ones((4, 1), dtype), 0.5)
    cf("len 1 2d axis 0", np.ones((1, 4), dtype), 0.5, axis=0)
    cf("empty traces", np.ones((0, 10), dtype), 0.5)
    cf("empty traces vector", np.ones((0, 10), dtype), np.zeros(0))
    cf("empty samples", np.ones((10, 0), dtype), 0.5)
    cf("0d", np.array(1., dtype), 0.5)
    cf("axis out of range", np.ones((3, 4), dtype), 0.5, axis=2)
    cf("axis out of range neg", np.ones((3, 4), dtype), 0.5, axis=-3)
    cf("list shifts", np.ones((3, 4), dtype), [1., 2., 3.])
    cf("wrong number of shifts", np.ones((3, 4), dtype), np.ones(4))
    cf("0d array shift", np.ones(6, dtype), np.array(1.5))
    cf("0d array shift 2d", np.ones((2, 6), dtype), np.array(1.5))
    cf("ns mismatch", np.ones(10, dtype), 0.5, ns=12)
    cf("ns same", signal(10, dtype), 0.5, ns=10)
    cf("ns float", signal(10, dtype), 0.5, ns=10.0)
    cf("ns float frac", signal(10, dtype), 0.5, ns=10.7)
    cf("ns negative", signal(10, dtype), 0.5, ns=-4)
    cf("ns zero", signal(10, dtype), 0.5, ns=0)
    cf("ns one", signal(10, dtype), 0.5, ns=1)
    cf("ns str", signal(10, dtype), 0.5, ns="10")
    cf("nan shift", signal(10, dtype), np.nan)
    cf("inf shift", signal(10, dtype), np.inf)
    cf("complex shift", signal(10, dtype), 1 + 2j)
    cf("None shift", signal(10, dtype), None)
    cf("nan in signal", np.array([1, np.nan, 3, 4, 5], dtype), 0.5)
    cf("inf in signal", np.array([1, np.inf, 3, -np.inf, 5], dtype), 1)
    cf("zeros", np.zeros((3, 8), dtype), np.array([0., 1., -2.5]))
    cf("huge", np.full(9, np.finfo(dtype).max, dtype), 0.3)
    cf("tiny", np.full(9, np.finfo(dtype).tiny, dtype), 0.3)
cf("list signal", [1., 2., 3.], 0.5)
cf("masked shifts", np.ones((3, 8)), np.ma.masked_array([0., 1., 2.], mask=[0, 1, 0]))
cf("object shifts", np.ones((3, 8)), np.array([0., 1., 2.], dtype=object))
# lengths seen long ago (cache eviction) and again right after an exception
for n in (2, 3, 4, 1, 5, 1, 2, 2048, 3, 0, 4):
    cf(f"cache order n={n}", signal(n, np.float64), 0.75)

# 7) parabolic_max: 1D / 2D / 3D, edges, ties, flat tops, constant, nan, inf, ints, empty, layouts
def cp(label, x):
    check("parabolic_max " + label, new_pmax, ref_pmax, x)


ref_pmax = ref_parabolic_max
pdtypes = (np.float64, np.float32, np.int16, np.int64, np.float16, np.uint8, np.bool_, np.longdouble)
for it in range(500):
    dtype = pdtypes[it % len(pdtypes)] if it % 2 else np.float64
    n = int(rng.integers(1, 60))
    x = rng.standard_normal(n) * 100
    mode = it % 7
    if mode == 1:
        x[0] = 1e4  # maximum on first sample
    elif mode == 2:
        x[-1] = 1e4  # maximum on last sample
    elif mode == 3:
        x[rng.integers(0, n, 3)] = 1e4  # ties
    elif mode == 4:
        x[:] = 3  # constant
    elif mode == 5 and n > 3:
        i = int(rng.integers(1, n - 1))
        x[i - 1:i + 2] = 200  # flat top: zero curvature
    x = np.abs(x) if dtype in (np.uint8,) else x
    x = (x > 0) if dtype is np.bool_ else x.astype(dtype)
    cp(f"1d it={it} n={n} {np.dtype(dtype).name} mode={mode}", x)
    cp(f"1d strided it={it}", np.repeat(x, 2)[::2])
    cp(f"1d reversed it={it}", x[::-1])
for it in range(400):
    dtype = pdtypes[it % len(pdtypes)] if it % 2 else (np.float64, np.float32)[it % 4 // 2]
    shape = (int(rng.integers(1, 25)), int(rng.integers(1, 40)))
    x = rng.standard_normal(shape) * 100
    k = int(rng.integers(0, shape[0]))
    x[k, 0] = 1e4
    x[int(rng.integers(0, shape[0])), -1] = 1e4
    x[int(rng.integers(0, shape[0])), :] = 7
    x[int(rng.integers(0, shape[0])), rng.integers(0, shape[1], 2)] = 2e4
    x = np.abs(x) if dtype in (np.uint8,) else x
    x = (x > 0) if dtype is np.bool_ else x.astype(dtype)
    cp(f"2d it={it} shape={shape} {np.dtype(dtype).name}", x)
    if it % 4 == 0:
        cp(f"2d transposed it={it}", x.T)
        cp(f"2d fortran it={it}", np.asfortranarray(x))
        cp(f"2d strided it={it}", x[::2, ::-1])
for dtype in (np.float32, np.float64):
    cp("empty 1d", np.zeros(0, dtype))
    cp("empty 2d rows", np.zeros((0, 5), dtype))
    cp("empty 2d cols", np.zeros((5, 0), dtype))
    cp("0d", np.array(1, dtype))
    cp("single", np.array([2], dtype))
    cp("two", np.array([2, 3], dtype))
    cp("two rows single col", np.array([[2], [3]], dtype))
    cp("nan 1d", np.array([1, np.nan, 3, 2], dtype))
    cp("inf 1d", np.array([1, 3, np.inf, 2], dtype))
    cp("-inf 1d", np.array([-np.inf, 3, 5, -np.inf], dtype))
    cp("inf edge 1d", np.array([np.inf, 3, 5, 1], dtype))
    cp("nan 2d", np.array([[1, np.nan, 3, 2], [1, 5, 3, np.nan], [np.inf, 1, 2, 3]], dtype))
    cp("huge 1d", np.array([1, np.finfo(dtype).max, np.finfo(dtype).max / 2, 0], dtype))
    cp("3d cube", rng.standard_normal((4, 4, 4)).astype(dtype))
    cp("3d", rng.standard_normal((3, 4, 5)).astype(dtype))
    cp("3d leading one", rng.standard_normal((1, 4, 5)).astype(dtype))
cp("list", [1., 3., 2.])
cp("complex", np.array([1 + 1j, 3, 2]))

# 8) wave_shift_corrmax on shifted copies of waveforms (uses parabolic_max and fshift)
def cw(label, a, b):
    check("wave_shift_corrmax " + label, new_corrmax, ref_wave_shift_corrmax, a, b)


for it in range(300):
    n = int(rng.integers(2, 300))
    dtype = (np.float64, np.float32)[it % 2]
    t = np.arange(n) - n / 2
    f0 = rng.uniform(0.01, 0.2)
    wav = (np.exp(-(t / rng.uniform(2, n / 3 + 2)) ** 2) * np.cos(2 * np.pi * f0 * t)).astype(dtype)
    sh = float(rng.uniform(-n / 4, n / 4)) if it % 3 else int(rng.integers(-n // 4, n // 4 + 1))
    cw(f"it={it} n={n} {np.dtype(dtype).name} shift={sh}", wav, ref_fshift(wav, sh))
    if it % 5 == 0:
        cw(f"noise it={it}", signal(n, dtype), signal(n, dtype))
    if it % 25 == 0:
        cw(f"constant it={it}", np.ones(n, dtype), np.ones(n, dtype))
        cw(f"zeros it={it}", np.zeros(n, dtype), np.zeros(n, dtype))
        cw(f"mixed dtypes it={it}", wav, signal(n, np.float64))
        cw(f"int it={it}", signal(n, np.int16), signal(n, np.int16))
cw("length mismatch", np.ones(5), np.ones(6))
cw("length 1", np.ones(1), np.ones(1))
cw("length 0", np.ones(0), np.ones(0))
cw("2d", signal((4, 30), np.float64), signal((4, 30), np.float64))

# 9) the cached table must not have been altered by any of the calls above: replay a few cases
rng = np.random.default_rng(7)
for n in (2, 3, 8, 17, 64, 129, 2048):
    w = signal((3, n), np.float64)
    cf(f"replay n={n}", w, rng.uniform(-n, n, 3))
    cf(f"replay n={n} axis 0", w.T.copy(), rng.uniform(-n, n, 3), axis=0)

finish()
