import sys, os; sys.path.insert(0, os.path.join(os.path.dirname(os.path.abspath(__file__)), "src"))
"""
C07: the Fourier time shift is an exact, composable delay.

Oracle: plain NumPy.  A band-limited periodic signal is written as a sum of sinusoids on the
Fourier grid, so its delayed version x(t - s) is known in closed form for any real s; integer
shifts are compared with np.roll, and a shift followed by the opposite shift has to give the input.
The delay estimation is checked on an analytically delayed Gaussian-windowed wavelet.
"""
import numpy as np

from ibldsp.fourier import fshift
from ibldsp.waveforms import wave_shift_corrmax

failures = []


def check(ok, msg):
    if not ok:
        failures.append(msg)
        print("FAIL: " + msg)


def bandlimited(n, ntr, rng):
    """returns a function t -> (ntr, t.size) periodic signal of period n, spectrum below 0.4 * n"""
    k = np.arange(1, int(0.4 * n))
    amp = rng.standard_normal((ntr, k.size)) / np.sqrt(k.size)
    phi = rng.uniform(0, 2 * np.pi, (ntr, k.size))

    def x(t):
        t = np.atleast_2d(t)  # (1 or ntr, nt)
        arg = 2 * np.pi * k[None, :, None] * t[:, None, :] / n + phi[:, :, None]
        return np.sum(amp[:, :, None] * np.cos(arg), axis=1)
    return x


rng = np.random.default_rng(7)
shifts = [0, 1, -1, 3, -7, 0.3, -0.3, 0.75, -0.75, 1.25, 2.5, 17.8, -1.25, -2.5, -4.03, -17.8, -100.5, 100.5]

for n in (64, 121, 127, 500):
    t = np.arange(n, dtype=float)
    for dtype, tol in ((np.float64, 1e-9), (np.float32, 2e-5)):
        sig = bandlimited(n, 3, rng)
        w = sig(t).astype(dtype)
        w_before = w.copy()
        for s in shifts:
            if abs(s) >= n:
                continue
            expected = sig(t - s)
            for axis, win in ((-1, w), (0, np.ascontiguousarray(w.T))):
                out = fshift(win, s, axis=axis)
                out = out if axis == -1 else out.T
                err = np.max(np.abs(out - expected))
                check(out.dtype == dtype and out.shape == w.shape,
                      f"n={n} {dtype.__name__} s={s} axis={axis}: shape/dtype {out.shape} {out.dtype}")
                check(err < tol,
                      f"n={n} {dtype.__name__} axis={axis}: fshift(w, {s}) differs from the analytically "
                      f"delayed signal w(t - {s}) by {err:.3g} (tolerance {tol:g})")
                if float(s).is_integer():
                    err = np.max(np.abs(out - np.roll(w, int(s), axis=-1)))
                    check(err < tol, f"n={n} {dtype.__name__} s={s} axis={axis}: differs from np.roll by {err:.3g}")
            # composition: shifting by s and then by -s is the identity
            back = fshift(fshift(w, s), -s)
            err = np.max(np.abs(back - w_before))
            check(err < 2 * tol,
                  f"n={n} {dtype.__name__}: fshift(fshift(w, {s}), {-s}) is not w, max error {err:.3g}")
        # per trace shifts
        sv = np.array([-2.5, 0.4, 3.25])
        out = fshift(w, sv)
        err = np.max(np.abs(out - sig(t[None, :] - sv[:, None])))
        check(err < tol, f"n={n} {dtype.__name__}: per-trace shifts {sv} error {err:.3g}")
        check(np.array_equal(w, w_before), f"n={n} {dtype.__name__}: the input array was modified")

# delay estimation and re-alignment on a wavelet that is delayed analytically
n = 121
t = np.arange(n, dtype=float)


def wavelet(tt):
    u = (tt - 50.0) / 6.0
    return (1 - u ** 2) * np.exp(-u ** 2 / 2)


spike = wavelet(t)
for s in (-4.03, -1.6, -0.4, 0.4, 0.93, 1.6, 4.03, 9.47):
    spike2 = wavelet(t - s)
    resync, shift = wave_shift_corrmax(spike, spike2)
    check(abs(shift - s) < 0.05, f"wave_shift_corrmax: applied delay {s}, estimated {shift:.3f}")
    err = np.max(np.abs(resync - spike)) / np.max(np.abs(spike))
    check(err < 0.02,
          f"wave_shift_corrmax: copy delayed by {s} is not re-aligned on the original, relative error {err:.3g}"
          f" (estimated shift {shift:.3f})")

if failures:
    print(f"{len(failures)} checks failed: the Fourier shift is not an exact / composable delay")
    sys.exit(1)
print("all checks passed")
sys.exit(0)
