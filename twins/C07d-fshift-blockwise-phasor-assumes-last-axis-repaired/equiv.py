import sys, os; sys.path.insert(0, os.path.join(os.path.dirname(os.path.abspath(__file__)), "src"))
"""
C07 - per-trace Fourier time shifts along either axis.

A (ns, ntr) array (time along axis 0, as read from a SpikeGLX file) receives one whole-sample shift
per trace: the result must be the column-wise circular roll, whatever the number of traces.
The oracle is np.roll, applied trace by trace.
"""
import numpy as np

import ibldsp.fourier as fourier

print("ibldsp.fourier from", fourier.__file__)
rng = np.random.default_rng(7)
failures = []


def oracle_roll(w, shifts, axis):
    """trace by trace circular roll along axis of a 2D array"""
    out = np.empty_like(w)
    for i, sh in enumerate(shifts):
        if axis in (0, -2):
            out[:, i] = np.roll(w[:, i], int(sh))
        else:
            out[i, :] = np.roll(w[i, :], int(sh))
    return out


def check(label, ns, ntr, axis, dtype):
    shape = (ns, ntr) if axis in (0, -2) else (ntr, ns)
    w = rng.standard_normal(shape).astype(dtype)
    w0 = w.copy()
    shifts = rng.integers(-ns + 1, ns, ntr).astype(float)
    out = fourier.fshift(w, shifts, axis=axis)
    expected = oracle_roll(w0, shifts, axis)
    tol = 1e-9 if dtype == np.float64 else 2e-4
    err = float(np.max(np.abs(out - expected)))
    unshifted = bool(np.allclose(out, w0, atol=tol)) and not np.allclose(expected, w0, atol=tol)
    ok = (out.shape == w0.shape and out.dtype == w0.dtype and np.array_equal(w, w0) and err < tol)
    print(f"{label:<58} max|fshift - roll| = {err:.3g}  {'ok' if ok else 'WRONG'}"
          + ("  (output is the UNSHIFTED input)" if unshifted else ""))
    if not ok:
        failures.append(label)


# the same operation on growing numbers of traces, both axes: each must equal the per-trace roll
for ntr in (64, 4096, 40000):
    for axis in (-1, 0):
        for dtype in (np.float64, np.float32):
            check(f"ns=64 ntr={ntr:<6} axis={axis:>2} {np.dtype(dtype).name} per-trace shifts", 64, ntr, axis, dtype)
# long traces along axis 0
check("ns=2048 ntr=1100 axis= 0 float64 per-trace shifts", 2048, 1100, 0, np.float64)

# fractional per-trace shifts of a band-limited signal along axis 0 against the analytic delay
ns, ntr = 128, 20000
t = np.arange(ns)[:, np.newaxis]
k = 5  # cycles over the window: well below Nyquist
shifts = rng.uniform(-3, 3, ntr)
w = np.cos(2 * np.pi * k * t / ns + np.zeros((1, ntr)))
expected = np.cos(2 * np.pi * k * (t - shifts[np.newaxis, :]) / ns)
out = fourier.fshift(w, shifts, axis=0)
err = float(np.max(np.abs(out - expected)))
ok = err < 1e-9
print(f"{'ns=128 ntr=20000 axis= 0 fractional shifts of a cosine':<58} max|fshift - analytic| = {err:.3g}  {'ok' if ok else 'WRONG'}")
if not ok:
    failures.append("fractional per-trace shifts along axis 0")

if failures:
    print("\nFAIL: fshift returns a wrong result (per-trace phase ramps laid out across the wrong axis) for:")
    for f in failures:
        print("   -", f)
    sys.exit(1)
print("\nOK: per-trace shifts equal the per-trace circular roll / analytic delay along both axes")
sys.exit(0)
