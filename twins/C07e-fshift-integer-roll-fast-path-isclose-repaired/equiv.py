import sys, os; sys.path.insert(0, os.path.join(os.path.dirname(os.path.abspath(__file__)), "src"))
"""
C07: the Fourier time shift is an exact, composable delay.

Oracle: a periodic signal made of sinusoids strictly below Nyquist has a closed-form delayed
version x(t - s); fshift(x, s) must equal it for ANY real s in (-n, n), and successive shifts must
add up.  Nothing here relies on a stored copy of the library function.
"""
import numpy as np

from ibldsp.fourier import fshift

failures = []


def signal(n, delay=0.0):
    """Sum of sinusoids with an integer number of cycles over n samples, all below Nyquist"""
    t = np.arange(n) - delay
    x = np.zeros(n)
    for k, (a, ph) in zip((3, n // 7, n // 3, (2 * n) // 5), ((1.0, 0.3), (0.7, 1.1), (0.5, -0.4), (0.8, 2.0))):
        x += a * np.cos(2 * np.pi * k * t / n + ph)
    return x


def check(label, got, expected, tol):
    err = float(np.max(np.abs(got - expected)))
    if not err < tol:
        failures.append(f"{label}: max abs error {err:.3e} (tolerance {tol:.0e})")


for n in (257, 1000, 2048):
    x = signal(n)
    x_before = x.copy()
    # ordinary shifts, integer and fractional
    for s in (0, 1, -3, 17, 0.25, -0.5, 2.75, 100.4, -(n - 1.5)):
        check(f"n={n} s={s} analytic delay", fshift(x, s), signal(n, delay=s), 1e-8)
    # integer shift is a roll, zero is the identity
    check(f"n={n} roll", fshift(x, 5), np.roll(x, 5), 1e-9)
    check(f"n={n} identity", fshift(x, 0), x, 1e-9)
    # large shifts that are close to, but not on, a whole sample: still fractional delays
    for s in (n - 0.002 * n / 256 - 1, -(n // 2) - 0.001, 0.75 * n + 0.004 * n / 1024 + 0.0005):
        s = float(s)
        check(f"n={n} s={s:.6f} analytic delay", fshift(x, s), signal(n, delay=s), 1e-8)
        # successive shifts add up: the remaining fraction after an integer shift
        check(f"n={n} s={s:.6f} composition", fshift(fshift(x, s), -np.round(s)),
              signal(n, delay=s - np.round(s)), 1e-8)
    # delay on the impulse basis (one basis vector is enough to show a wrong operator)
    imp = np.zeros(n)
    imp[n // 2] = 1
    s = 0.9 * n + 0.005
    k = np.fft.rfftfreq(n, 1 / n)
    ramp = np.exp(-2j * np.pi * k * s / n)
    if n % 2 == 0:
        ramp[-1] = np.cos(np.pi * s)
    check(f"n={n} s={s:.4f} impulse response", fshift(imp, s), np.fft.irfft(np.fft.rfft(imp) * ramp, n), 1e-8)
    if not np.array_equal(x, x_before):
        failures.append(f"n={n}: input array modified")

# float32 and per-trace shifts keep working
w = np.tile(signal(512).astype(np.float32), (3, 1))
out = fshift(w, np.array([1.0, 300.002, -2.5]), axis=-1)
for i, s in enumerate((1.0, 300.002, -2.5)):
    check(f"per-trace float32 s={s}", out[i], signal(512, delay=s), 2e-5)
if out.dtype != np.float32 or out.shape != w.shape:
    failures.append("per-trace: dtype / shape not preserved")
check("scalar float32 s=300.002", fshift(w, 300.002)[0], signal(512, delay=300.002), 2e-5)

if failures:
    print("C07 VIOLATED: fshift is not an exact fractional delay")
    for f in failures:
        print("  -", f)
    sys.exit(1)
print("C07 holds: fshift matches the analytic delay for all tested shifts")
sys.exit(0)
