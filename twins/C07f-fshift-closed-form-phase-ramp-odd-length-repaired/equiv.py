import sys, os; sys.path.insert(0, os.path.join(os.path.dirname(os.path.abspath(__file__)), "src"))
"""
C07: ibldsp.fourier.fshift is an exact, composable delay.
Oracle: plain NumPy - an integer shift of the full impulse basis (identity matrix) is np.roll,
a fractional shift of a band-limited cosine is the analytically delayed cosine, and the delay estimated by
wave_shift_corrmax between a waveform and its shifted copy is the applied shift.
"""
import numpy as np

from ibldsp.fourier import fshift
from ibldsp.waveforms import wave_shift_corrmax

failures = []


def check(label, got, expected, atol):
    err = float(np.max(np.abs(np.asarray(got, dtype=np.float64) - np.asarray(expected, dtype=np.float64))))
    if not err <= atol:
        failures.append(f"{label}: max abs error {err:.3g} > {atol:.1g}")


for ns in (2, 3, 5, 6, 16, 31, 64, 121, 127, 128, 255, 1000, 1025):
    for dtype, atol in ((np.float64, 1e-9), (np.float32, 1e-4)):
        basis = np.eye(ns, dtype=dtype)  # one impulse per row
        keep = basis.copy()
        # integer shifts are circular rolls, along either axis, zero is the identity
        for s in sorted({0, 1, -1, ns // 3, -(ns // 2), ns - 1}):
            for axis in (0, 1):
                out = fshift(basis, s, axis=axis)
                if out.shape != basis.shape or out.dtype != basis.dtype:
                    failures.append(f"ns={ns} {dtype.__name__}: shape/dtype changed to {out.shape} {out.dtype}")
                check(f"ns={ns} {dtype.__name__} integer shift {s} axis={axis} vs np.roll", out, np.roll(keep, s, axis=axis), atol)
        # one shift per trace
        shifts = (np.arange(ns) % 7 - 3).astype(np.float64)
        expected = np.stack([np.roll(keep[i], int(shifts[i])) for i in range(ns)])
        check(f"ns={ns} {dtype.__name__} per-trace shifts axis=1", fshift(basis, shifts, axis=1), expected, atol)
        check(f"ns={ns} {dtype.__name__} per-trace shifts axis=0", fshift(basis.T.copy(), shifts, axis=0), expected.T, atol)
        # successive shifts add up: integer steps on the impulses (a fractional step on an impulse would put energy
        # at Nyquist for even lengths, where a delay is not defined)
        a, b = ns // 3 + 1, -(ns // 2)
        check(f"ns={ns} {dtype.__name__} shift {a} then {b} vs np.roll by {a + b}",
              fshift(fshift(basis, a), b), np.roll(keep, a + b, axis=1), atol)
        if not np.array_equal(basis, keep):
            failures.append(f"ns={ns} {dtype.__name__}: input array modified")
    # fractional shift of a signal below Nyquist is the analytically delayed signal
    if ns >= 5:
        t = np.arange(ns)
        k = max(1, ns // 5)  # whole number of cycles, below Nyquist
        x = np.cos(2 * np.pi * k * t / ns + 0.3)
        for s in (0.25, -3.6, ns / 3 + 0.123):
            check(f"ns={ns} cosine k={k} fractional shift {s:.3f} vs analytic delay",
                  fshift(x, s), np.cos(2 * np.pi * k * (t - s) / ns + 0.3), 1e-9)
        a, b = 2.22, -1.81
        check(f"ns={ns} cosine k={k} shift {a} then {b} vs analytic delay of {a + b:.2f}",
              fshift(fshift(x, a), b), np.cos(2 * np.pi * k * (t - a - b) / ns + 0.3), 1e-9)

# delay estimation between a waveform and its shifted copy
for ns in (120, 121, 128, 255):
    t = np.arange(ns) - ns // 2
    spike = (1 - (t / 4.0) ** 2) * np.exp(-(t / 4.0) ** 2 / 2)  # mexican hat, analytic
    for s in (4.03, -7.5, 20.25, 35.0):
        spike2 = fshift(spike, s)
        # the shifted copy is the analytic wavelet evaluated at t - s (support is far from the edges)
        check(f"ns={ns} wavelet shifted by {s} vs analytic wavelet", spike2,
              (1 - ((t - s) / 4.0) ** 2) * np.exp(-((t - s) / 4.0) ** 2 / 2), 1e-6)
        resync, shift_computed = wave_shift_corrmax(spike, spike2)
        check(f"ns={ns} wave_shift_corrmax estimated shift for applied {s}", shift_computed, s, 0.05)
        check(f"ns={ns} wave_shift_corrmax re-aligned copy for applied {s}", resync, spike, 0.02)

if failures:
    print(f"C07 VIOLATED: {len(failures)} checks failed, first ones:")
    for f in failures[:25]:
        print("  " + f)
    sys.exit(1)
print("C07 holds: fshift is an exact composable delay on all tested lengths")
sys.exit(0)
