"""
Differential check for refactoring N of property C08 (probe geometry).

Compares the ORIGINAL implementation (pristine copy of HEAD, exported to
/tmp/wt_C08_tmp/orig) with the REFACTORED one:
  - if the worktree /tmp/wt_C08/src is dirty, the refactored code is imported from the worktree;
  - if the worktree is clean, refactor_N.diff is applied to a private copy of HEAD
    (/tmp/wt_C08_tmp/ref_N) and the refactored code is imported from there.
Prints EQUIVALENT and exits 0 if no difference was found.
"""
import copy
import importlib
import logging
import os
import shutil
import subprocess
import sys
from pathlib import Path

import numpy as np

N = 3
WT = Path("/tmp/wt_C08")
TMP = Path("/tmp/wt_C08_tmp")
ORIG = TMP / "orig"
REF = TMP / f"ref_{N}"
DIFF = WT / f"refactor_{N}.diff"
# functions whose source is expected to be changed by this refactoring (module, name)
EXPECT_CHANGED = [
    ("neuropixel", "dense_layout"),
    ("neuropixel", "adc_shifts"),
    ("neuropixel", "trace_header"),
    ("neuropixel", "split_trace_header"),
]
FIXTURES = WT / "src" / "tests" / "fixtures"


# ----------------------------------------------------------------------------------------------
# set-up of the two source trees
# ----------------------------------------------------------------------------------------------
def export_head(dest):
    if dest.exists():
        shutil.rmtree(dest)
    (dest / "ibldsp").mkdir(parents=True)
    files = subprocess.check_output(
        ["git", "-C", str(WT), "ls-files", "src/spikeglx.py", "src/neuropixel.py", "src/ibldsp"], text=True
    ).split()
    for f in files:
        data = subprocess.check_output(["git", "-C", str(WT), "show", f"HEAD:{f}"])
        (dest / Path(f).relative_to("src")).write_bytes(data)


def worktree_dirty():
    return subprocess.call(["git", "-C", str(WT), "diff", "--quiet", "--", "src"]) != 0


def load(path):
    """imports spikeglx and neuropixel from `path`, isolated from any previously imported version"""
    path = str(path)
    for name in list(sys.modules):
        if name in ("spikeglx", "neuropixel") or name == "ibldsp" or name.startswith("ibldsp."):
            del sys.modules[name]
    sys.path.insert(0, path)
    try:
        sglx = importlib.import_module("spikeglx")
        npx = importlib.import_module("neuropixel")
    finally:
        sys.path.remove(path)
    for m in (sglx, npx, sys.modules["ibldsp"]):
        assert os.path.realpath(m.__file__).startswith(os.path.realpath(path) + os.sep), (m.__file__, path)
    assert sglx.neuropixel is npx and npx.spikeglx is sglx
    return sglx, npx


# ----------------------------------------------------------------------------------------------
# comparison helpers
# ----------------------------------------------------------------------------------------------
class _Collect(logging.Handler):
    def __init__(self):
        super().__init__(level=logging.DEBUG)
        self.records = []

    def emit(self, record):
        self.records.append((record.levelname, record.getMessage()))


def call(f, *args, **kwargs):
    """returns a comparable description of the outcome of a call: value or exception, plus the log"""
    logger = logging.getLogger("ibllib")
    handler = _Collect()
    old = (logger.propagate, logger.level)
    logger.addHandler(handler)
    logger.propagate = False
    logger.setLevel(logging.DEBUG)
    try:
        out = ("ok", f(*args, **kwargs))
    except Exception as e:  # noqa
        out = ("raise", type(e).__name__, str(e))
    finally:
        logger.removeHandler(handler)
        logger.propagate, logger.level = old
    return out, handler.records


def same(a, b, where=""):
    """strict recursive comparison: types, key order, dtype, shape, layout and values"""
    if type(a) is not type(b):
        return f"{where}: type {type(a)} != {type(b)}"
    if isinstance(a, dict):
        if list(a.keys()) != list(b.keys()):
            return f"{where}: keys {list(a.keys())} != {list(b.keys())}"
        for k in a:
            r = same(a[k], b[k], f"{where}[{k!r}]")
            if r:
                return r
        return None
    if isinstance(a, (tuple, list)):
        if len(a) != len(b):
            return f"{where}: len {len(a)} != {len(b)}"
        for i, (x, y) in enumerate(zip(a, b)):
            r = same(x, y, f"{where}[{i}]")
            if r:
                return r
        return None
    if isinstance(a, (np.ndarray, np.generic)):
        a_, b_ = np.asarray(a), np.asarray(b)
        if a_.dtype != b_.dtype:
            return f"{where}: dtype {a_.dtype} != {b_.dtype}"
        if a_.shape != b_.shape:
            return f"{where}: shape {a_.shape} != {b_.shape}"
        if isinstance(a, np.ndarray):
            fa = (a.flags.c_contiguous, a.flags.f_contiguous, a.flags.writeable, a.flags.owndata)
            fb = (b.flags.c_contiguous, b.flags.f_contiguous, b.flags.writeable, b.flags.owndata)
            if fa != fb:
                return f"{where}: flags {fa} != {fb}"
        if a_.dtype.kind in "fc":
            if a_.tobytes() != b_.tobytes():  # bit-exact, distinguishes -0.0 and NaN payloads
                return f"{where}: values differ"
        elif not np.array_equal(a_, b_):
            return f"{where}: values differ"
        return None
    if a != b:
        return f"{where}: {a!r} != {b!r}"
    return None


NCHECK = 0
NOK = 0


def check(label, fo, fr, args_factory):
    """calls original and refactored function on independently built, identical arguments"""
    global NCHECK, NOK
    args_o, kw_o = args_factory()
    args_r, kw_r = args_factory()
    ro = call(fo, *args_o, **kw_o)
    rr = call(fr, *args_r, **kw_r)
    msg = same(ro, rr, "result")
    if msg is None:  # the arguments must also be left in the same state
        msg = same((args_o, kw_o), (args_r, kw_r), "args-after-call")
    if msg is not None:
        print(f"DIFFERENT: {label}: {msg}")
        sys.exit(1)
    NCHECK += 1
    NOK += ro[0][0] == "ok"
    return ro


# ----------------------------------------------------------------------------------------------
# input generators
# ----------------------------------------------------------------------------------------------
PROBES = {
    # name: (meta entries, generation, n shanks, n rows, shank-map n cols, geom-map x values, dy)
    "3A": ({"typeEnabled": "imec"}, 1, 1, 480, 2, [27, 59, 11, 43], 20),
    "3B1": ({"imDatPrb_type": 0}, 1, 1, 480, 2, [27, 59, 11, 43], 20),
    "3B2": ({"imDatPrb_type": 0, "imDatPrb_port": 1, "imDatPrb_slot": 2}, 1, 1, 480, 2, [27, 59, 11, 43], 20),
    "NP2.1": ({"imDatPrb_type": 21}, 2, 1, 640, 2, [27, 59], 15),
    "NP2.1b": ({"imDatPrb_type": 1030}, 2, 1, 640, 2, [27, 59], 15),
    "NP2.4": ({"imDatPrb_type": 24}, 2, 4, 640, 2, [27, 59], 15),
    "NP2.4b": ({"imDatPrb_type": 2013}, 2, 4, 640, 2, [27, 59], 15),
    "NPultra": ({"imDatPrb_type": 1100}, "u", 1, 48, 8, [0, 6, 12, 18, 24, 30, 36, 42], 6),
    "unknown-type": ({"imDatPrb_type": 9999}, 2, 4, 640, 2, [27, 59], 15),
    "no-type": ({}, 2, 1, 640, 2, [27, 59], 15),
}


def make_meta(rng, probe, encoding, nsites, order, garbage=False, duplicates=False, shank_key=None):
    base, _, nshank, nrows, ncols, xs, dy = PROBES[probe]
    ngrid = nshank * nrows * ncols
    if garbage:
        shank = rng.integers(0, 6, nsites)
        a = rng.integers(0, 1000, nsites)
        b = rng.integers(0, 10000, nsites)
    else:
        nsites = min(nsites, ngrid)
        sites = rng.choice(ngrid, nsites, replace=duplicates)
        if order == "natural":
            sites = np.sort(sites)
        elif order == "reversed":
            sites = np.sort(sites)[::-1]
        shank, rest = np.divmod(sites, nrows * ncols)
        row, col = np.divmod(rest, ncols)
        if encoding == "shank":
            a, b = col, row
        else:
            a, b = np.array(xs)[col], row * dy
    flag = rng.integers(0, 2, nsites)
    body = "".join(f"({s}:{i}:{j}:{f})" for s, i, j, f in zip(shank, a, b, flag))
    md = dict(base)
    if encoding == "shank":
        md["snsShankMap"] = f"({nshank},{ncols},{nrows})" + body
    else:
        md["snsGeomMap"] = f"(NP1010,{nshank},0,70)" + body
    if shank_key is not None:
        md["NP2.4_shank"] = shank_key
    return md


def geometry_cases(rng):
    """yields (label, meta dict, kwargs)"""
    for probe in PROBES:
        for encoding in ("shank", "geom"):
            for rep in range(14):
                nsites = [384, 384, int(rng.integers(1, 385)), 1, 2, 383][rep % 6]
                order = ["natural", "random", "random", "reversed"][rep % 4]
                garbage = rep == 11
                duplicates = rep == 12
                shank_key = None
                if rep % 3 == 2 or "NP2.4" in probe and rep % 2:
                    shank_key = [0, 1, 2, 3, 7, "2", 1.0][int(rng.integers(0, 7))]
                md = make_meta(rng, probe, encoding, nsites, order, garbage, duplicates, shank_key)
                for sort in (True, False):
                    for return_index in (True, False):
                        kw = dict(sort=sort, return_index=return_index)
                        yield f"{probe}/{encoding}/rep{rep}/{kw}/shank_key={shank_key!r}", md, kw
    # metadata without any site table, empty site tables, different nc
    for probe in PROBES:
        base = PROBES[probe][0]
        for extra in ({}, {"snsShankMap": "(1,2,480)"}, {"snsGeomMap": "(NP1010,1,0,70)"}, {"snsShankMap": ""},
                      {"snsShankMap": "(1,2,480)", "snsGeomMap": "(NP1010,1,0,70)(0:27:0:1)"},
                      {"NP2.4_shank": 1}):
            for nc in (384, 385, 10, 0):
                for return_index in (True, False):
                    kw = dict(nc=nc, return_index=return_index)
                    yield f"{probe}/nomap/{extra}/{kw}", {**base, **extra}, kw
    # both encodings present: the shank map takes precedence
    md = make_meta(rng, "NP2.4", "shank", 384, "random")
    md["snsGeomMap"] = make_meta(rng, "NP2.4", "geom", 384, "random")["snsGeomMap"]
    yield "both-encodings", md, {}
    yield "both-encodings-ri", md, dict(return_index=True, sort=False)
    # malformed entries
    yield "malformed-1", {"imDatPrb_type": 21, "snsShankMap": "(1,2,480)(0:0:0:1)(0::1:1)"}, {}
    yield "malformed-2", {"imDatPrb_type": 21, "snsGeomMap": "(0:27:0:1)(0:59:0)(0:59:15:1:7)"}, {}
    yield "malformed-3", {"imDatPrb_type": 0, "snsShankMap": 12}, {}
    yield "malformed-4", {"imDatPrb_type": 24, "snsShankMap": "(0:0:0:1)(1:1:0:1)", "NP2.4_shank": "x"}, {}


# ----------------------------------------------------------------------------------------------
def main():
    export_head(ORIG)
    if worktree_dirty():
        ref_path = WT / "src"
        print(f"refactored code: worktree {ref_path}")
    else:
        export_head(REF)
        subprocess.check_call(["git", "apply", "-p2", str(DIFF)], cwd=str(REF))
        ref_path = REF
        print(f"refactored code: HEAD + {DIFF.name} in {ref_path} (worktree is clean)")
    print(f"original code:   {ORIG}")

    so, no = load(ORIG)
    sr, nr = load(ref_path)
    assert so is not sr and no is not nr
    assert Path(so.__file__).parent == ORIG and Path(sr.__file__).parent == ref_path, (so.__file__, sr.__file__)
    assert Path(no.__file__).parent == ORIG and Path(nr.__file__).parent == ref_path, (no.__file__, nr.__file__)
    # the refactoring must actually be in place
    import inspect
    mods = {"spikeglx": (so, sr), "neuropixel": (no, nr)}
    for modname, fname in EXPECT_CHANGED:
        mo, mr = mods[modname]
        assert inspect.getsource(getattr(mo, fname)) != inspect.getsource(getattr(mr, fname)), \
            f"{modname}.{fname} is not refactored in {ref_path}"
    # public signatures unchanged
    for mo, mr in mods.values():
        for name, obj in vars(mo).items():
            if inspect.isfunction(obj) and obj.__module__ == mo.__name__ and not name.startswith("_"):
                assert str(inspect.signature(obj)) == str(inspect.signature(getattr(mr, name))), name

    rng = np.random.default_rng(20240808)

    # --- spikeglx.geometry_from_meta and its private helpers ---------------------------------
    ngeom = 0
    for label, md, kw in geometry_cases(rng):
        ro = check(f"geometry_from_meta {label}", so.geometry_from_meta, sr.geometry_from_meta,
                   lambda: ((copy.deepcopy(md),), dict(kw)))
        check(f"_map_channels_from_meta {label}", so._map_channels_from_meta, sr._map_channels_from_meta,
              lambda: ((copy.deepcopy(md),), {}))
        check(f"_get_nshanks_from_meta {label}", so._get_nshanks_from_meta, sr._get_nshanks_from_meta,
              lambda: ((copy.deepcopy(md),), {}))
        ngeom += 1
        # restriction helpers applied on the geometry just obtained
        if ro[0][0] == "ok":
            th = ro[0][1][0] if isinstance(ro[0][1], tuple) else ro[0][1]
            if isinstance(th, dict) and ngeom % 4 == 0:
                for key in (0, 1, 3, 5, "2"):
                    check(f"_split_geometry_into_shanks {label} {key}", so._split_geometry_into_shanks,
                          sr._split_geometry_into_shanks,
                          lambda: ((copy.deepcopy(th), {"NP2.4_shank": key}), {}))
                    check(f"split_trace_header {label} {key}", no.split_trace_header, nr.split_trace_header,
                          lambda: ((copy.deepcopy(th),), dict(shank=key)))
                check(f"_split_geometry_into_shanks {label} nokey", so._split_geometry_into_shanks,
                      sr._split_geometry_into_shanks, lambda: ((copy.deepcopy(th), {}), {}))

    # --- shipped metadata files ---------------------------------------------------------------
    meta_files = sorted(FIXTURES.rglob("*.meta"))
    assert len(meta_files) > 10
    for mf in meta_files:
        check(f"read_geometry {mf.name}", so.read_geometry, sr.read_geometry, lambda: ((mf,), {}))
        for kw in (dict(sort=False), dict(return_index=True), dict(sort=False, return_index=True, nc=12)):
            check(f"geometry_from_meta {mf.name} {kw}",
                  lambda f, **k: so.geometry_from_meta(so.read_meta_data(f), **k),
                  lambda f, **k: sr.geometry_from_meta(sr.read_meta_data(f), **k),
                  lambda: ((mf,), dict(kw)))

    # --- neuropixel grid, ADC tables and canonical layouts ----------------------------------
    versions = [1, 2, 2.4, "NPultra", 1.0, 2.0, np.float64(2.4), np.int64(1), np.float32(2.4), 3, 0, 2.9, -1,
                None, "foo", True, "1", [1]]
    for v in versions:
        for nc in (384, 0, 1, 12, 13, 100, 383, 500, -3, None, 2.0):
            kw = {} if nc == 384 else dict(nc=nc)
            check(f"adc_shifts {v!r} {nc!r}", no.adc_shifts, nr.adc_shifts, lambda: ((), dict(version=v, **kw)))
        check(f"adc_shifts positional {v!r}", no.adc_shifts, nr.adc_shifts, lambda: ((v, 20), {}))
        for nshank in (1, 4, 2, 0, None):
            check(f"dense_layout {v!r} {nshank}", no.dense_layout, nr.dense_layout,
                  lambda: ((), dict(version=v, nshank=nshank)))
            ro = check(f"trace_header {v!r} {nshank}", no.trace_header, nr.trace_header,
                       lambda: ((), dict(version=v, nshank=nshank)))
            if ro[0][0] == "ok":
                h = ro[0][1]
                for shank in (0, 1, 2, 3, 4, 1.0, "a"):
                    check(f"split_trace_header {v!r} {nshank} {shank!r}", no.split_trace_header,
                          nr.split_trace_header, lambda: ((copy.deepcopy(h),), dict(shank=shank)))
                check("split_trace_header default", no.split_trace_header, nr.split_trace_header,
                      lambda: ((copy.deepcopy(h),), {}))
        check(f"dense_layout positional {v!r}", no.dense_layout, nr.dense_layout, lambda: ((v,), {}))
        check(f"trace_header positional {v!r}", no.trace_header, nr.trace_header, lambda: ((v, 4), {}))
        coords = [
            (rng.integers(0, 1000, 50), rng.integers(0, 1000, 50)),
            (rng.integers(0, 1000, 50).astype(np.float32), rng.integers(0, 1000, 50).astype(np.float32)),
            (rng.normal(size=(4, 5)), rng.normal(size=(4, 5))),
            (rng.integers(0, 100, 7).astype(np.int16), rng.integers(0, 100, 7).astype(np.uint8)),
            (3, 7), (2.5, np.float32(1.5)), (np.array([]), np.array([])), ([1, 2], [3, 4]), (None, 1),
            (np.array([np.nan, np.inf, -0.0]), np.array([0.0, -np.inf, np.nan])),
        ]
        for i, (p, q) in enumerate(coords):
            check(f"xy2rc {v!r} #{i}", no.xy2rc, nr.xy2rc, lambda: ((copy.deepcopy(p), copy.deepcopy(q)), dict(version=v)))
            check(f"rc2xy {v!r} #{i}", no.rc2xy, nr.rc2xy, lambda: ((copy.deepcopy(p), copy.deepcopy(q)), dict(version=v)))
            check(f"xy2rc kw {v!r} #{i}", no.xy2rc, nr.xy2rc, lambda: ((), dict(y=copy.deepcopy(q), x=copy.deepcopy(p), version=v)))
            check(f"rc2xy kw {v!r} #{i}", no.rc2xy, nr.rc2xy, lambda: ((), dict(col=copy.deepcopy(q), row=copy.deepcopy(p), version=v)))
    check("defaults xy2rc", no.xy2rc, nr.xy2rc, lambda: ((np.arange(5), np.arange(5)), {}))
    check("defaults rc2xy", no.rc2xy, nr.rc2xy, lambda: ((np.arange(5), np.arange(5)), {}))
    check("defaults adc_shifts", no.adc_shifts, nr.adc_shifts, lambda: ((), {}))
    check("defaults dense_layout", no.dense_layout, nr.dense_layout, lambda: ((), {}))
    check("defaults trace_header", no.trace_header, nr.trace_header, lambda: ((), {}))
    # module constants
    assert same(no.CHANNEL_GRID, nr.CHANNEL_GRID) is None and no.NC == nr.NC

    print(f"{NCHECK} differential checks ({NOK} returning a value, {NCHECK - NOK} raising the same exception)")
    print("EQUIVALENT")


if __name__ == "__main__":
    main()
