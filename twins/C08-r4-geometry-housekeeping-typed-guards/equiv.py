import sys, os; sys.path.insert(0, os.path.join(os.path.dirname(os.path.abspath(__file__)), "src"))
"""
Differential equivalence check for the C08 housekeeping clean-up (probe geometry code).

The ORIGINAL implementations of every function touched by the patch are copied verbatim below (reference
functions) and compared, on a few thousand seeded random and edge-case inputs, against the functions of the
sources found in ./src: same python types, same dictionary keys in the same order, same dtypes, shapes and
values, same exception types, same log messages, same (absence of) side effects on the inputs.
Exits 0 when everything is identical, 1 with a message otherwise.
"""
import copy
import logging
import numbers
import re
import types
import warnings

import numpy as np

import neuropixel as new_neuropixel
import spikeglx as new_spikeglx

_logger = logging.getLogger("ibllib")

# --------------------------------------------------------------------------------------------------------
# reference: verbatim copies of the ORIGINAL src/neuropixel.py functions (and the constants they use)
# --------------------------------------------------------------------------------------------------------
NC = 384
CHANNEL_GRID = {
    1: dict(DX=16, X0=11, DY=20, Y0=20),
    2: dict(DX=32, X0=27, DY=15, Y0=20),
    "NPultra": dict(DX=6, X0=0, DY=6, Y0=0)
}


def xy2rc(x, y, version=1):
    """
    converts the um indices to row/col coordinates.
    :param y: row coordinate on the probe
    :param x: col coordinate on the probe
    :param version: neuropixel major version 1 or 2
    :return: dictionary with keys x and y
    """
    version = np.floor(version) if isinstance(version, numbers.Number) else version
    grid = CHANNEL_GRID[version]
    col = (x - grid['X0']) / grid['DX']
    row = (y - grid['Y0']) / grid['DY']
    return {"col": col, "row": row}


def rc2xy(row, col, version=1):
    """
    converts the row/col indices to um coordinates.
    :param row: row index on the probe
    :param col: col index on the probe
    :param version: neuropixel major version 1 or 2
    :return: dictionary with keys x and y
    """
    version = np.floor(version) if isinstance(version, numbers.Number) else version
    grid = CHANNEL_GRID[version]
    x = col * grid['DX'] + grid['X0']
    y = row * grid['DY'] + grid['Y0']
    return {"x": x, "y": y}


def dense_layout(version=1, nshank=1):
    """
    Returns a dense layout indices map for neuropixel, as used at IBL
    :param version: major version number: 1 or 2 or 2.4
    :return: dictionary with keys 'ind', 'col', 'row', 'x', 'y'
    """
    ch = {
        "ind": np.arange(NC),
        "row": np.floor(np.arange(NC) / 2),
        "shank": np.zeros(NC),
    }

    if version == 1:  # version 1 has a dense layout, checkerboard pattern
        ch.update({"col": np.tile(np.array([2, 0, 3, 1]), int(NC / 4))})
    elif version == "NPultra":  # NPultra has 8 columns with square grid spacing
        ch.update({"row": np.floor(np.arange(NC) / 8)})
        ch.update({"col": np.tile(np.arange(8), int(NC / 8))})
    elif (
        np.floor(version) == 2 and nshank == 1
    ):  # single shank NP1 has 2 columns in a dense patter
        ch.update({"col": np.tile(np.array([0, 1]), int(NC / 2))})
    elif (
        np.floor(version) == 2 and nshank == 4
    ):  # the 4 shank version default is rather complicated
        shank_row = np.tile(np.arange(NC / 16), (2, 1)).T[:, np.newaxis].flatten()
        shank_row = np.tile(shank_row, 8)
        shank_row += (
            np.tile(
                np.array([0, 0, 1, 1, 0, 0, 1, 1])[:, np.newaxis], (1, int(NC / 8))
            ).flatten()
            * 24
        )
        ch.update(
            {
                "col": np.tile(np.array([0, 1]), int(NC / 2)),
                "shank": np.tile(
                    np.array([0, 1, 0, 1, 2, 3, 2, 3])[:, np.newaxis], (1, int(NC / 8))
                ).flatten(),
                "row": shank_row,
            }
        )
    # for all, get coordinates
    ch.update(rc2xy(ch["row"], ch["col"], version=version))
    return ch


def adc_shifts(version=1, nc=NC):
    """
    Neuropixel NP1
    The sampling is serial within the same ADC, but it happens at the same time in all ADCs.
    The ADC to channel mapping is done per odd and even channels:
    ADC1: ch1, ch3, ch5, ch7...
    ADC2: ch2, ch4, ch6....
    ADC3: ch33, ch35, ch37...
    ADC4: ch34, ch36, ch38...
    Therefore, channels 1, 2, 33, 34 get sample at the same time. I hope this is more or
    less clear. In 1.0, it is similar, but there we have 32 ADC that sample each 12 channels."
    - Nick on Slack after talking to Carolina - ;-)

    There are 384 channels (each with AP and LFP) divided into 32 groups (each group containing 1 ADC)
    The ADC cycle is at 30kHz * 13 = 360 kHz (hence the 13 cycles per AP sample).
    The ADC (from what I understand) goes like this : AP1-AP2-AP3-...-AP11-AP12-LF1-AP1-AP2-...-AP12-LF2-AP1-...
    A. Wyngaard

    For NP2 there are 16 cycles

    The probe always records from all 384 channels; you can disable sites, but they actually still get read back.
    The sample time shifts are always the same for a given channel -- each channel is hardwired to a specific
     ADC and has a specific order in the sampling lineup. So you should always calculate
      the sample shift based on the original channel number. In the SpikeGLX metadata,
      these are listed in the snsSaveChannelSubset field.

    :param version: neuropixel major version 1 or 2
    :param nc: number of channels
    """
    if version == 1 or version == "NPultra":
        adc_channels = 12
        n_cycles = 13
        # version 1 uses 32 ADC that sample 12 channels each
    elif np.floor(version) == 2:
        # version 2 uses 24 ADC that sample 16 channels each
        adc_channels = n_cycles = 16
    adc = np.floor(np.arange(NC) / (adc_channels * 2)) * 2 + np.mod(np.arange(NC), 2)
    sample_shift = np.zeros_like(adc)
    for a in adc:
        sample_shift[adc == a] = np.arange(adc_channels) / n_cycles
    return sample_shift[:nc], adc[:nc]


def trace_header(version=1, nshank=1):
    """
    Returns the channel map for the dense layouts used at IBL. The following pairs are commonly used:
    version=1: NP1: returns single shank dense layout with 4 columns in checkerboard pattern
    version=2, nshank=1: NP2: returns single shank dense layout with 2 columns in-line
    version=2, nshank=4: NP2: returns 4 shanks dense layout with columns in-line
    Whenever possible, it is recommended to read the geometry using `spikeglx.Reader.geometry()` method to
     ensure the channel maps corresponds the actually read data.`
    :param version: major version number: 1 or 2
    :param nshank: (defaults 1) number of shanks for NP2
    :return: , returns a dictionary with keys
    x, y, row, col, ind, adc and sampleshift vectors corresponding to each site
    """
    h = dense_layout(version=version, nshank=nshank)
    h["sample_shift"], h["adc"] = adc_shifts(version=version)
    return h


def split_trace_header(h, shank=0):
    """
    Split the trace header into values for a specific shank. Applicable for NP2.4 probes
    :param h:
    :param shank:
    :return:
    """
    shank_idx = np.where(h["shank"] == shank)[0]
    h_shank = {key: h[key][shank_idx] for key in h.keys()}
    return h_shank

# the original spikeglx functions reach the neuropixel functions through the module name
neuropixel = types.SimpleNamespace(
    xy2rc=xy2rc, rc2xy=rc2xy, dense_layout=dense_layout, adc_shifts=adc_shifts, trace_header=trace_header,
    split_trace_header=split_trace_header,
)
# unchanged by the patch, used by the original geometry_from_meta
_get_neuropixel_major_version_from_meta = new_spikeglx._get_neuropixel_major_version_from_meta

# --------------------------------------------------------------------------------------------------------
# reference: verbatim copies of the ORIGINAL src/spikeglx.py functions
# --------------------------------------------------------------------------------------------------------
def _split_geometry_into_shanks(th, meta_data):
    """
    Reduces the geometry information to that pertaining to specific shank
    :param th:
    :param meta_data:
    :return:
    """
    if "NP2.4_shank" in meta_data.keys():
        shank_idx = np.where(th["shank"] == int(meta_data["NP2.4_shank"]))[0]
        th = {key: th[key][shank_idx] for key in th.keys()}

    return th


def geometry_from_meta(meta_data, return_index=False, nc=384, sort=True):
    """
    Gets the geometry, ie. the full trace header for the recording
    :param meta_data: meta_data dictionary as read by ibllib.io.spikeglx.read_meta_data
    :param return_index: (False): flag to optionally return the sorted indices
    :param sort: (True) sort the geometry by shank row col
    :param nc: number of channels if geometry is not in the metadata file
    :return: dictionary with keys 'row', 'col', 'ind', 'shank', 'adc', 'x', 'y', 'sample_shift'
    """
    cm = _map_channels_from_meta(meta_data)
    major_version = _get_neuropixel_major_version_from_meta(meta_data)
    if cm is None or all(map(lambda x: x is None, cm.values())):
        _logger.warning("Meta data doesn't have geometry (snsShankMap/snsGeomMap field), returning defaults")
        if major_version is None:
            if return_index:
                return None, None
            else:
                return None
        th = neuropixel.trace_header(version=major_version)
        th["flag"] = th["x"] * 0 + 1.0
        if return_index:
            return th, np.arange(nc)
        else:
            return th
    th = cm.copy()
    # as of 2023-04 spikeglx stores only x, y coordinates of sites in UM and no col / row. Here
    # we convert to col / row for consistency with previous versions
    if "x" in cm.keys():
        # the spike sorting channel maps have a flipped version of the channel map
        # there is a 20um offset between the probe tip and the first site in the coordinate conversion
        if major_version == 1:
            th["x"] = 70 - (th["x"])
        th["y"] += 20
        th.update(neuropixel.xy2rc(th["x"], th["y"], version=major_version))
    else:
        # the spike sorting channel maps have a flipped version of the channel map
        if major_version == 1:
            th["col"] = - cm["col"] * 2 + 2 + np.mod(cm["row"], 2)
        th.update(neuropixel.rc2xy(th["row"], th["col"], version=major_version))
    th["sample_shift"], th["adc"] = neuropixel.adc_shifts(
        version=major_version, nc=th["col"].size
    )
    th = _split_geometry_into_shanks(th, meta_data)
    th["ind"] = np.arange(th["col"].size)
    if sort:
        # here we sort the channels by shank, row and -col, this preserves the original NP1
        # order while still allowing to deal with creative imro tables in NP2
        sort_keys = np.c_[-th['col'], th['row'], th['shank']]
        inds = np.lexsort(sort_keys.T)
        th = {k: v[inds] for k, v in th.items()}
    else:
        inds = np.arange(th['col'].size)
    if return_index:
        return th, inds
    else:
        return th


def _map_channels_from_meta(meta_data):
    """
    Interpret the meta data string to extract an array of channel positions along the shank

    :param meta_data: dictionary output from  spikeglx.read_meta_data
    :return: dictionary of arrays 'shank', 'col', 'row', 'flag', one value per active site
    """
    if "snsShankMap" in meta_data.keys():
        chmap = re.findall(r"([0-9]*:[0-9]*:[0-9]*:[0-9]*)", meta_data["snsShankMap"])
        key_names = {"shank": 0, "col": 1, "row": 2, "flag": 3}
    elif "snsGeomMap" in meta_data.keys():
        chmap = re.findall(r"([0-9]*:[0-9]*:[0-9]*:[0-9]*)", meta_data["snsGeomMap"])
        key_names = {"shank": 0, "x": 1, "y": 2, "flag": 3}
    else:
        return None
    # for digital nidq types, the key exists but does not contain any information
    if not chmap:
        return {"shank": None, "col": None, "row": None, "flag": None}
    # shank#, col#, row#, drawflag
    # (nb: drawflag is one should be drawn and considered spatial average)
    chmap = np.array([np.float32(cm.split(":")) for cm in chmap])
    return {k: chmap[:, v] for (k, v) in key_names.items()}

# --------------------------------------------------------------------------------------------------------
# comparison machinery
# --------------------------------------------------------------------------------------------------------
class _ListHandler(logging.Handler):
    def __init__(self):
        super().__init__()
        self.messages = []

    def emit(self, record):
        self.messages.append((record.levelno, record.getMessage()))


_handler = _ListHandler()
_logger.addHandler(_handler)
_logger.propagate = False
_logger.setLevel(logging.DEBUG)


def same(a, b, path="result"):
    """Returns None if a and b are identical, otherwise a string describing the first difference"""
    if type(a) is not type(b):
        return f"{path}: type {type(a).__name__} != {type(b).__name__}"
    if isinstance(a, dict):
        if list(a.keys()) != list(b.keys()):
            return f"{path}: keys {list(a.keys())} != {list(b.keys())}"
        for k in a:
            d = same(a[k], b[k], f"{path}[{k!r}]")
            if d:
                return d
        return None
    if isinstance(a, (tuple, list)):
        if len(a) != len(b):
            return f"{path}: length {len(a)} != {len(b)}"
        for i, (x, y) in enumerate(zip(a, b)):
            d = same(x, y, f"{path}[{i}]")
            if d:
                return d
        return None
    if isinstance(a, np.ndarray):
        if a.dtype != b.dtype:
            return f"{path}: dtype {a.dtype} != {b.dtype}"
        if a.shape != b.shape:
            return f"{path}: shape {a.shape} != {b.shape}"
        if not np.array_equal(a, b, equal_nan=a.dtype.kind == "f"):
            return f"{path}: values differ"
        if a.dtype.kind == "f" and not np.array_equal(np.signbit(a), np.signbit(b)):
            return f"{path}: signs of zeros differ"
        if a.flags.writeable != b.flags.writeable:
            return f"{path}: writeable flag differs"
        return None
    if isinstance(a, np.generic):
        if a.dtype != b.dtype or not (a == b or (a != a and b != b)):
            return f"{path}: {a!r} != {b!r}"
        return None
    if a != b:
        return f"{path}: {a!r} != {b!r}"
    return None


def run(func, args, kwargs):
    """Runs func on a private deep copy of the arguments, returns (outcome, arguments after the call, logs)"""
    args, kwargs = copy.deepcopy((args, kwargs))
    _handler.messages = []
    try:
        with warnings.catch_warnings():
            warnings.simplefilter("ignore")
            out = ("ok", func(*args, **kwargs))
    except Exception as e:  # noqa
        out = ("raised", type(e))
    return out, (args, kwargs), list(_handler.messages)


N_CASES = 0
N_RAISED = 0
FAILURES = []


def check(name, ref, new, *args, **kwargs):
    global N_CASES, N_RAISED
    N_CASES += 1
    out_ref, in_ref, log_ref = run(ref, args, kwargs)
    out_new, in_new, log_new = run(new, args, kwargs)
    N_RAISED += out_ref[0] == "raised"
    diff = (
        same(out_ref, out_new, "outcome")
        or same(in_ref, in_new, "arguments after the call")
        or same(log_ref, log_new, "log messages")
    )
    if diff is None and out_ref[0] == "ok":
        diff = aliasing(out_ref[1], in_ref) != aliasing(out_new[1], in_new) and "aliasing of the inputs differs"
    if diff:
        FAILURES.append(f"{name}: {diff}")
        if len(FAILURES) <= 10:
            print(f"DIFFERENCE in {name}{args!r:.300}{kwargs!r:.100}: {diff}")


def _arrays(obj):
    if isinstance(obj, np.ndarray):
        yield obj
    elif isinstance(obj, dict):
        for v in obj.values():
            yield from _arrays(v)
    elif isinstance(obj, (tuple, list)):
        for v in obj:
            yield from _arrays(v)


def aliasing(out, inputs):
    """For each output array, whether it shares memory with one of the input arrays"""
    ins = list(_arrays(inputs))
    return [any(np.shares_memory(o, i) for i in ins) for o in _arrays(out)]


# --------------------------------------------------------------------------------------------------------
# input generation
# --------------------------------------------------------------------------------------------------------
rng = np.random.default_rng(20261004)

# probe type -> (version keys of the metadata, number of shanks, columns of the shank map, rows, geom map x)
PROBES = {
    "3A": (dict(typeEnabled="1,1,1"), 1, 2, 480),
    "3B1": (dict(imDatPrb_type=0), 1, 2, 480),
    "3B2": (dict(imDatPrb_type=0, imDatPrb_port=1, imDatPrb_slot=2), 1, 2, 480),
    "NP2.1": (dict(imDatPrb_type=21), 1, 2, 640),
    "NP2.1b": (dict(imDatPrb_type=1030), 1, 2, 640),
    "NP2.4": (dict(imDatPrb_type=24), 4, 2, 640),
    "NP2.4b": (dict(imDatPrb_type=2013), 4, 2, 640),
    "NPultra": (dict(imDatPrb_type=1100), 1, 8, 48),
    "unknown": (dict(imDatPrb_type=9999), 1, 2, 480),
    "none": (dict(), 4, 2, 640),
}


def random_sites(ptype, n=None, unique=True):
    """Random selection of n sites (shank, col, row) on the grid of the probe, in random channel order"""
    _, nshank, ncol, nrow = PROBES[ptype]
    total = nshank * ncol * nrow
    n = int(rng.integers(1, NC + 1)) if n is None else n
    n = min(n, total) if unique else n
    style = rng.integers(0, 4)
    if not unique:
        flat = rng.integers(0, total, n)
    elif style == 0:  # contiguous block, acquisition order
        start = int(rng.integers(0, total - n + 1))
        flat = np.arange(start, start + n)
    elif style == 1:  # contiguous block, shuffled
        start = int(rng.integers(0, total - n + 1))
        flat = rng.permutation(np.arange(start, start + n))
    else:  # scattered
        flat = rng.choice(total, n, replace=False)
        if style == 2:
            flat = np.sort(flat)
    shank, rem = np.divmod(flat, ncol * nrow)
    row, col = np.divmod(rem, ncol)
    return shank, col, row


def site_map_string(ptype, encoding, sites, header=True):
    shank, col, row = sites
    flag = rng.integers(0, 2, shank.size)
    if encoding == "snsShankMap":
        a, b = col, row
        head = f"({PROBES[ptype][1]},{PROBES[ptype][2]},{PROBES[ptype][3]})"
    else:  # geometry map: um coordinates relative to the first site, NP1 is mirrored
        major = 1 if ptype in ("3A", "3B1", "3B2", "unknown") else ("NPultra" if ptype == "NPultra" else 2)
        if major == 1:  # in the NP1 shank map the 2 columns are staggered, the geometry map has the 4 x positions
            col = -col * 2 + 2 + np.mod(row, 2)
        grid = CHANNEL_GRID[major]
        x = col * grid["DX"] + grid["X0"]
        a = 70 - x if major == 1 else x
        b = row * grid["DY"]
        head = f"(NP{rng.integers(1000, 3000)},{PROBES[ptype][1]},{rng.integers(0, 300)},70)"
    body = "".join(f"({s}:{u}:{v}:{f})" for s, u, v, f in zip(shank, a, b, flag))
    return (head if header else "") + body


def random_meta(ptype=None, encoding=None, **kwargs):
    ptype = ptype or str(rng.choice(list(PROBES)))
    encoding = encoding or str(rng.choice(["snsShankMap", "snsGeomMap"]))
    md = dict(PROBES[ptype][0])
    md["typeThis"] = "imec"
    md[encoding] = site_map_string(ptype, encoding, random_sites(ptype, **kwargs))
    if PROBES[ptype][1] == 4 and rng.random() < 0.5:
        shank = int(rng.integers(0, 5))  # 4 is a shank without sites
        md["NP2.4_shank"] = [shank, str(shank), float(shank)][rng.integers(0, 3)]
    return md


def geometry_kwargs():
    kw = {}
    if rng.random() < 0.6:
        kw["return_index"] = bool(rng.integers(0, 2))
    if rng.random() < 0.6:
        kw["sort"] = bool(rng.integers(0, 2))
    if rng.random() < 0.3:
        kw["nc"] = int(rng.integers(0, 400))
    return kw


def check_geometry(md, **kw):
    check("_map_channels_from_meta", _map_channels_from_meta, new_spikeglx._map_channels_from_meta, md)
    check("geometry_from_meta", geometry_from_meta, new_spikeglx.geometry_from_meta, md, **kw)


# --------------------------------------------------------------------------------------------------------
# 1. geometry from metadata: random selections of sites for all probe types, both encodings
# --------------------------------------------------------------------------------------------------------
for ptype in PROBES:
    for encoding in ("snsShankMap", "snsGeomMap"):
        for _ in range(40):
            check_geometry(random_meta(ptype, encoding), **geometry_kwargs())
        for n in (1, 2, 383, 384):
            for kw in (dict(), dict(return_index=True), dict(sort=False), dict(return_index=True, sort=False)):
                check_geometry(random_meta(ptype, encoding, n=n), **kw)
        # the same site listed several times
        for _ in range(5):
            check_geometry(random_meta(ptype, encoding, unique=False), **geometry_kwargs())

# the same sites in both encodings, as positional arguments
for _ in range(60):
    ptype = str(rng.choice(list(PROBES)))
    sites = random_sites(ptype)
    for encoding in ("snsShankMap", "snsGeomMap"):
        md = dict(PROBES[ptype][0], **{encoding: site_map_string(ptype, encoding, sites)})
        check("geometry_from_meta", geometry_from_meta, new_spikeglx.geometry_from_meta, md, True, 384, bool(rng.integers(0, 2)))

# edge cases of the metadata
for ptype in PROBES:
    version_keys = PROBES[ptype][0]
    for kw in (dict(), dict(return_index=True), dict(return_index=True, nc=12), dict(sort=False, nc=0)):
        # no site map at all: defaults or None
        check_geometry(dict(version_keys, typeThis="imec"), **kw)
        # site map without any entry (nidq style), or with the header only
        check_geometry(dict(version_keys, snsShankMap=""), **kw)
        check_geometry(dict(version_keys, snsGeomMap="(NP1010,1,0,70)"), **kw)
        check_geometry(dict(version_keys, snsShankMap="(1,2,480)", snsGeomMap="(0:27:0:1)"), **kw)
        # both encodings present: the shank map wins
        sites = random_sites(ptype)
        check_geometry(dict(version_keys, snsShankMap=site_map_string(ptype, "snsShankMap", sites),
                            snsGeomMap=site_map_string(ptype, "snsGeomMap", sites)), **kw)
        # entries without header, with spaces or line feeds between them
        s = site_map_string(ptype, "snsShankMap", random_sites(ptype, n=17), header=False)
        check_geometry(dict(version_keys, snsShankMap=s.replace(")(", ") (")), **kw)
        check_geometry(dict(version_keys, snsGeomMap=s.replace(")(", ")\n(")), **kw)
        # malformed entries: empty fields, huge numbers, leading zeros, 5 fields, non string values
        check_geometry(dict(version_keys, snsShankMap="(1,2,480)(0:0:0:1)(0:1::1)"), **kw)
        check_geometry(dict(version_keys, snsGeomMap="(:::)"), **kw)
        check_geometry(dict(version_keys, snsShankMap="(0:0:16777217:1)(0:1:123456789012345678901234567890:1)"), **kw)
        check_geometry(dict(version_keys, snsGeomMap="(00:027:0015:01)(0:59:00:0)"), **kw)
        check_geometry(dict(version_keys, snsShankMap="(0:0:1:1:7)(0:1:2:1:8:9:10:11)"), **kw)
        check_geometry(dict(version_keys, snsShankMap=None), **kw)
        check_geometry(dict(version_keys, snsGeomMap=["(0:27:0:1)"]), **kw)
        check_geometry(dict(version_keys, snsShankMap=b"(0:0:1:1)"), **kw)
        # shank selection given in odd ways
        for shank in (0, "1", 2.0, "x", None, 7):
            md = random_meta(ptype)
            md["NP2.4_shank"] = shank
            check_geometry(md, **kw)
check("geometry_from_meta", geometry_from_meta, new_spikeglx.geometry_from_meta, {})

# --------------------------------------------------------------------------------------------------------
# 2. restriction to one shank
# --------------------------------------------------------------------------------------------------------
def random_header():
    n = int(rng.integers(0, 400))
    h = {
        "shank": rng.integers(0, 4, n).astype(rng.choice([np.float32, np.float64, np.int64, np.int8])),
        "x": rng.normal(size=n).astype(np.float32),
        "ind": np.arange(n),
        "flag": rng.integers(0, 2, n).astype(bool),
        "wav": rng.normal(size=(n, 3)),
    }
    keys = list(h.keys())
    return {k: h[k] for k in rng.permutation(keys)[: rng.integers(1, len(keys) + 1)]} | {"shank": h["shank"]}


for _ in range(150):
    h = random_header()
    shank = [0, 1, 3, 4, 2.0, np.float32(1), "1", None][rng.integers(0, 8)]
    check("split_trace_header", split_trace_header, new_neuropixel.split_trace_header, h, shank)
    check("split_trace_header", split_trace_header, new_neuropixel.split_trace_header, h, shank=shank)
    check("split_trace_header", split_trace_header, new_neuropixel.split_trace_header, h)
    for md in (dict(), {"NP2.4_shank": shank}, {"NP2.4_shank": str(rng.integers(0, 5))}, {"other": 1}):
        check("_split_geometry_into_shanks", _split_geometry_into_shanks, new_spikeglx._split_geometry_into_shanks, h, md)
for version, nshank in ((1, 1), (2, 1), (2, 4), (2.4, 4), ("NPultra", 1)):
    h = trace_header(version, nshank)
    for shank in range(5):
        check("split_trace_header", split_trace_header, new_neuropixel.split_trace_header, h, shank)
        check("_split_geometry_into_shanks", _split_geometry_into_shanks, new_spikeglx._split_geometry_into_shanks,
              h, {"NP2.4_shank": shank})
check("split_trace_header", split_trace_header, new_neuropixel.split_trace_header, {"x": np.arange(3)}, 0)
check("_split_geometry_into_shanks", _split_geometry_into_shanks, new_spikeglx._split_geometry_into_shanks,
      {"x": np.arange(3)}, {"NP2.4_shank": 0})
check("_split_geometry_into_shanks", _split_geometry_into_shanks, new_spikeglx._split_geometry_into_shanks,
      {"x": np.arange(3)}, {})

# --------------------------------------------------------------------------------------------------------
# 3. canonical layouts, ADC groups and delays, grid conversions
# --------------------------------------------------------------------------------------------------------
VERSIONS = [1, 1.0, np.float64(1), 2, 2.0, 2.1, 2.4, np.float32(2.4), "NPultra", 0, 3, 1.5, "NP2.4", None, True]
for version in VERSIONS:
    for nshank in (1, 4, 2, 0):
        check("dense_layout", dense_layout, new_neuropixel.dense_layout, version, nshank)
        check("dense_layout", dense_layout, new_neuropixel.dense_layout, version=version, nshank=nshank)
        check("trace_header", trace_header, new_neuropixel.trace_header, version, nshank)
    check("dense_layout", dense_layout, new_neuropixel.dense_layout, version)
    check("adc_shifts", adc_shifts, new_neuropixel.adc_shifts, version)
    for nc in (0, 1, 12, 13, 32, 96, 383, 384, 385, 1000, -4, int(rng.integers(0, 400)), int(rng.integers(0, 400))):
        check("adc_shifts", adc_shifts, new_neuropixel.adc_shifts, version, nc)
        check("adc_shifts", adc_shifts, new_neuropixel.adc_shifts, version=version, nc=nc)
    for _ in range(12):
        n = int(rng.integers(0, 400))
        dtype = rng.choice([np.float32, np.float64, np.int64, np.int16])
        u = (rng.normal(size=n) * 500).astype(dtype)
        v = (rng.normal(size=n) * 500).astype(dtype)
        check("xy2rc", xy2rc, new_neuropixel.xy2rc, u, v, version)
        check("xy2rc", xy2rc, new_neuropixel.xy2rc, x=u, y=v, version=version)
        check("rc2xy", rc2xy, new_neuropixel.rc2xy, u, v, version)
    check("xy2rc", xy2rc, new_neuropixel.xy2rc, 43, 2000, version)
    check("xy2rc", xy2rc, new_neuropixel.xy2rc, 27.0, np.float32(35), version)
check("dense_layout", dense_layout, new_neuropixel.dense_layout)
check("adc_shifts", adc_shifts, new_neuropixel.adc_shifts)
check("trace_header", trace_header, new_neuropixel.trace_header)

# --------------------------------------------------------------------------------------------------------
# 4. the defaults of the signatures are unchanged
# --------------------------------------------------------------------------------------------------------
import inspect  # noqa


def signature(f):
    return [(p.name, p.kind, p.default) for p in inspect.signature(f).parameters.values()]


for name, ref, new in (
    ("xy2rc", xy2rc, new_neuropixel.xy2rc),
    ("rc2xy", rc2xy, new_neuropixel.rc2xy),
    ("dense_layout", dense_layout, new_neuropixel.dense_layout),
    ("adc_shifts", adc_shifts, new_neuropixel.adc_shifts),
    ("trace_header", trace_header, new_neuropixel.trace_header),
    ("split_trace_header", split_trace_header, new_neuropixel.split_trace_header),
    ("_split_geometry_into_shanks", _split_geometry_into_shanks, new_spikeglx._split_geometry_into_shanks),
    ("geometry_from_meta", geometry_from_meta, new_spikeglx.geometry_from_meta),
    ("_map_channels_from_meta", _map_channels_from_meta, new_spikeglx._map_channels_from_meta),
):
    N_CASES += 1
    if signature(ref) != signature(new):
        FAILURES.append(f"{name}: signature {signature(ref)} != {signature(new)}")

if FAILURES:
    print(f"NOT EQUIVALENT: {len(FAILURES)} differences out of {N_CASES} cases, first ones:")
    for f in FAILURES[:20]:
        print("   ", f)
    sys.exit(1)
print(f"identical results on {N_CASES} cases ({N_RAISED} of them raising the same exception type)")
sys.exit(0)
