import sys, os; sys.path.insert(0, os.path.join(os.path.dirname(os.path.abspath(__file__)), "src"))
"""
Differential equivalence check for the r5 performance clean-up of the probe geometry code (property C08).

The functions below the "REFERENCE" banner are verbatim copies of the ORIGINAL implementations of every function
that the patch changes (neuropixel.dense_layout, neuropixel.adc_shifts, spikeglx._map_channels_from_meta,
spikeglx.geometry_from_meta) plus neuropixel.trace_header (unchanged, copied so that it calls the reference
dense_layout / adc_shifts).  The script feeds the same seeded random and edge-case inputs to the reference and to the
sources found in ./src and compares the outcomes exactly: key order, types, dtypes, shapes, strides, raw bytes
(so that -0.0 / 0.0 and NaN payloads count), and the exception type when one is raised.

exit code 0: everything identical, 1: at least one difference (a message is printed)
"""
import copy
import logging
import re
import types
import warnings

import numpy as np

import neuropixel as new_neuropixel
import spikeglx as new_spikeglx

logging.getLogger("ibllib").setLevel(logging.CRITICAL)

# --------------------------------------------------------------------------------------------------------------------
# REFERENCE: verbatim copies of the original implementations
# --------------------------------------------------------------------------------------------------------------------
_logger = logging.getLogger("ibllib")
NC = new_neuropixel.NC
rc2xy = new_neuropixel.rc2xy  # unchanged by the patch
xy2rc = new_neuropixel.xy2rc  # unchanged by the patch
_split_geometry_into_shanks = new_spikeglx._split_geometry_into_shanks  # unchanged by the patch
_get_neuropixel_major_version_from_meta = new_spikeglx._get_neuropixel_major_version_from_meta  # unchanged


def dense_layout(version=1, nshank=1):
    """
    Returns a dense layout indices map for neuropixel, as used at IBL
    :param version: major version number: 1 or 2 or 2.4
    :return: dictionary with keys 'ind', 'col', 'row', 'x', 'y'
    """
    ch = {
        "ind": np.arange(NC),
        "row": np.floor(np.arange(NC) / 2),
        "shank": np.zeros(NC),
    }

    if version == 1:  # version 1 has a dense layout, checkerboard pattern
        ch.update({"col": np.tile(np.array([2, 0, 3, 1]), int(NC / 4))})
    elif version == "NPultra":  # NPultra has 8 columns with square grid spacing
        ch.update({"row": np.floor(np.arange(NC) / 8)})
        ch.update({"col": np.tile(np.arange(8), int(NC / 8))})
    elif (
        np.floor(version) == 2 and nshank == 1
    ):  # single shank NP1 has 2 columns in a dense patter
        ch.update({"col": np.tile(np.array([0, 1]), int(NC / 2))})
    elif (
        np.floor(version) == 2 and nshank == 4
    ):  # the 4 shank version default is rather complicated
        shank_row = np.tile(np.arange(NC / 16), (2, 1)).T[:, np.newaxis].flatten()
        shank_row = np.tile(shank_row, 8)
        shank_row += (
            np.tile(
                np.array([0, 0, 1, 1, 0, 0, 1, 1])[:, np.newaxis], (1, int(NC / 8))
            ).flatten()
            * 24
        )
        ch.update(
            {
                "col": np.tile(np.array([0, 1]), int(NC / 2)),
                "shank": np.tile(
                    np.array([0, 1, 0, 1, 2, 3, 2, 3])[:, np.newaxis], (1, int(NC / 8))
                ).flatten(),
                "row": shank_row,
            }
        )
    # for all, get coordinates
    ch.update(rc2xy(ch["row"], ch["col"], version=version))
    return ch


def adc_shifts(version=1, nc=NC):
    if version == 1 or version == "NPultra":
        adc_channels = 12
        n_cycles = 13
        # version 1 uses 32 ADC that sample 12 channels each
    elif np.floor(version) == 2:
        # version 2 uses 24 ADC that sample 16 channels each
        adc_channels = n_cycles = 16
    adc = np.floor(np.arange(NC) / (adc_channels * 2)) * 2 + np.mod(np.arange(NC), 2)
    sample_shift = np.zeros_like(adc)
    for a in adc:
        sample_shift[adc == a] = np.arange(adc_channels) / n_cycles
    return sample_shift[:nc], adc[:nc]


def trace_header(version=1, nshank=1):
    h = dense_layout(version=version, nshank=nshank)
    h["sample_shift"], h["adc"] = adc_shifts(version=version)
    return h


# the original spikeglx.geometry_from_meta refers to these through the `neuropixel` module
neuropixel = types.SimpleNamespace(trace_header=trace_header, adc_shifts=adc_shifts, xy2rc=xy2rc, rc2xy=rc2xy)


def geometry_from_meta(meta_data, return_index=False, nc=384, sort=True):
    """
    Gets the geometry, ie. the full trace header for the recording
    :param meta_data: meta_data dictionary as read by ibllib.io.spikeglx.read_meta_data
    :param return_index: (False): flag to optionally return the sorted indices
    :param sort: (True) sort the geometry by shank row col
    :param nc: number of channels if geometry is not in the metadata file
    :return: dictionary with keys 'row', 'col', 'ind', 'shank', 'adc', 'x', 'y', 'sample_shift'
    """
    cm = _map_channels_from_meta(meta_data)
    major_version = _get_neuropixel_major_version_from_meta(meta_data)
    if cm is None or all(map(lambda x: x is None, cm.values())):
        _logger.warning("Meta data doesn't have geometry (snsShankMap/snsGeomMap field), returning defaults")
        if major_version is None:
            if return_index:
                return None, None
            else:
                return None
        th = neuropixel.trace_header(version=major_version)
        th["flag"] = th["x"] * 0 + 1.0
        if return_index:
            return th, np.arange(nc)
        else:
            return th
    th = cm.copy()
    # as of 2023-04 spikeglx stores only x, y coordinates of sites in UM and no col / row. Here
    # we convert to col / row for consistency with previous versions
    if "x" in cm.keys():
        # the spike sorting channel maps have a flipped version of the channel map
        # there is a 20um offset between the probe tip and the first site in the coordinate conversion
        if major_version == 1:
            th["x"] = 70 - (th["x"])
        th["y"] += 20
        th.update(neuropixel.xy2rc(th["x"], th["y"], version=major_version))
    else:
        # the spike sorting channel maps have a flipped version of the channel map
        if major_version == 1:
            th["col"] = - cm["col"] * 2 + 2 + np.mod(cm["row"], 2)
        th.update(neuropixel.rc2xy(th["row"], th["col"], version=major_version))
    th["sample_shift"], th["adc"] = neuropixel.adc_shifts(
        version=major_version, nc=th["col"].size
    )
    th = _split_geometry_into_shanks(th, meta_data)
    th["ind"] = np.arange(th["col"].size)
    if sort:
        # here we sort the channels by shank, row and -col, this preserves the original NP1
        # order while still allowing to deal with creative imro tables in NP2
        sort_keys = np.c_[-th['col'], th['row'], th['shank']]
        inds = np.lexsort(sort_keys.T)
        th = {k: v[inds] for k, v in th.items()}
    else:
        inds = np.arange(th['col'].size)
    if return_index:
        return th, inds
    else:
        return th


def _map_channels_from_meta(meta_data):
    """
    Interpret the meta data string to extract an array of channel positions along the shank

    :param meta_data: dictionary output from  spikeglx.read_meta_data
    :return: dictionary of arrays 'shank', 'col', 'row', 'flag', one value per active site
    """
    if "snsShankMap" in meta_data.keys():
        chmap = re.findall(r"([0-9]*:[0-9]*:[0-9]*:[0-9]*)", meta_data["snsShankMap"])
        key_names = {"shank": 0, "col": 1, "row": 2, "flag": 3}
    elif "snsGeomMap" in meta_data.keys():
        chmap = re.findall(r"([0-9]*:[0-9]*:[0-9]*:[0-9]*)", meta_data["snsGeomMap"])
        key_names = {"shank": 0, "x": 1, "y": 2, "flag": 3}
    else:
        return None
    # for digital nidq types, the key exists but does not contain any information
    if not chmap:
        return {"shank": None, "col": None, "row": None, "flag": None}
    # shank#, col#, row#, drawflag
    # (nb: drawflag is one should be drawn and considered spatial average)
    chmap = np.array([np.float32(cm.split(":")) for cm in chmap])
    return {k: chmap[:, v] for (k, v) in key_names.items()}


# --------------------------------------------------------------------------------------------------------------------
# comparison helpers
# --------------------------------------------------------------------------------------------------------------------
def describe(a, b, path):
    """returns None if a and b are exactly identical, a string describing the first difference otherwise"""
    if type(a) is not type(b):
        return f"{path}: type {type(a)} != {type(b)}"
    if isinstance(a, dict):
        if list(a.keys()) != list(b.keys()):
            return f"{path}: keys / key order {list(a.keys())} != {list(b.keys())}"
        for k in a:
            d = describe(a[k], b[k], f"{path}[{k!r}]")
            if d:
                return d
        return None
    if isinstance(a, (tuple, list)):
        if len(a) != len(b):
            return f"{path}: length {len(a)} != {len(b)}"
        for i, (x, y) in enumerate(zip(a, b)):
            d = describe(x, y, f"{path}[{i}]")
            if d:
                return d
        return None
    if isinstance(a, np.ndarray):
        if a.dtype != b.dtype:
            return f"{path}: dtype {a.dtype} != {b.dtype}"
        if a.shape != b.shape:
            return f"{path}: shape {a.shape} != {b.shape}"
        if a.strides != b.strides:
            return f"{path}: strides {a.strides} != {b.strides}"
        if not np.array_equal(a, b, equal_nan=True) or a.tobytes() != b.tobytes():
            return f"{path}: values differ"
        return None
    if a is None:
        return None
    return None if (a == b and repr(a) == repr(b)) else f"{path}: {a!r} != {b!r}"


def outcome(fcn, *args, **kwargs):
    """returns the status, the output or exception type, and the sorted list of warnings emitted during the call"""
    with warnings.catch_warnings(record=True) as wlist:
        warnings.simplefilter("always")
        try:
            status, out = "ok", fcn(*args, **kwargs)
        except Exception as e:  # noqa
            status, out = "raised", type(e)
    return status, out, sorted(f"{w.category.__name__}: {w.message}" for w in wlist)


N_CASES = 0
FAILURES = []


def check(label, fref, fnew, *args, **kwargs):
    global N_CASES
    N_CASES += 1
    args_ref, kwargs_ref = copy.deepcopy(args), copy.deepcopy(kwargs)
    args_new, kwargs_new = copy.deepcopy(args), copy.deepcopy(kwargs)
    sref, oref, wref = outcome(fref, *args_ref, **kwargs_ref)
    snew, onew, wnew = outcome(fnew, *args_new, **kwargs_new)
    msg = None
    if wref != wnew:
        msg = f"warnings {wref} != {wnew}"
    elif sref != snew:
        msg = f"reference {sref} ({oref!r:.80}) but refactored {snew} ({onew!r:.80})"
    elif sref == "raised":
        if oref is not onew:
            msg = f"exception type {oref} != {onew}"
    else:
        msg = describe(oref, onew, "out")
    if msg is None:  # the arguments must be left in the same state by both
        msg = describe((args_ref, kwargs_ref), (args_new, kwargs_new), "args after call")
    if msg is not None:
        FAILURES.append(f"{label}: {msg}")
        if len(FAILURES) <= 20:
            print(f"DIFFERENCE {label}: {msg}")
    return sref, oref


# --------------------------------------------------------------------------------------------------------------------
# input generation
# --------------------------------------------------------------------------------------------------------------------
RNG = np.random.default_rng(20261004)
VERSION_KEYS = {
    "3A": {"typeEnabled": "1,1,1"},
    "3B1": {"imDatPrb_type": 0.0},
    "3B2": {"imDatPrb_type": 0.0, "imDatPrb_port": 1.0, "imDatPrb_slot": 2.0},
    "NP2.1": {"imDatPrb_type": 21.0},
    "NP2.1b": {"imDatPrb_type": 1030.0},
    "NP2.4": {"imDatPrb_type": 24.0},
    "NP2.4b": {"imDatPrb_type": 2013.0},
    "NPultra": {"imDatPrb_type": 1100.0},
    "unknown": {"imDatPrb_type": 77.0},
    "none": {},
}


def site_grid(vkey):
    """returns all the (shank, spikeglx col, row) sites of a probe and its major version"""
    if vkey in ("3A", "3B1", "3B2"):
        nshank, ncol, nrow, major = 1, 2, 480, 1
    elif vkey.startswith("NP2.1"):
        nshank, ncol, nrow, major = 1, 2, 640, 2
    elif vkey.startswith("NP2.4"):
        nshank, ncol, nrow, major = 4, 2, 640, 2
    elif vkey == "NPultra":
        nshank, ncol, nrow, major = 1, 8, 48, "NPultra"
    else:
        nshank, ncol, nrow, major = 2, 3, 300, 2
    s, c, r = np.meshgrid(np.arange(nshank), np.arange(ncol), np.arange(nrow), indexing="ij")
    return np.c_[s.flatten(), c.flatten(), r.flatten()], major


def select_sites(vkey, nsites, mode):
    sites, major = site_grid(vkey)
    if mode == "dense":  # bottom of the probe, acquisition order
        order = np.lexsort((sites[:, 1], sites[:, 2], sites[:, 0]))[:nsites]
    elif mode == "random":  # any selection in any channel order
        order = RNG.permutation(sites.shape[0])[:nsites]
    elif mode == "banks":  # blocks of consecutive rows scattered on the shanks
        start = RNG.integers(0, max(1, sites.shape[0] - nsites))
        order = np.lexsort((sites[:, 1], sites[:, 2], sites[:, 0]))[start:start + nsites]
    else:  # with repeated sites: ties in the sort
        order = RNG.integers(0, sites.shape[0], nsites)
    return sites[order], major


def encode(sites, major, encoding, vkey):
    flag = RNG.integers(0, 2, sites.shape[0])
    if encoding == "snsShankMap":
        body = "".join(f"({s}:{c}:{r}:{f})" for (s, c, r), f in zip(sites, flag))
        return f"(1,2,480){body}"
    grid = new_neuropixel.CHANNEL_GRID[major]
    if major == 1:  # 4 staggered columns: x = 27, 59, 11, 43 on spikeglx side
        x = 70 - ((-sites[:, 1] * 2 + 2 + np.mod(sites[:, 2], 2)) * grid["DX"] + grid["X0"])
    else:
        x = sites[:, 1] * grid["DX"] + grid["X0"]
    y = sites[:, 2] * grid["DY"]
    body = "".join(f"({s}:{xx}:{yy}:{f})" for s, xx, yy, f in zip(sites[:, 0], x, y, flag))
    return f"(NP{vkey},{len(np.unique(sites[:, 0]))},0,70){body}"


def random_meta():
    vkey = list(VERSION_KEYS)[RNG.integers(0, len(VERSION_KEYS))]
    meta = dict(VERSION_KEYS[vkey])
    nsites = int(RNG.choice([384, 384, 384, 383, 276, 96, 13, 2, 1, int(RNG.integers(1, 385))]))
    mode = ["dense", "random", "banks", "ties"][RNG.integers(0, 4)]
    sites, major = select_sites(vkey, nsites, mode)
    encoding = ["snsShankMap", "snsGeomMap"][RNG.integers(0, 2)]
    meta[encoding] = encode(sites, major, encoding, vkey)
    u = RNG.random()
    if u < 0.25:  # a file that has been split: restriction to one shank, possibly one without any site
        meta["NP2.4_shank"] = int(RNG.integers(0, 5))
    elif u < 0.3:
        meta["NP2.4_shank"] = float(RNG.integers(0, 4))
    return meta


def main():
    # ---------------------------------------------------------------------------------------------- adc_shifts
    versions = [1, 1.0, 2, 2.0, 2.1, 2.4, 2.9, "NPultra", np.float64(2.4), np.float32(1), np.int64(2), True,
                3, 0, 1.5, -2, "NP2.4", "foo", None]
    ncs = [0, 1, 2, 11, 12, 13, 16, 24, 32, 95, 96, 192, 276, 383, 384, 385, 1000, -1, -12, -383, -384, -385, None,
           np.int64(100)] + [int(n) for n in RNG.integers(-500, 800, 12)]
    for v in versions:
        check(f"adc_shifts(version={v!r})", adc_shifts, new_neuropixel.adc_shifts, version=v)
        check(f"adc_shifts({v!r})", adc_shifts, new_neuropixel.adc_shifts, v)
        for nc in ncs:
            check(f"adc_shifts(version={v!r}, nc={nc!r})", adc_shifts, new_neuropixel.adc_shifts, version=v, nc=nc)
    check("adc_shifts()", adc_shifts, new_neuropixel.adc_shifts)
    # property sanity on the reference: each ADC serves its channels at distinct evenly spaced delays
    for v, nadc, nch in ((1, 32, 12), (2, 24, 16)):
        ss, adc = new_neuropixel.adc_shifts(version=v)
        assert np.unique(adc).size == nadc
        for a in np.unique(adc):
            assert np.allclose(np.diff(ss[adc == a]), ss[adc == a][1]) and np.sum(adc == a) == nch
    # the two outputs must be independent buffers, as in the original
    ss, adc = new_neuropixel.adc_shifts(version=1)
    assert not np.shares_memory(ss, adc)
    # -------------------------------------------------------------------------------- dense_layout, trace_header
    for v in versions:
        check(f"dense_layout({v!r})", dense_layout, new_neuropixel.dense_layout, v)
        check(f"trace_header({v!r})", trace_header, new_neuropixel.trace_header, v)
        for nshank in [1, 4, 2, 0, 4.0, None, np.int64(4)]:
            kw = dict(version=v, nshank=nshank)
            check(f"dense_layout({kw})", dense_layout, new_neuropixel.dense_layout, **kw)
            check(f"trace_header({kw})", trace_header, new_neuropixel.trace_header, **kw)
    check("dense_layout()", dense_layout, new_neuropixel.dense_layout)
    check("trace_header()", trace_header, new_neuropixel.trace_header)
    for v, ns in ((1, 1), (2, 1), (2, 4), ("NPultra", 1)):  # no buffer may be shared between the keys
        h = new_neuropixel.trace_header(version=v, nshank=ns)
        keys = list(h)
        for i, k in enumerate(keys):
            for kk in keys[i + 1:]:
                assert not np.shares_memory(h[k], h[kk]), (v, ns, k, kk)
    # ---------------------------------------------------------------------------------- _map_channels_from_meta
    fixed = [
        {},
        {"snsShankMap": ""},
        {"snsGeomMap": ""},
        {"snsShankMap": "(1,2,480)"},
        {"snsGeomMap": "(NP1010,1,0,70)"},
        {"snsShankMap": "(1,2,480)(0:0:0:1)"},
        {"snsGeomMap": "(NP1010,1,0,70)(0:27:0:1)"},
        {"snsShankMap": "(1,2,480)(0:0:0:1)(0:1:0:1)", "snsGeomMap": "(NP1010,1,0,70)(0:27:0:1)"},
        {"snsShankMap": "(1,2,480)", "snsGeomMap": "(NP1010,1,0,70)(0:27:0:1)"},
        {"snsShankMap": "(1,2,480)(0:0:0:)"},  # empty field: the float conversion raises
        {"snsShankMap": ":::"},
        {"snsGeomMap": "(0:27:0:1)(::0:1)"},
        {"snsShankMap": "(0:0:0:1:5:6:7:8)"},
        {"snsShankMap": "(0:0:0:1)(0:1.5:0:1)(0:1:2:1)"},
        {"snsShankMap": "(00:01:002:1)(0:16777217:4294967297:1)(0:99999999999999999999999999999999999999999:1:1)"},
        {"snsShankMap": "(0:1:2:1)" + "9" * 400 + ":1:1:1"},
        {"snsGeomMap": "(0:-27:0:1)(0:27:1e3:1)(0:27:15:1)"},
        {"snsShankMap": 12.0},  # not a string: re.findall raises
        {"snsGeomMap": None},
    ]
    for i, meta in enumerate(fixed):
        check(f"_map_channels_from_meta(fixed[{i}])", _map_channels_from_meta, new_spikeglx._map_channels_from_meta, meta)
        for vkey in ("3B2", "NP2.4", "none"):
            m = {**VERSION_KEYS[vkey], **meta}
            for kw in (dict(), dict(sort=False), dict(return_index=True), dict(return_index=True, sort=False, nc=12)):
                check(f"geometry_from_meta(fixed[{i}] {vkey}, {kw})", geometry_from_meta,
                      new_spikeglx.geometry_from_meta, m, **kw)
    # ------------------------------------------------------------- random selections, both encodings, any order
    nraised = nempty = 0
    for i in range(700):
        meta = random_meta()
        s, o = check(f"_map_channels_from_meta(random[{i}])", _map_channels_from_meta,
                     new_spikeglx._map_channels_from_meta, meta)
        for kw in (dict(), dict(sort=False), dict(return_index=True), dict(return_index=True, sort=False),
                   dict(sort=True, return_index=False, nc=int(RNG.integers(0, 500)))):
            s, o = check(f"geometry_from_meta(random[{i}], {kw})", geometry_from_meta,
                         new_spikeglx.geometry_from_meta, meta, **kw)
            nraised += s == "raised"
            nempty += s == "ok" and isinstance(o, dict) and o["x"].size == 0
    # ------------------------------------------- the two encodings of the same site table give the same geometry
    for i in range(60):
        vkey = ["3A", "3B2", "NP2.1", "NP2.4"][i % 4]
        sites, major = select_sites(vkey, 384, ["dense", "random", "banks"][i % 3])
        th = {}
        for encoding in ("snsShankMap", "snsGeomMap"):
            meta = {**VERSION_KEYS[vkey], encoding: encode(sites, major, encoding, vkey)}
            th[encoding] = new_spikeglx.geometry_from_meta(meta)
            check(f"geometry_from_meta(both[{i}], {encoding})", geometry_from_meta, new_spikeglx.geometry_from_meta, meta)
        for k in ("x", "y", "row", "col", "shank", "adc", "sample_shift", "ind"):
            assert np.array_equal(th["snsShankMap"][k], th["snsGeomMap"][k]), (vkey, k)
    # ------------------------------------------------------------------------------------- no geometry: defaults
    for vkey in VERSION_KEYS:
        for nc in (384, 0, 385, 12, -3):
            for return_index in (True, False):
                kw = dict(return_index=return_index, nc=nc)
                check(f"geometry_from_meta(defaults {vkey}, {kw})", geometry_from_meta, new_spikeglx.geometry_from_meta,
                      dict(VERSION_KEYS[vkey]), **kw)
    print(f"{N_CASES} comparisons ({nraised} geometry calls raised in both, {nempty} returned an empty shank in both), "
          f"{len(FAILURES)} differences")
    return 1 if FAILURES else 0


if __name__ == "__main__":
    sys.exit(main())
