import sys, os; sys.path.insert(0, os.path.join(os.path.dirname(os.path.abspath(__file__)), "src"))
"""
C08 - a split shank's geometry is the restriction of its parent's, and ADC groups / sampling delays
depend only on the original channel number and the probe generation.

We build the metadata of NP2.4 (four shank) recordings by hand, in both encodings (snsShankMap and
snsGeomMap), once for the whole probe and once the way NP2Converter leaves it in the per-shank files
(same site table + the key NP2.4_shank).  Every site of the per-shank geometry is then compared with an
oracle written from the definition:
    NP2: 24 ADCs serving 16 channels each, odd / even channels on separate ADCs
         adc(ch)   = 2 * (ch // 32) + ch % 2
         delay(ch) = ((ch // 2) % 16) / 16
where ch is the position of the site in the original 384 channel table.
"""
import numpy as np

import spikeglx

NC = 384
DX, X0, DY, Y0 = 32, 27, 15, 20  # NP2 grid


def dense_4shanks():
    ch = np.arange(NC)
    block = ch // 48
    shank = np.array([0, 1, 0, 1, 2, 3, 2, 3])[block]
    row = (ch % 48) // 2 + 24 * np.array([0, 0, 1, 1, 0, 0, 1, 1])[block]
    return shank, row, ch % 2


def creative_4shanks(seed):
    # any selection of 384 distinct sites of the 4 x 640 x 2 grid, in any channel order
    rng = np.random.default_rng(seed)
    sites = rng.choice(4 * 640 * 2, NC, replace=False)
    return sites // 1280, (sites % 1280) // 2, sites % 2


def make_meta(shank, row, col, encoding, split=None):
    if encoding == "snsShankMap":
        body = "".join(f"({s}:{c}:{r}:1)" for s, r, c in zip(shank, row, col))
        md = {"snsShankMap": "(4,2,640)" + body}
    else:
        body = "".join(f"({s}:{X0 + DX * c}:{DY * r}:1)" for s, r, c in zip(shank, row, col))
        md = {"snsGeomMap": "(NP2013,4,250,70)" + body}
    md["imDatPrb_type"] = 24
    if split is not None:
        md["NP2.4_shank"] = split
    return md


def oracle_adc(ch):
    return 2 * (ch // 32) + ch % 2, ((ch // 2) % 16) / 16


errors = []


def check(name, shank, row, col):
    site2ch = {(s, r, c): i for i, (s, r, c) in enumerate(zip(shank, row, col))}
    for encoding in ("snsShankMap", "snsGeomMap"):
        for sort in (True, False):
            parent = spikeglx.geometry_from_meta(make_meta(shank, row, col, encoding), sort=sort)
            pkey = [(int(s), int(r), int(c)) for s, r, c in zip(parent["shank"], parent["row"], parent["col"])]
            for sh in np.unique(shank):
                tag = f"{name} / {encoding} / sort={sort} / shank {sh}"
                g = spikeglx.geometry_from_meta(make_meta(shank, row, col, encoding, split=int(sh)), sort=sort)
                key = [(int(s), int(r), int(c)) for s, r, c in zip(g["shank"], g["row"], g["col"])]
                och = np.array([site2ch.get(k, -1) for k in key])
                if och.size != np.sum(shank == sh) or np.any(och < 0) or np.unique(och).size != och.size:
                    errors.append(f"{tag}: the sites are not the sites of the shank, each once")
                    continue
                if sort and key != sorted(key, key=lambda k: (k[1], -k[2])):
                    errors.append(f"{tag}: not ordered by row and descending column")
                if not sort and np.any(np.diff(och) < 0):
                    errors.append(f"{tag}: unsorted geometry is not in channel order")
                adc, delay = oracle_adc(och)
                for k, expected in (("adc", adc), ("sample_shift", delay), ("x", X0 + DX * g["col"]),
                                    ("y", Y0 + DY * g["row"])):
                    bad = np.flatnonzero(g[k] != expected)
                    if bad.size:
                        i = bad[0]
                        errors.append(
                            f"{tag}: '{k}' wrong for {bad.size}/{och.size} sites, e.g. site (shank,row,col)={key[i]} "
                            f"is original channel {och[i]}: got {g[k][i]}, expected {expected[i]}")
                # restriction of the parent: every attribute but the running index is the parent's
                ip = np.array([pkey.index(k) for k in key])
                for k in parent:
                    if k != "ind" and not np.array_equal(parent[k][ip], g[k]):
                        errors.append(f"{tag}: '{k}' differs from the value the same sites have in the whole-probe geometry")


check("dense 4 shanks layout", *dense_4shanks())
check("creative imro selection", *creative_4shanks(0))

if errors:
    print(f"C08 violated, {len(errors)} findings, the first ones:")
    for e in errors[:8]:
        print("  -", e)
    sys.exit(1)
print("C08 holds: per-shank geometries are restrictions of the whole-probe geometry, ADC / delays follow the original channel")
sys.exit(0)
