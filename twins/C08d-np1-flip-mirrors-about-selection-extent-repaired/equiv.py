import sys, os; sys.path.insert(0, os.path.join(os.path.dirname(os.path.abspath(__file__)), "src"))
"""
C08 demo: the geometry of a Neuropixel 1 recording must not depend on which other sites were saved.

Every NP1 electrode e sits at a fixed place of the probe grid (IBL convention):
    row = e // 2, col = 2 - 2 * (e % 2) + row % 2, x = 11 + 16 * col, y = 20 + 20 * row
whatever the encoding of the site table in the meta data (snsShankMap: col / row indices, snsGeomMap: um).
The program writes small .meta files for several admissible site selections (full dense layout, every other
channel, a single electrode column in an upper bank, a handful of channels in arbitrary order), reads their
geometry back and compares it to this definition. Exits 1 and prints the discrepancies, 0 if everything holds.
"""
import logging
import tempfile
from pathlib import Path

import numpy as np

import neuropixel
import spikeglx

logging.disable(logging.CRITICAL)
KEYS = ("shank", "row", "col", "x", "y", "adc", "sample_shift", "ind")


def np1_oracle(electrodes):
    """the definition of the NP1 site grid and of the ADC wiring, for sites listed in file order"""
    e = np.asarray(electrodes)
    n = e.size
    row = e // 2
    col = 2 - 2 * (e % 2) + row % 2
    ch = np.arange(n)  # position of the site in the file: this is what the ADC wiring depends on
    return dict(
        shank=np.zeros(n), row=row, col=col, x=11 + 16 * col, y=20 + 20 * row,
        adc=(ch // 24) * 2 + ch % 2, sample_shift=((ch // 2) % 12) / 13, ind=ch,
    )


def np1_meta_text(electrodes, encoding):
    """a minimal 3B meta data file for the given electrodes, in either of the two spikeglx encodings"""
    e = np.asarray(electrodes)
    n = e.size
    row, c = e // 2, e % 2
    if encoding == "snsShankMap":
        sites = "".join(f"(0:{ci}:{ri}:1)" for ci, ri in zip(c, row))
        smap = f"~snsShankMap=(1,2,480){sites}"
    else:  # spikeglx writes the um position from the left edge of the shank and from the first row
        xs = 27 + 32 * c - 16 * (row % 2)
        sites = "".join(f"(0:{xi}:{yi}:1)" for xi, yi in zip(xs, row * 20))
        smap = f"~snsGeomMap=(NP1010,1,0,70){sites}"
    imro = "".join(f"({i} 0 0 500 250 1)" for i in range(n))
    lines = [
        f"acqApLfSy=384,384,1", "imAiRangeMax=0.6", "imAiRangeMin=-0.6", "imDatPrb_port=1", "imDatPrb_slot=2",
        "imDatPrb_sn=18005116811", "imDatPrb_type=0", "imMaxInt=512", "imSampRate=30000",
        f"nSavedChans={n + 1}", f"snsApLfSy={n},0,1", "typeThis=imec", f"fileSizeBytes={(n + 1) * 2 * 10}",
        "fileTimeSecs=0.0003333", f"~imroTbl=({n},{n}){imro}", smap,
    ]
    return "\n".join(lines) + "\n"


def check(label, electrodes, tdir, errors):
    truth = np1_oracle(electrodes)
    geoms = {}
    for encoding in ("snsShankMap", "snsGeomMap"):
        meta_file = Path(tdir).joinpath(f"{label}_{encoding}.ap.meta")
        meta_file.write_text(np1_meta_text(electrodes, encoding))
        md = spikeglx.read_meta_data(meta_file)
        # unsorted: site per site in file order
        g = spikeglx.geometry_from_meta(md, sort=False)
        for k in KEYS:
            if g[k].shape != truth[k].shape or not np.array_equal(g[k], truth[k]):
                bad = np.flatnonzero(g[k] != truth[k]) if g[k].shape == truth[k].shape else []
                errors.append(
                    f"[{label} / {encoding} / unsorted] '{k}' differs from the probe grid on {len(bad)} of "
                    f"{truth[k].size} sites, e.g. electrode {np.asarray(electrodes)[bad[0]]}: "
                    f"got {g[k][bad[0]]}, expected {truth[k][bad[0]]}")
        # sorted: a permutation of the same sites, ordered by shank, row and descending column
        gs, order = spikeglx.geometry_from_meta(md, sort=True, return_index=True)
        expected_order = np.lexsort((-truth["col"], truth["row"], truth["shank"]))
        if not np.array_equal(order, expected_order):
            errors.append(f"[{label} / {encoding} / sorted] the order is not (shank, row, -col) of the true sites")
        for k in KEYS:
            if not np.array_equal(gs[k], truth[k][expected_order]):
                errors.append(f"[{label} / {encoding} / sorted] '{k}' is not the jointly permuted true attribute")
        # row / col and x / y are inverse of each other on the grid
        xy = neuropixel.rc2xy(gs["row"], gs["col"], version=1)
        rc = neuropixel.xy2rc(gs["x"], gs["y"], version=1)
        if not (np.array_equal(xy["x"], gs["x"]) and np.array_equal(xy["y"], gs["y"])
                and np.array_equal(rc["row"], gs["row"]) and np.array_equal(rc["col"], gs["col"])):
            errors.append(f"[{label} / {encoding}] row / col and x / y are not inverse of each other")
        geoms[encoding] = gs
    for k in KEYS:
        if not np.array_equal(geoms["snsShankMap"][k], geoms["snsGeomMap"][k]):
            errors.append(f"[{label}] the two encodings disagree on '{k}'")
    # the geometry of a site must be the same as in the full layout it was taken from
    return geoms["snsGeomMap"]


def main():
    rng = np.random.default_rng(8)
    selections = {
        # the default: bank 0 in natural order
        "dense_bank0": np.arange(384),
        # bank 1 in natural order
        "dense_bank1": np.arange(384, 768),
        # each channel connected to the electrode of a random bank (electrode = channel + 384 * bank < 960)
        "random_banks": np.arange(384) + 384 * np.where(np.arange(384) < 192, rng.integers(0, 3, 384), rng.integers(0, 2, 384)),
        # every other channel of the dense layout is saved (snsSaveChanSubset=0:382:2)
        "even_channels": np.arange(0, 384, 2),
        # one electrode column (linear configuration) in the upper part of the shank
        "one_column": np.arange(401, 960, 4)[:96],
        # a few channels around a unit of interest, in arbitrary order
        "handful": np.array([130, 128, 134, 132, 126]),
        # a single saved site
        "single_site": np.array([7]),
    }
    errors = []
    with tempfile.TemporaryDirectory(prefix="c08_demo") as tdir:
        for label, electrodes in selections.items():
            n0 = len(errors)
            check(label, electrodes, tdir, errors)
            print(f"{label:>14}: {electrodes.size:3d} sites, {'ok' if len(errors) == n0 else 'WRONG'}")
    if errors:
        print(f"\nC08 violated ({len(errors)} discrepancies):")
        for e in errors[:12]:
            print("  -", e)
        if len(errors) > 12:
            print(f"  ... and {len(errors) - 12} more")
        return 1
    print("\nC08 holds on all selections: NP1 geometry is the probe grid, jointly permuted, in both encodings")
    return 0


if __name__ == "__main__":
    sys.exit(main())
