import sys, os; sys.path.insert(0, os.path.join(os.path.dirname(os.path.abspath(__file__)), "src"))
"""
C08 - probe geometry is a consistent, jointly permuted description of the sites.

Builds meta data dictionaries for random selections of 384 sites (any channel order) of the NP1,
NP2 single shank and NP2 four shank grids, in both encodings (snsShankMap / snsGeomMap), and checks
the geometry returned by spikeglx.geometry_from_meta against the definition written in plain
Python / NumPy:
  - x / y from the grid constants, row / col as listed
  - adc group and sampling delay from the original channel number
  - sorted output is the permutation ordered by (shank, row, -col) applied to every key
  - the geometry of a split shank is the restriction of the parent geometry
The geometry is asked for the way a session is processed: the ap file of a probe, then the lf file of
the same probe (same site table), then the files of each shank.
"""
import numpy as np

import spikeglx

GRID = {1: dict(DX=16, X0=11, DY=20, Y0=20), 2: dict(DX=32, X0=27, DY=15, Y0=20)}
PROBES = {
    "NP1": dict(major=1, prb_type=0, nshank=1, nrows=480, extra={"imDatPrb_port": 1, "imDatPrb_slot": 2}),
    "NP2.1": dict(major=2, prb_type=21, nshank=1, nrows=640, extra={}),
    "NP2.4": dict(major=2, prb_type=24, nshank=4, nrows=640, extra={}),
}
KEYS = ["x", "y", "row", "col", "shank", "adc", "sample_shift", "ind"]
failures = []


def select_sites(probe, rng, nc=384):
    """random selection of nc distinct sites of the probe grid, in random channel order"""
    p = PROBES[probe]
    sites = []
    for shank in range(p["nshank"]):
        for row in range(p["nrows"]):
            cols = (0, 1) if p["major"] == 2 else ((0, 2) if row % 2 == 0 else (1, 3))
            sites.extend((shank, row, col) for col in cols)
    sel = rng.choice(len(sites), nc, replace=False)
    return [sites[i] for i in sel]


def oracle(probe, sites):
    """the geometry by the definition, one entry per site in channel order"""
    p, g = PROBES[probe], GRID[PROBES[probe]["major"]]
    nadc, ncycles = (12, 13) if p["major"] == 1 else (16, 16)
    o = {k: [] for k in KEYS}
    for ich, (shank, row, col) in enumerate(sites):
        o["shank"].append(shank)
        o["row"].append(row)
        o["col"].append(col)
        o["x"].append(col * g["DX"] + g["X0"])
        o["y"].append(row * g["DY"] + g["Y0"])
        o["adc"].append((ich // (2 * nadc)) * 2 + ich % 2)
        o["sample_shift"].append(((ich % (2 * nadc)) // 2) / ncycles)
        o["ind"].append(ich)
    return {k: np.array(v, dtype=float) for k, v in o.items()}


def restrict(o, shank):
    keep = [i for i in range(o["shank"].size) if o["shank"][i] == shank]
    r = {k: v[keep] for k, v in o.items()}
    r["ind"] = np.arange(len(keep), dtype=float)
    return r


def permute(o):
    order = sorted(range(o["shank"].size), key=lambda i: (o["shank"][i], o["row"][i], -o["col"][i]))
    return {k: v[order] for k, v in o.items()}, np.array(order)


def meta(probe, sites, encoding):
    p = PROBES[probe]
    md = {"imDatPrb_type": p["prb_type"], "typeThis": "imec", **p["extra"]}
    if encoding == "shank":
        entries = []
        for shank, row, col in sites:
            # NP1 shank maps have 2 columns per row, flipped
            c = col if p["major"] == 2 else 1 - (col - row % 2) // 2
            entries.append(f"({shank}:{c}:{row}:1)")
        md["snsShankMap"] = f"({p['nshank']},2,{p['nrows']})" + "".join(entries)
    else:
        g = GRID[p["major"]]
        entries = []
        for shank, row, col in sites:
            x = col * g["DX"] + g["X0"]
            # NP1 geometry maps are flipped, the y origin is the first site (20 um above the tip)
            x = 70 - x if p["major"] == 1 else x
            entries.append(f"({shank}:{x}:{row * g['DY']}:1)")
        md["snsGeomMap"] = f"(NP{p['prb_type']},{p['nshank']},250,70)" + "".join(entries)
    return md


def check(label, md, expected, sort):
    th, inds = spikeglx.geometry_from_meta(md, return_index=True, sort=sort)
    if sort:
        expected, order = permute(expected)
    else:
        order = np.arange(expected["shank"].size)
    bad = []
    for k in KEYS:
        if th[k].shape != expected[k].shape or not np.array_equal(th[k], expected[k]):
            n = int(np.sum(th[k] != expected[k])) if th[k].shape == expected[k].shape else -1
            bad.append(f"{k} ({n} sites differ, e.g. got {th[k][:3]} expected {expected[k][:3]})")
    if not np.array_equal(inds, order):
        bad.append("returned index is not the sorting permutation")
    if bad:
        failures.append(f"{label}: " + "; ".join(bad))


rng = np.random.default_rng(8)
for probe in PROBES:
    for trial in range(3):
        sites = select_sites(probe, rng)
        if trial == 0:  # also the plain selection in natural order
            sites = sorted(sites, key=lambda s: (s[1], s[2], s[0]))
        o = oracle(probe, sites)
        for encoding in ("shank", "geom"):
            tag = f"{probe} selection #{trial} {encoding} map"
            # the ap file of the probe, then the lf file of the same probe: same site table
            check(f"{tag}, ap file, sorted", meta(probe, sites, encoding), o, sort=True)
            check(f"{tag}, lf file, sorted", meta(probe, sites, encoding), o, sort=True)
            check(f"{tag}, unsorted", meta(probe, sites, encoding), o, sort=False)
            if PROBES[probe]["nshank"] > 1:
                for shank in range(PROBES[probe]["nshank"]):
                    md = meta(probe, sites, encoding)
                    md["NP2.4_shank"] = shank
                    check(f"{tag}, split shank {shank}", md, restrict(o, shank), sort=True)

if failures:
    print(f"C08 broken: {len(failures)} geometries differ from the definition")
    for f in failures[:12]:
        print("  -", f)
    if len(failures) > 12:
        print(f"  ... and {len(failures) - 12} more")
    sys.exit(1)
print("C08 holds: all geometries match the definition")
sys.exit(0)
