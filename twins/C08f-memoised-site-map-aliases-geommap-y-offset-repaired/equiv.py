import sys, os; sys.path.insert(0, os.path.join(os.path.dirname(os.path.abspath(__file__)), "src"))
"""
C08 - probe geometry is a consistent, jointly permuted description of the sites.

For arbitrary IMRO-like selections of 384 sites (NP1, NP2 single shank, NP2 four shanks) in random channel order,
builds the metadata in both encodings (snsShankMap: shank:col:row, snsGeomMap: shank:x:y) and asks for the geometry
sorted and unsorted, as a session that opens the ap and the lf file of a probe would do.
The oracle is the definition: the site table the metadata was written from, the grid constants, and a plain
python sort on (shank, row, -col).
"""
import numpy as np

import spikeglx

GRID = {1: dict(DX=16, X0=11, DY=20, Y0=20, nrow=480, ncol=4),
        2: dict(DX=32, X0=27, DY=15, Y0=20, nrow=640, ncol=2)}
errors = []


def check(ok, msg):
    if not ok:
        errors.append(msg)


def make_selection(rng, major, nshank, n=384):
    """random selection of n distinct sites of the probe grid, in random channel order: final shank, row, col"""
    g = GRID[major]
    if major == 1:  # staggered probe: even rows have columns 0 and 2, odd rows columns 1 and 3
        sites = [(0, r, c) for r in range(g["nrow"]) for c in ((0, 2) if r % 2 == 0 else (1, 3))]
    else:
        sites = [(s, r, c) for s in range(nshank) for r in range(g["nrow"]) for c in range(g["ncol"])]
    sel = rng.choice(len(sites), n, replace=False)
    return np.array([sites[i] for i in sel])


def make_metas(sel, major, nshank):
    """writes the two encodings of the site table, the way SpikeGLX does"""
    g = GRID[major]
    shank, row, col = sel.T
    x = col * g["DX"] + g["X0"]
    y = row * g["DY"] + g["Y0"]
    if major == 1:
        base = dict(imDatPrb_type=0, imDatPrb_port=1, imDatPrb_slot=2)
        map_col = (2 + row % 2 - col) // 2  # the shank map has 2 columns, flipped
        map_x = 70 - x  # the geometry map is flipped too
    else:
        base = dict(imDatPrb_type=24 if nshank == 4 else 21)
        map_col, map_x = col, x
    map_y = y - 20  # the geometry map counts from the first site, not from the tip
    smap = f"({nshank},2,{g['nrow']})" + "".join(f"({s}:{c}:{r}:1)" for s, c, r in zip(shank, map_col, row))
    gmap = f"(PRB,{nshank},250,70)" + "".join(f"({s}:{a}:{b}:1)" for s, a, b in zip(shank, map_x, map_y))
    expected = dict(shank=shank, row=row, col=col, x=x, y=y)
    return dict(base, snsShankMap=smap), dict(base, snsGeomMap=gmap), expected


def check_geometry(label, th, inds, expected, sort):
    n = expected["row"].size
    if sort:  # oracle: plain python sort of the site tuples
        order = np.array(sorted(range(n), key=lambda i: (expected["shank"][i], expected["row"][i], -expected["col"][i])))
    else:
        order = np.arange(n)
    check(np.array_equal(np.sort(inds), np.arange(n)), f"{label}: returned index is not a permutation")
    check(np.array_equal(inds, order), f"{label}: wrong channel order")
    check(np.array_equal(th["ind"], order), f"{label}: 'ind' is not the original channel number")
    for k, v in expected.items():
        if not np.array_equal(th[k], v[order]):
            d = np.unique(np.asarray(th[k], dtype=float) - v[order])
            errors.append(f"{label}: '{k}' differs from the site table the metadata was written from "
                          f"(returned - expected in {d[:4]})")
    # each site listed once
    check(len(set(zip(th["shank"], th["row"], th["col"]))) == n, f"{label}: a site is listed twice")


rng = np.random.default_rng(8)
for major, nshank, name in [(1, 1, "NP1"), (2, 1, "NP2.1"), (2, 4, "NP2.4")]:
    for trial in range(2):
        sel = make_selection(rng, major, nshank)
        md_shank, md_geom, expected = make_metas(sel, major, nshank)
        got = {}
        for enc, md in (("snsShankMap", md_shank), ("snsGeomMap", md_geom)):
            # ap file sorted, then lf file of the same probe sorted, then the raw channel order
            for step, sort in (("1st read, sorted", True), ("2nd read, sorted", True), ("3rd read, unsorted", False)):
                th, inds = spikeglx.geometry_from_meta(dict(md), return_index=True, sort=sort)
                label = f"{name} selection {trial} {enc} [{step}]"
                check_geometry(label, th, inds, expected, sort)
                got[enc, step] = th
        for step in ("1st read, sorted", "2nd read, sorted", "3rd read, unsorted"):
            a, b = got["snsShankMap", step], got["snsGeomMap", step]
            for k in ("x", "y", "row", "col", "shank", "adc", "sample_shift", "ind"):
                check(np.array_equal(a[k], b[k]),
                      f"{name} selection {trial} [{step}]: the two encodings disagree on '{k}'")

if errors:
    print(f"C08 BROKEN: {len(errors)} inconsistencies, first ones:")
    for e in errors[:12]:
        print("  -", e)
    sys.exit(1)
print("C08 holds: geometry is the site table of the metadata in both encodings, sorted and unsorted, on every read")
sys.exit(0)
