"""
Differential check for refactoring N of property C09 (spikeglx metadata parsing / derived parameters).

The ORIGINAL implementation is taken from a pristine export of HEAD, the REFACTORED one from the worktree
/tmp/wt_C09/src (if the worktree is clean, refactor_N.diff is applied to a second export instead, so that
the script stays runnable once the worktree has been reset).
Prints EQUIVALENT and exits 0 when no difference is found.
"""
import copy
import filecmp
import importlib
import io
import logging
import os
import shutil
import subprocess
import sys
import tarfile
import warnings
from pathlib import Path

import numpy as np

N = 2
TOUCHED = ["_get_max_int_from_meta", "_get_neuropixel_version_from_meta", "_get_fs_from_meta", "_get_type_from_meta",
           "_conversion_sample2v_from_meta"]

WT = Path("/tmp/wt_C09")
TMP = Path("/tmp/wt_C09_tmp") / f"equiv_{N}"
FIXTURES = WT / "src" / "tests" / "fixtures"
NRANDOM = int(os.environ.get("EQUIV_NRANDOM", 400))


# ----------------------------------------------------------------------------------------------
# set-up of the two source trees and import of the two module versions
# ----------------------------------------------------------------------------------------------
def export_head(target):
    target.mkdir(parents=True)
    tar = subprocess.run(
        ["git", "-C", str(WT), "archive", "HEAD", "src/spikeglx.py", "src/neuropixel.py", "src/ibldsp"],
        check=True, capture_output=True).stdout
    with tarfile.open(fileobj=io.BytesIO(tar)) as tf:
        tf.extractall(target)
    return target / "src"


def import_from(src_dir):
    for name in list(sys.modules):
        if name in ("spikeglx", "neuropixel") or name == "ibldsp" or name.startswith("ibldsp."):
            del sys.modules[name]
    sys.path.insert(0, str(src_dir))
    try:
        mod = importlib.import_module("spikeglx")
        npx = sys.modules["neuropixel"]
    finally:
        sys.path.pop(0)
    assert Path(mod.__file__).resolve() == (Path(src_dir) / "spikeglx.py").resolve(), mod.__file__
    assert Path(npx.__file__).resolve() == (Path(src_dir) / "neuropixel.py").resolve(), npx.__file__
    return mod


if TMP.exists():
    shutil.rmtree(TMP)
orig_src = export_head(TMP / "orig")
if filecmp.cmp(orig_src / "spikeglx.py", WT / "src" / "spikeglx.py", shallow=False):
    # clean worktree: build the refactored tree from the stored patch
    new_src = export_head(TMP / "new")
    subprocess.run(["git", "apply", str(WT / f"refactor_{N}.diff")], check=True, cwd=TMP / "new")
    print(f"worktree is clean: refactor_{N}.diff applied to {new_src}")
else:
    new_src = WT / "src"
assert not filecmp.cmp(orig_src / "spikeglx.py", new_src / "spikeglx.py", shallow=False), "nothing to compare"

O = import_from(orig_src)
R = import_from(new_src)
assert O is not R and O.__file__ != R.__file__
print("original   :", O.__file__)
print("refactored :", R.__file__)

import inspect  # noqa
for fname in TOUCHED:
    assert inspect.getsource(getattr(O, fname)) != inspect.getsource(getattr(R, fname)), f"{fname} not modified"


# ----------------------------------------------------------------------------------------------
# comparison helpers
# ----------------------------------------------------------------------------------------------
def same(a, b):
    if type(a) is not type(b):
        return False
    if isinstance(a, np.ndarray):
        if a.dtype != b.dtype or a.shape != b.shape:
            return False
        return same(a.tolist(), b.tolist()) if a.dtype == object else a.tobytes() == b.tobytes()
    if isinstance(a, dict):
        return list(a.keys()) == list(b.keys()) and all(same(a[k], b[k]) for k in a)
    if isinstance(a, (list, tuple)):
        return len(a) == len(b) and all(same(x, y) for x, y in zip(a, b))
    if isinstance(a, (float, np.floating)):
        return repr(a) == repr(b)
    return a == b


def call(func, *args, **kwargs):
    """Runs func, returns (outcome, warnings, arguments after the call)"""
    args = copy.deepcopy(args)
    with warnings.catch_warnings(record=True) as wlist:
        warnings.simplefilter("always")
        try:
            out = ("ok", func(*args, **kwargs))
        except Exception as e:  # noqa
            out = ("exception", type(e).__name__, str(e))
    return out, [(w.category.__name__, str(w.message)) for w in wlist], args


NCOMP = 0
STATS = {}
logging.getLogger("ibllib").setLevel(logging.CRITICAL)


def compare(label, fname, *args, **kwargs):
    global NCOMP
    ro = call(getattr(O, fname), *args, **kwargs)
    rr = call(getattr(R, fname), *args, **kwargs)
    NCOMP += 1
    if not same(ro, rr):
        print(f"DIFFERENT: {fname} on {label}\n  original  : {ro[:2]}\n  refactored: {rr[:2]}")
        sys.exit(1)
    st = STATS.setdefault(fname, {"ok": 0, "exception": 0})
    st[ro[0][0]] += 1
    return ro[0]


META_FUNCS = [
    "_get_type_from_meta", "_get_neuropixel_version_from_meta", "_get_neuropixel_major_version_from_meta",
    "_get_fs_from_meta", "_get_nchannels_from_meta", "_get_sync_trace_indices_from_meta",
    "_get_analog_sync_trace_indices_from_meta", "_get_max_int_from_meta", "_get_serial_number_from_meta",
    "_conversion_sample2v_from_meta",
]


def compare_all_on_dict(label, md):
    for fname in META_FUNCS:
        compare(label, fname, md)
    for version in ("3A", "3B1", "3B2", "NP2.1", "NP2.4", "NPultra", "", None):
        compare(label, "_get_max_int_from_meta", md, neuropixel_version=version)
        compare(label, "_get_max_int_from_meta", md, version)


def compare_write(label, md, tag):
    outs = []
    for mod, sub in ((O, "o"), (R, "r")):
        fn = TMP / f"write_{tag}_{sub}.meta"
        if fn.exists():
            fn.unlink()
        outs.append((call(mod.write_meta_data, md, fn)[:2], fn.read_bytes() if fn.exists() else None, fn))
    global NCOMP
    NCOMP += 1
    if not same(outs[0][:2], outs[1][:2]):
        print(f"DIFFERENT: write_meta_data on {label}\n  {outs[0][:2]}\n  {outs[1][:2]}")
        sys.exit(1)
    return outs[0][2], outs[1][2]


READER_PROPS = ["fs", "nc", "nsync", "ns", "type", "version", "major_version", "sample2volts", "range_volts",
                "shape", "rl", "channel_conversion_sample2v", "meta"]


def reader_snapshot(mod, meta_file):
    sr = mod.Reader(meta_file)
    snap = {}
    for p in READER_PROPS:
        snap[p] = call(lambda: getattr(sr, p))[:2]
        if p == "meta" and snap[p][0][0] == "ok":
            snap[p] = (("ok", dict(snap[p][0][1])), snap[p][1])
    return snap


def compare_reader(label, meta_file):
    global NCOMP
    ro = call(lambda: reader_snapshot(O, meta_file))[:2]
    rr = call(lambda: reader_snapshot(R, meta_file))[:2]
    NCOMP += 1
    if not same(ro, rr):
        print(f"DIFFERENT: Reader on {label}\n  {ro}\n  {rr}")
        sys.exit(1)


def compare_file(label, meta_file, tag):
    """full pipeline on a metadata file: read, derived quantities, write, read again, Reader properties"""
    out = compare(label, "read_meta_data", meta_file)
    compare_reader(label, meta_file)
    if out[0] != "ok":
        return None
    md = out[1]
    compare_all_on_dict(label, md)
    fo, fr = compare_write(label, md, tag)
    if fo.exists():
        compare(label + " (round trip)", "read_meta_data", fo)
        # cross-read: file written by one version read by the other
        a = call(O.read_meta_data, fr)[:2]
        b = call(R.read_meta_data, fo)[:2]
        if not same(a, b):
            print(f"DIFFERENT: cross round trip on {label}")
            sys.exit(1)
    return md


# ----------------------------------------------------------------------------------------------
# input generation
# ----------------------------------------------------------------------------------------------
GAINS = [50, 125, 250, 500, 1000, 1500, 2000, 3000]
PROBES = ["3A", "3B1", "3B2", "NP2.1", "NP2.4", "NPultra", "nidq"]
WEIRD_VALUES = ["", ",", ".", "1,,2", "1.2.3", "1.5,2", "0", "007", "12.", ".5", "a=b=c", "=", "1e5", "-3", "1 2",
                "3,4,5", "1.0,2.0", "true", "0:383,768", "(1,2,480)(0:0:0:1)", "١٢"]


def random_meta_lines(rng, probe=None, stream=None):
    probe = probe or PROBES[rng.integers(len(PROBES))]
    stream = stream or ("ap", "lf")[rng.integers(2)]
    lines = []
    fs = float(rng.choice([30000.0, 2500.0, 30000.390639481, 29999.757983, 2500.0325]))
    lines.append(f"fileTimeSecs={rng.uniform(0, 4000)}")
    if probe == "nidq":
        mn, ma, xa, dw = (int(v) for v in rng.integers(0, 9, 4))
        if rng.random() < 0.5:
            mn, ma = 0, 0
        lines += [
            f"snsMnMaXaDw={mn},{ma},{xa},{dw}", f"acqMnMaXaDw={mn},{ma},{xa},{dw}",
            f"nSavedChans={mn + ma + xa + dw}", f"niAiRangeMax={rng.choice([5, 2.5, 10, 1])}",
            f"niAiRangeMin=-{rng.choice([5, 2.5])}", f"niMAGain={rng.choice([1, 2, 10])}",
            f"niMNGain={rng.choice([200, 1, 500])}", f"niSampRate={fs}", "typeThis=nidq",
            "~snsShankMap=(1,2,0)", f"~snsChanMap=({mn},{ma},{xa},{dw},1)(XA0;0:0)(XD0;1:1)",
        ]
        if rng.random() < 0.2:
            lines.append(f"imMaxInt={rng.choice([32768, 512])}")
    else:
        nsy = int(rng.choice([1, 1, 1, 0, 2]))
        nchan = int(rng.choice([384, 384, 376, 276, 96, 32, 1, 0, 383]))
        sy = f"0,{nchan},{nsy}" if stream == "lf" else f"{nchan},0,{nsy}"
        if rng.random() < 0.05:
            sy = f"{nchan},{nchan},{nsy}"  # undetermined type
        nsaved = nchan + nsy
        if rng.random() < 0.1:
            nsaved = int(rng.integers(0, 400))
        lines += [f"snsApLfSy={sy}", f"acqApLfSy=384,384,{nsy}", f"nSavedChans={nsaved}",
                  f"imAiRangeMax={rng.choice([0.6, 0.5, 0.62, 1])}", "imAiRangeMin=-0.6", f"imSampRate={fs}",
                  "typeThis=imec"]
        ngain = int(rng.choice([384, 384, nchan, max(nchan - 3, 0)]))
        uniform = rng.random() < 0.3
        apg = rng.choice(GAINS, ngain) if not uniform else np.full(ngain, 500)
        lfg = rng.choice(GAINS, ngain) if not uniform else np.full(ngain, 250)
        if rng.random() < 0.05 and ngain:
            apg[rng.integers(ngain)] = 0
        if probe == "3A":
            lines += [f"imProbeSN={rng.integers(1, 10 ** 9)}", "typeEnabled=imec", "imProbeOpt=3"]
            imro = f"({rng.integers(1, 10 ** 9)},3,{ngain})" + "".join(
                f"({i} 0 0 {apg[i]} {lfg[i]})" for i in range(ngain))
        elif probe in ("3B1", "3B2", "NPultra"):
            lines += [f"imDatPrb_sn={rng.integers(1, 10 ** 11)}",
                      f"imDatPrb_type={0 if probe != 'NPultra' else 1100}"]
            if probe != "3B1":
                lines += [f"imDatPrb_port={rng.integers(1, 5)}", f"imDatPrb_slot={rng.integers(1, 5)}"]
            elif rng.random() < 0.5:
                lines += [f"imDatPrb_port={rng.integers(1, 5)}"]
            imro = f"(0,{ngain})" + "".join(f"({i} 0 0 {apg[i]} {lfg[i]} 1)" for i in range(ngain))
        else:
            ptype = {"NP2.1": [21, 1030], "NP2.4": [24, 2013]}[probe][rng.integers(2)]
            lines += [f"imDatPrb_sn={rng.integers(1, 10 ** 11)}", f"imDatPrb_type={ptype}",
                      "imDatPrb_port=1", "imDatPrb_slot=2"]
            if probe == "NP2.1":
                imro = f"({ptype},{ngain})" + "".join(f"({i} 0 0 {i})" for i in range(ngain))
            else:
                imro = f"({ptype},{ngain})" + "".join(f"({i} {i % 4} 0 0 {i})" for i in range(ngain))
        pmax = 0.1 if probe in ("NP2.1", "NP2.4") else 0.6
        if rng.random() > pmax:
            lines.append(f"imMaxInt={rng.choice([512, 8192, 2048])}")
        if rng.random() > 0.05:
            lines.append(("~" if rng.random() < 0.7 else "") + f"imroTbl={imro}")
        nsh = 4 if probe == "NP2.4" else 1
        if rng.random() < 0.7:
            lines.append("~snsShankMap=" + f"({nsh},2,480)" + "".join(
                f"({(i // 96) % nsh}:{i % 2}:{i // 2}:1)" for i in range(nchan)))
        elif rng.random() < 0.7:
            lines.append("~snsGeomMap=" + f"(NP,{nsh},0,70)" + "".join(
                f"({(i // 96) % nsh}:{27 + 32 * (i % 2)}:{15 * (i // 2)}:1)" for i in range(nchan)))
        if probe == "NP2.4" and rng.random() < 0.2:
            lines.append(f"NP2.4_shank={rng.integers(0, 4)}")
    # grammar noise: free strings, '=' inside values, tilde keys, scalars, integer lists
    for i in range(int(rng.integers(0, 8))):
        kind = rng.integers(6)
        key = ("~" if rng.random() < 0.3 else "") + f"extraKey{i}" + ("~" if rng.random() < 0.1 else "")
        if kind == 0:
            val = WEIRD_VALUES[rng.integers(len(WEIRD_VALUES))]
        elif kind == 1:
            val = str(rng.integers(0, 10 ** 12))
        elif kind == 2:
            val = repr(float(rng.uniform(0, 1e6)))
        elif kind == 3:
            val = ",".join(str(v) for v in rng.integers(0, 1000, rng.integers(1, 6)))
        elif kind == 4:
            val = "C:/path to/file=" + "".join(rng.choice(list("abc=~ ,.0123"), rng.integers(0, 12)))
        else:
            val = ",".join(repr(round(float(v), 3)) for v in rng.uniform(0, 10, rng.integers(1, 4)))
        lines.append(f"{key}={val}")
    rng.shuffle(lines)
    if rng.random() < 0.02:
        lines.insert(int(rng.integers(len(lines) + 1)), "a line without the separator")
    if rng.random() < 0.02:
        lines.insert(int(rng.integers(len(lines) + 1)), "")
    return lines, probe, stream


MUTATION_KEYS = ["typeThis", "snsApLfSy", "snsMnMaXaDw", "nSavedChans", "imAiRangeMax", "niAiRangeMax", "imMaxInt",
                 "imroTbl", "niMNGain", "niMAGain", "imSampRate", "niSampRate", "imDatPrb_type", "imDatPrb_port",
                 "imDatPrb_slot", "typeEnabled", "imProbeSN", "imDatPrb_sn", "neuropixelVersion", "serial"]
MUTATION_VALUES = [None, "abc", "", 0.0, 1.0, -1.0, 21.0, 24.0, 1030.0, 2013.0, 1100.0, 3.0, [1.0], [], "imec", "nidq",
                   [0.0, 0.0, 0.0], [-1, -1, -1], [-1.0, -1.0, -1.0], [384.0, 0.0, 1.0], [0.0, 384.0, 1.0],
                   [0.0, 0.0, 1.0, 1.0], [2.0, 3.0, 1.0, 1.0], [1.0, 2.0], float("nan"), float("inf"), "0", 512, 8192.0,
                   "(0,2)(0 0 0 500 250 1)(1 0 0 1000 125 1)", "(0,1)(0 0 0  250 1)", True, np.float32(2.0),
                   np.array([384, 0, 1])]


def mutate(rng, md):
    md = copy.deepcopy(md)
    for _ in range(int(rng.integers(1, 4))):
        key = MUTATION_KEYS[rng.integers(len(MUTATION_KEYS))]
        if rng.random() < 0.4:
            md.pop(key, None)
        else:
            md[key] = copy.deepcopy(MUTATION_VALUES[rng.integers(len(MUTATION_VALUES))])
    return md


WRITE_VALUES = [[], [1.0, 2.0], [1.5, 2.7], [-1.2], ["1", "2"], ["a"], [[1.0]], [None], (1.0, 2.0), 1.0, 1.5, -0.0, 1e22, 1e-7,
                float("nan"), float("inf"), np.float64(3.0), np.float64(3.5), np.float32(3.0), np.int64(4), True, None,
                "a=b", "", 3, [float("nan")], [float("inf")], [1e30], {"a": 1.0}, np.array([1.0, 2.0]), [np.float64(2.9)],
                [True, False]]


# ----------------------------------------------------------------------------------------------
# run
# ----------------------------------------------------------------------------------------------
rng = np.random.default_rng(9090 + N)

# 1) shipped fixtures
fixtures = sorted(FIXTURES.rglob("*.meta"))
assert len(fixtures) >= 19
parsed = []
for i, f in enumerate(fixtures):
    md = compare_file(str(f.relative_to(FIXTURES)), f, f"fixture{i}")
    if md is not None:
        parsed.append(md)

# 2) random metadata files over probe x stream x gain tables x saved channel subsets
seen = set()
for i in range(NRANDOM):
    probe = PROBES[i % len(PROBES)] if i < 10 * len(PROBES) else None
    stream = ("ap", "lf")[(i // len(PROBES)) % 2] if i < 10 * len(PROBES) else None
    lines, probe, stream = random_meta_lines(rng, probe, stream)
    seen.add((probe, stream))
    ext = "nidq" if probe == "nidq" else stream
    meta_file = TMP / f"random_{i:04d}.{ext}.meta"
    meta_file.write_text("\n".join(lines) + ("\n" if rng.random() < 0.8 else ""))
    md = compare_file(f"random file {i} ({probe}, {stream})", meta_file, "random")
    if md is not None and len(parsed) < 150:
        parsed.append(md)
    if i >= 60:
        meta_file.unlink()
assert len(seen) == 2 * len(PROBES), seen

# 3) dictionary-level mutations (missing / ill-typed fields, exception paths)
for i in range(4 * NRANDOM):
    md = mutate(rng, parsed[rng.integers(len(parsed))])
    compare_all_on_dict(f"mutated dict {i}", md)
    if i % 4 == 0:
        compare_write(f"mutated dict {i}", md, "mutated")
compare_all_on_dict("empty dict", {})
compare_all_on_dict("plain dict", dict(parsed[0]))

# 4) serialisation of unusual values
for i in range(NRANDOM):
    md = {"first": 1.0}
    for j in range(int(rng.integers(1, 5))):
        md[f"k{j}"] = copy.deepcopy(WRITE_VALUES[rng.integers(len(WRITE_VALUES))])
    md["last"] = [3.0, 4.0]
    fo, fr = compare_write(f"write values {i}", md, "values")
    compare(f"write values {i} (read back)", "read_meta_data", fo)
for j, v in enumerate(WRITE_VALUES):
    compare_write(f"write value {j}", {"a": "x", "v": copy.deepcopy(v), "z": 2.0}, "value")

# 5) parsing of single odd lines
for j, v in enumerate(WEIRD_VALUES):
    for key in ("key", "~key", "k~e~y", ""):
        fn = TMP / "odd.meta"
        fn.write_text(f"{key}={v}\ntypeThis=imec\n")
        compare(f"odd line {key}={v}", "read_meta_data", fn)
for content in ("", "\n", "novalue\n", "a=1\r\nb=2\r\n", "a=1\n\nb=2\n", "a=1\nb", "=\n", "a==\n", "a=1=2\n"):
    fn = TMP / "odd.meta"
    fn.write_bytes(content.encode())
    compare(f"odd content {content!r}", "read_meta_data", fn)
compare("missing file", "read_meta_data", TMP / "does_not_exist.meta")

# 6) random lines over a small alphabet stressing the numeric coercion, then write / read again
ALPHABET = list("0123456789012345,,..=~ a-")
for i in range(NRANDOM):
    fn = TMP / "fuzz.meta"
    rows = []
    for j in range(int(rng.integers(1, 12))):
        key = "".join(rng.choice(list("abK~_1"), rng.integers(0, 6)))
        val = "".join(rng.choice(ALPHABET, rng.integers(0, 10)))
        rows.append(f"{key}={val}")
    fn.write_text("\n".join(rows) + "\n")
    out = compare(f"fuzz file {i}: {rows}", "read_meta_data", fn)
    if out[0] == "ok":
        fo, fr = compare_write(f"fuzz file {i}: {rows}", out[1], "fuzz")
        compare(f"fuzz file {i} (read back)", "read_meta_data", fo)

for fname, st in STATS.items():
    print(f"  {fname:45s} returned {st['ok']:6d}  raised {st['exception']:6d}")
print(f"{NCOMP} comparisons, {len(fixtures)} fixtures, {NRANDOM} random files")
print("EQUIVALENT")
sys.exit(0)
