import sys, os; sys.path.insert(0, os.path.join(os.path.dirname(os.path.abspath(__file__)), "src"))
"""
Differential equivalence check for the C09 housekeeping change of src/spikeglx.py (meta data parsing,
writing and derived acquisition parameters).

The functions defined below under their original names are VERBATIM copies of the implementation before the
change; they only call each other.  The (possibly refactored) implementation is imported as `new`.
Both are run on the same seeded random inputs (meta data files and dictionaries for every probe type,
stream, gain pair, saved channel count, plus malformed inputs) and must agree exactly: same types, dtypes,
shapes, values, exception types and messages, and bytes written to disk.
Exits 0 when everything is identical, 1 with a message otherwise.
"""
import random
import re
import shutil
import tempfile
import warnings
from pathlib import Path

import numpy as np
from iblutil.util import Bunch

import spikeglx as new

# --------------------------------------------------------------------------------------------------
# ORIGINAL implementation (verbatim copies, reference)
# --------------------------------------------------------------------------------------------------


def read_meta_data(md_file):
    """
    Reads the spkike glx metadata file and parse in a dictionary
    Agnostic: does not make any assumption on the keys/content, it just parses key=values

    :param md_file: last sample to be read, python slice-wise
    :return: Data array, sync trace, meta-data
    """
    with open(md_file) as fid:
        md = fid.read()
    d = {}
    for a in md.splitlines():
        k, v = a.split("=", maxsplit=1)
        # if all numbers, try to interpret the string
        if v and re.fullmatch("[0-9,.]*", v) and v.count(".") < 2:
            v = [float(val) for val in v.split(",")]
            # scalars should not be nested
            if len(v) == 1:
                v = v[0]
        # tildes in keynames removed
        d[k.replace("~", "")] = v
    d["neuropixelVersion"] = _get_neuropixel_version_from_meta(d)
    d["serial"] = _get_serial_number_from_meta(d)
    return Bunch(d)


def write_meta_data(md, md_file):
    """
    Parses a dict into a spikeglx meta data file
    :param meta: meta data dict
    :param md_file: file to save meta data to
    :return:
    """
    with open(md_file, "w") as fid:
        for key, val in md.items():
            if isinstance(val, list):
                val = ",".join([str(int(v)) for v in val])
            if isinstance(val, float):
                if val.is_integer():
                    val = int(val)
            fid.write(f"{key}={val}\n")


def _get_serial_number_from_meta(md):
    """
    Get neuropixel serial number from the metadata dictionary
    """
    # imProbeSN for 3A, imDatPrb_sn for 3B2, None for nidq 3B2
    serial = md.get("imProbeSN") or md.get("imDatPrb_sn")
    if serial:
        return int(serial)


def _get_max_int_from_meta(md, neuropixel_version=None):
    """
    Gets the int value corresponding to the maximum voltage (range max)
    :param md:
    :param neuropixel_version:
    :return:
    """
    # if this is an imec probe, this is electrophysiology and we assert the imMaxInt presence in NP2
    if md.get("typeThis", None) == "imec":
        neuropixel_version = neuropixel_version or _get_neuropixel_version_from_meta(md)
        if "NP2" in neuropixel_version:
            return int(md["imMaxInt"])  # usually 8192 but could be different
        else:  # in case of NP1 it may not be in the header, but it has always been 512
            return int(md.get("imMaxInt", 512))
    else:  # this is a nidq device
        return int(md.get("imMaxInt", 32768))


def _get_neuropixel_version_from_meta(md):
    """
    Get neuropixel version tag (3A, 3B1, 3B2) from the metadata dictionary
    A useful resource is the following link:
    https://billkarsh.github.io/SpikeGLX/help/parsing/
    """
    if "typeEnabled" in md.keys():
        return "3A"
    prb_type = md.get("imDatPrb_type")
    # Neuropixel 1.0 either 3B1 or 3B2 (ask Olivier about 3B1)
    if prb_type == 0:
        if "imDatPrb_port" in md.keys() and "imDatPrb_slot" in md.keys():
            return "3B2"
        else:
            return "3B1"
    # Neuropixel 2.0 single shank
    elif prb_type == 21 or prb_type == 1030:
        return "NP2.1"
    # Neuropixel 2.0 four shank
    elif prb_type == 24 or prb_type == 2013:
        return "NP2.4"
    elif prb_type == 1100:
        return "NPultra"


def _get_sync_trace_indices_from_meta(md):
    """
    Returns a list containing indices of the sync traces in the original array
    """
    typ = _get_type_from_meta(md)
    ntr = int(_get_nchannels_from_meta(md))
    if typ == "nidq":
        nsync = int(md.get("snsMnMaXaDw")[-1])
    elif typ in ["lf", "ap"]:
        nsync = int(md.get("snsApLfSy")[2])
    return list(range(ntr - nsync, ntr))


def _get_nchannels_from_meta(md):
    return int(md.get("nSavedChans"))


def _get_fs_from_meta(md):
    if md.get("typeThis") == "imec":
        return md.get("imSampRate")
    else:
        return md.get("niSampRate")


def _get_type_from_meta(md):
    """
    Get neuropixel data type (ap, lf or nidq) from metadata
    """
    snsApLfSy = md.get("snsApLfSy", [-1, -1, -1])
    if snsApLfSy[0] == 0 and snsApLfSy[1] != 0:
        return "lf"
    elif snsApLfSy[0] != 0 and snsApLfSy[1] == 0:
        return "ap"
    elif snsApLfSy == [-1, -1, -1] and md.get("typeThis", None) == "nidq":
        return "nidq"


def _conversion_sample2v_from_meta(meta_data):
    """
    Interpret the meta data to extract an array of conversion factors for each channel
    so the output data is in Volts
    Conversion factor is: int2volt / channelGain
    For Lf/Ap interpret the gain string from metadata
    For Nidq, repmat the gains from the trace counts in `snsMnMaXaDw`

    :param meta_data: dictionary output from  spikeglx.read_meta_data
    :return: numpy array with one gain value per channel
    """

    def int2volts(md):
        """:return: Conversion scalar to Volts. Needs to be combined with channel gains"""
        maxint = _get_max_int_from_meta(md)
        if md.get("typeThis", None) == "imec":
            return md.get("imAiRangeMax") / maxint
        else:
            return md.get("niAiRangeMax") / maxint

    int2volt = int2volts(meta_data)
    version = _get_neuropixel_version_from_meta(meta_data)
    # interprets the gain value from the metadata header:
    if "imroTbl" in meta_data.keys():  # binary from the probes: ap or lf
        sy_gain = np.ones(int(meta_data["snsApLfSy"][-1]), dtype=np.float32)
        # imroTbl has 384 entries regardless of no of channels saved, so need to index by n_ch
        n_chn = _get_nchannels_from_meta(meta_data) - len(
            _get_sync_trace_indices_from_meta(meta_data)
        )
        if "NP2" in version:
            # NP 2.0; APGain = 80 for all AP
            # return 0 for LFgain (no LF channels)
            out = {
                "lf": np.hstack(
                    (int2volt / 80 * np.ones(n_chn).astype(np.float32), sy_gain)
                ),
                "ap": np.hstack(
                    (int2volt / 80 * np.ones(n_chn).astype(np.float32), sy_gain)
                ),
            }
        else:
            # the sync traces are not included in the gain values, so are included for
            # broadcast ops
            gain = re.findall(
                r"([0-9]* [0-9]* [0-9]* [0-9]* [0-9]*)", meta_data["imroTbl"]
            )[:n_chn]
            out = {
                "lf": np.hstack(
                    (
                        np.array([1 / np.float32(g.split(" ")[-1]) for g in gain])
                        * int2volt,
                        sy_gain,
                    )
                ),
                "ap": np.hstack(
                    (
                        np.array([1 / np.float32(g.split(" ")[-2]) for g in gain])
                        * int2volt,
                        sy_gain,
                    )
                ),
            }

    # nidaq gain can be read in the same way regardless of NP1.0 or NP2.0
    elif "niMNGain" in meta_data.keys():  # binary from nidq
        gain = np.r_[
            np.ones(
                int(
                    meta_data["snsMnMaXaDw"][0],
                )
            )
            / meta_data["niMNGain"]
            * int2volt,
            np.ones(
                int(
                    meta_data["snsMnMaXaDw"][1],
                )
            )
            / meta_data["niMAGain"]
            * int2volt,
            np.ones(
                int(
                    meta_data["snsMnMaXaDw"][2],
                )
            )
            * int2volt,  # no gain for analog sync
            np.ones(
                int(
                    np.sum(meta_data["snsMnMaXaDw"][3]),
                )),
        ]  # no unit for digital sync
        out = {"nidq": gain}

    return out


# --------------------------------------------------------------------------------------------------
# Differential harness
# --------------------------------------------------------------------------------------------------
HERE = Path(os.path.dirname(os.path.abspath(__file__)))
SEED = 90904
GAINS = [50, 125, 250, 500, 1000, 1500, 2000, 3000]
VERSION_ARGS = [None, "", "3A", "3B1", "3B2", "NP2.1", "NP2.4", "NPultra"]
# (reference, new) for every function taking only the meta data dictionary
DERIVED = [
    (_get_neuropixel_version_from_meta, new._get_neuropixel_version_from_meta),
    (_get_type_from_meta, new._get_type_from_meta),
    (_get_fs_from_meta, new._get_fs_from_meta),
    (_get_nchannels_from_meta, new._get_nchannels_from_meta),
    (_get_sync_trace_indices_from_meta, new._get_sync_trace_indices_from_meta),
    (_get_max_int_from_meta, new._get_max_int_from_meta),
    (_conversion_sample2v_from_meta, new._conversion_sample2v_from_meta),
]

failures = []
counts = {"comparisons": 0, "inputs": 0, "raised": 0}


def outcome(fn, *args, **kwargs):
    """Runs fn and returns a comparable description of what happened"""
    try:
        with warnings.catch_warnings():
            warnings.simplefilter("ignore")
            return ("ok", fn(*args, **kwargs))
    except Exception as e:  # noqa
        return ("raised", type(e), str(e))


def same(a, b):
    """Exact recursive comparison: types, dtypes, shapes, values, key order"""
    if type(a) is not type(b):
        return False
    if isinstance(a, np.ndarray):
        return a.dtype == b.dtype and a.shape == b.shape and np.array_equal(a, b, equal_nan=a.dtype.kind in "fc")
    if isinstance(a, dict):
        return list(a.keys()) == list(b.keys()) and all(same(a[k], b[k]) for k in a)
    if isinstance(a, (list, tuple)):
        return len(a) == len(b) and all(same(x, y) for x, y in zip(a, b))
    if isinstance(a, np.generic):
        return a.dtype == b.dtype and bool(a == b or (a != a and b != b))
    if isinstance(a, float):
        return a == b or (a != a and b != b)
    if isinstance(a, type):
        return a is b
    return a == b


def check(label, ref, res, context):
    counts["comparisons"] += 1
    if ref[0] == "raised":
        counts["raised"] += 1
    if not same(ref, res):
        failures.append(f"{label}: reference {ref!r} != refactored {res!r}\n    input: {context!r:.600}")
        return False
    return True


def check_derived(md_ref, md_new, context):
    """md_ref / md_new are equal dictionaries given to the reference / refactored functions"""
    for fref, fnew in DERIVED:
        check(fref.__name__, outcome(fref, md_ref), outcome(fnew, md_new), context)
    for version in VERSION_ARGS:
        check(f"_get_max_int_from_meta[{version!r}]",
              outcome(_get_max_int_from_meta, md_ref, neuropixel_version=version),
              outcome(new._get_max_int_from_meta, md_new, neuropixel_version=version), context)
        check(f"_get_max_int_from_meta[positional {version!r}]",
              outcome(_get_max_int_from_meta, md_ref, version),
              outcome(new._get_max_int_from_meta, md_new, version), context)


def read_bytes_or_none(path):
    return Path(path).read_bytes() if Path(path).exists() else None


def check_write(md_ref, md_new, tmp, context, as_path):
    """Writes with both implementations, compares the outcome and the bytes on disk (also after an exception)"""
    f_ref, f_new = tmp / "written_ref.meta", tmp / "written_new.meta"
    for f in (f_ref, f_new):
        if f.exists():
            f.unlink()
    conv = Path if as_path else str
    o_ref = outcome(write_meta_data, md_ref, conv(f_ref))
    o_new = outcome(new.write_meta_data, md_new, conv(f_new))
    ok = check("write_meta_data", o_ref, o_new, context)
    ok &= check("write_meta_data[bytes]", ("ok", read_bytes_or_none(f_ref)), ("ok", read_bytes_or_none(f_new)), context)
    return ok, f_ref, f_new


def check_text(text, tmp, rng, context=None):
    """Full chain on a meta data file content: read, derived quantities, write, read again"""
    counts["inputs"] += 1
    context = text if context is None else context
    fmeta = tmp / "input.meta"
    with open(fmeta, "w", newline="", errors="replace") as fid:
        fid.write(text)
    as_path = rng.random() < 0.5
    conv = Path if as_path else str
    o_ref = outcome(read_meta_data, conv(fmeta))
    o_new = outcome(new.read_meta_data, conv(fmeta))
    if not check("read_meta_data", o_ref, o_new, context) or o_ref[0] != "ok":
        return
    md_ref, md_new = o_ref[1], o_new[1]
    check_derived(md_ref, md_new, context)
    check_derived(dict(md_ref), dict(md_new), context)
    ok, f_ref, f_new = check_write(md_ref, md_new, tmp, context, as_path)
    if ok and f_ref.exists():
        # round trip: both written files read by both implementations
        check("read_meta_data[round trip]", outcome(read_meta_data, f_ref), outcome(new.read_meta_data, f_new), context)
        check("read_meta_data[round trip crossed]", outcome(read_meta_data, f_new), outcome(new.read_meta_data, f_ref), context)


# ------------------------------------------------------------------ generators
def fmt_num(rng, x):
    """A number the way SpikeGLX may print it"""
    if float(x).is_integer() and rng.random() < 0.8:
        return str(int(x))
    return repr(float(x))


def imro_table(rng, kind, n):
    if kind == "3A":
        head = f"({rng.randrange(10 ** 9)},{rng.choice([0, 1])},{n})"
        body = "".join(f"({i} {rng.choice([0, 1, 2])} {rng.choice([0, 1])} {rng.choice(GAINS)} {rng.choice(GAINS)})"
                       for i in range(n))
    elif kind in ("3B1", "3B2", "unknown", "none"):
        head = f"(0,{n})"
        gains = GAINS + ([0] if rng.random() < 0.05 else [])
        body = "".join(f"({i} {rng.choice([0, 1, 2])} {rng.choice([0, 1])} {rng.choice(gains)} {rng.choice(gains)} "
                       f"{rng.choice([0, 1])})" for i in range(n))
    elif kind == "NP2.1":
        head = f"(21,{n})"
        body = "".join(f"({i} {rng.choice([1, 2, 4, 8])} {rng.choice([0, 1])} {i + rng.choice([0, 384])})"
                       for i in range(n))
    elif kind == "NP2.4":
        head = f"(24,{n})"
        body = "".join(f"({i} {rng.randrange(4)} {rng.randrange(4)} {rng.choice([0, 1])} {rng.randrange(1280)})"
                       for i in range(n))
    else:  # NPultra
        head = f"(1100,{n})"
        body = "".join(f"({i} 0 0 {rng.choice(GAINS)} {rng.choice(GAINS)} 1)" for i in range(n))
    if rng.random() < 0.03:
        body += "(    )"  # matches the gain pattern with empty fields
    return head + body


def imec_lines(rng):
    kind = rng.choice(["3A", "3B1", "3B2", "NP2.1", "NP2.4", "NPultra", "3B2", "NP2.4", "unknown", "none"])
    stream = rng.choice(["ap", "lf"])
    n = rng.choice([384, 384, 376, 96, 1, 0, 385, rng.randrange(1, 384), rng.randrange(1, 40)])
    nimro = rng.choice([384, 384, n, max(n - 1, 0), rng.randrange(0, 20)])
    nsync = rng.choice([1, 1, 1, 0, 2])
    roll = rng.random()
    if roll < 0.04:
        sns = [n, n, nsync]  # neither ap nor lf
    elif roll < 0.07:
        sns = [0, 0, nsync]
    elif roll < 0.09:
        sns = [n, 0]  # too short
    else:
        sns = [n, 0, nsync] if stream == "ap" else [0, n, nsync]
    nsaved = n + nsync + (rng.choice([-1, 1, 5]) if rng.random() < 0.05 else 0)
    lines = [
        ("acqApLfSy", "384,384,1"),
        ("appVersion", rng.choice(["20190327", "20230905", "1.2.3"])),
        ("fileName", rng.choice(["D:/data/run_g0_t0.imec.ap.bin", "C:/a=b/c d/run=1.bin", "/mnt/s0/=x"])),
        ("fileSizeBytes", str(rng.randrange(10 ** 10))),
        ("fileTimeSecs", fmt_num(rng, rng.choice([0.0, 1.5, 3600.123, 2041.0]))),
        ("firstSample", str(rng.randrange(10 ** 6))),
        ("imAiRangeMax", fmt_num(rng, rng.choice([0.6, 0.5, 0.62, 1.0, 0.6]))),
        ("imAiRangeMin", "-0.6"),
        ("imSampRate", fmt_num(rng, rng.choice([30000.0, 2500.0, 30000.123456, 29999.95, 2500.01]))),
        ("nSavedChans", str(nsaved)),
        ("snsApLfSy", ",".join(str(v) for v in sns)),
        ("snsSaveChanSubset", rng.choice(["all", "0:383,768", f"0:{max(n - 1, 0)},768"])),
        ("typeThis", "imec"),
        ("~imroTbl", imro_table(rng, kind, nimro)),
        ("~snsChanMap", "(384,384,1)(AP0;0:0)(AP1;1:1)(SY0;768:768)"),
        ("~snsShankMap", "(1,2,480)" + "".join(f"(0:{i % 2}:{i // 2}:{rng.choice([0, 1])})" for i in range(min(n, 8)))),
    ]
    maxint = rng.choice([None, None, 512, 8192, 2048, 0])
    if kind.startswith("NP2") and rng.random() < 0.9:
        maxint = rng.choice([8192, 8192, 2048, 512])
    if maxint is not None:
        lines.append(("imMaxInt", str(maxint)))
    if kind == "3A":
        lines += [("typeEnabled", "imec"), ("imProbeSN", str(rng.randrange(10 ** 9))), ("imProbeOpt", "3")]
    else:
        ptype = {"3B1": 0, "3B2": 0, "NP2.1": rng.choice([21, 1030]), "NP2.4": rng.choice([24, 2013]),
                 "NPultra": 1100, "unknown": rng.choice([5, 22, 1123, 1.5, 3]), "none": None}[kind]
        if ptype is not None:
            lines.append(("imDatPrb_type", str(ptype) if rng.random() < 0.9 else f"{ptype}.0"))
        if kind != "3B1":
            lines += [("imDatPrb_port", str(rng.randrange(1, 5))), ("imDatPrb_slot", str(rng.randrange(2, 9)))]
        elif rng.random() < 0.5:
            lines.append((rng.choice(["imDatPrb_port", "imDatPrb_slot"]), "1"))
        lines.append(("imDatPrb_sn", str(rng.randrange(10 ** 11)) if rng.random() < 0.9 else "0"))
        if kind == "NP2.4" and rng.random() < 0.3:
            lines.append(("NP2.4_shank", str(rng.randrange(4))))
    return lines


def nidq_lines(rng):
    mn, ma, xa, dw = rng.choice([(0, 0, 8, 1), (0, 0, 3, 1), (2, 3, 4, 1), (0, 0, 0, 1), (1, 0, 0, 0), (0, 0, 0, 0),
                                 tuple(rng.randrange(0, 6) for _ in range(4))])
    sns = [mn, ma, xa, dw]
    if rng.random() < 0.05:
        sns = sns[:rng.randrange(1, 4)]
    lines = [
        ("fileName", "D:/data/run_g0_t0.nidq.bin"),
        ("nSavedChans", str(mn + ma + xa + dw + (1 if rng.random() < 0.05 else 0))),
        ("niAiRangeMax", fmt_num(rng, rng.choice([5.0, 2.5, 10.0, 1.25]))),
        ("niAiRangeMin", "-5"),
        ("niMAGain", fmt_num(rng, rng.choice([1.0, 1.0, 2.0, 10.0, 0.5, 0.0]))),
        ("niMNGain", fmt_num(rng, rng.choice([200.0, 200.0, 1.0, 500.0, 0.0, 12.5]))),
        ("niSampRate", fmt_num(rng, rng.choice([30000.0, 30003.0, 25000.0, 30000.296147]))),
        ("snsMnMaXaDw", ",".join(str(v) for v in sns)),
        ("typeThis", "nidq"),
        ("niXAChans1", "0:7"),
        ("~snsChanMap", "(0,0,8,1)(XA0;0:0)(XD0;8:8)"),
        ("~snsShankMap", ""),
    ]
    if rng.random() < 0.1:
        lines.append(("imMaxInt", str(rng.choice([32768, 512, 0]))))
    if rng.random() < 0.05:
        lines.append(("snsApLfSy", "384,0,1"))  # contradictory: nidq with an imec field
    if rng.random() < 0.05:
        lines.append(("niMNGain", "1,2"))  # duplicated key, list valued
    return lines


def perturb(rng, lines):
    """Shuffles, drops or duplicates lines so that missing / odd fields are exercised too"""
    lines = list(lines)
    roll = rng.random()
    if roll < 0.25:
        rng.shuffle(lines)
    if 0.2 < roll < 0.45 and lines:
        for _ in range(rng.choice([1, 1, 2, 3])):
            if lines:
                lines.pop(rng.randrange(len(lines)))
    if 0.4 < roll < 0.5 and lines:
        k, _ = lines[rng.randrange(len(lines))]
        lines.append((k, rng.choice(["", "abc", "7", "1,2,3", "0.5"])))
    return lines


def to_text(rng, lines):
    eol = rng.choice(["\n", "\n", "\n", "\r\n"])
    text = eol.join(f"{k}={v}" for k, v in lines)
    return text + (eol if rng.random() < 0.8 and lines else "")


ALPHA = "abcdefghijklmnopqrstuvwxyzABCDEFGHIJKLMNOPQRSTUVWXYZ_0123456789"
VALUE_EDGE = ["", ".", ",", "..", "1.", ".5", "1.2.3", "1,,2", ",1", "1,", "007", "0", "00.0", "1,2.5", "1.5,2",
              "1.5,2.5", "-1", "+1", "1e3", "1 2", " 1", "1 ", "true", "a=b", "=", "==", "~", "0x10", "1_0", "١٢",
              "12345678901234567890", "0.1", "3.0", "16777217", "1,2,3", "0,0", "nan", "inf", "(0,1)(2 3)", "a,b"]


def random_key(rng):
    key = "".join(rng.choice(ALPHA) for _ in range(rng.randrange(1, 12)))
    roll = rng.random()
    if roll < 0.15:
        key = "~" + key
    elif roll < 0.2:
        key = key[: len(key) // 2] + "~" + key[len(key) // 2:]
    elif roll < 0.23:
        key = rng.choice(["typeThis", "imDatPrb_type", "typeEnabled", "imProbeSN", "imDatPrb_sn", "nSavedChans",
                          "snsApLfSy", "neuropixelVersion", "serial", "imMaxInt"])
    return key


def random_value(rng):
    roll = rng.random()
    if roll < 0.2:
        return rng.choice(VALUE_EDGE)
    if roll < 0.4:
        return str(rng.randrange(10 ** rng.randrange(1, 12)))
    if roll < 0.55:
        return repr(round(rng.uniform(0, 10 ** rng.randrange(0, 8)), rng.randrange(0, 8)))
    if roll < 0.75:
        return ",".join(str(rng.randrange(1000)) for _ in range(rng.randrange(2, 10)))
    if roll < 0.8:
        return rng.choice(["imec", "nidq", "0", "21", "24", "1030", "2013", "1100"])
    chars = ALPHA + " =:;/\\()[]{}.,-+~\t'\"#éµ"
    return "".join(rng.choice(chars) for _ in range(rng.randrange(0, 30)))


def grammar_text(rng):
    lines = [(random_key(rng), random_value(rng)) for _ in range(rng.randrange(0, 15))]
    text = to_text(rng, lines)
    roll = rng.random()
    if roll < 0.04:
        text += "line without the equal sign\n"
    elif roll < 0.08:
        text = text.replace("\n", "\n\n", 1)  # a blank line
    elif roll < 0.1:
        text = "=" + text
    return text


def direct_dicts(rng):
    """Dictionaries that do not come from a file: other scalar / sequence types"""
    odd_values = [
        [1.0, 2.0, 3.0], [1, 2, 3], [], [1.9, -2.9], ["3", "4"], ["3.5"], ["abc"], [None], [[1, 2], [3]], [True, False],
        [float("nan")], [float("inf")], [np.float32(2.5), np.int16(3)], (1.0, 2.0), np.array([1.0, 2.0]),
        3.0, 3.5, -0.0, 1e22, 1e-7, float("nan"), float("inf"), -float("inf"), np.float64(3.0), np.float64(2.5),
        np.float32(3.0), np.int64(7), 7, True, None, "text", "a=b", "", Path("some/file.bin"), b"bytes", 2 ** 70,
        float(2 ** 70), 30000.0, 0.1 + 0.2, {"a": 1.0},
    ]
    for _ in range(150):
        md = {random_key(rng): rng.choice(odd_values) for _ in range(rng.randrange(0, 8))}
        yield md
    for v in odd_values:
        yield {"first": 1.0, "odd": v, "last": [4.0, 5.0]}
    # derived quantities from dictionaries whose numbers are not floats
    for _ in range(150):
        n = rng.choice([384, 10, 1, 0])
        ptype = rng.choice([0, 21, 24, 1030, 2013, 1100, 21.0, np.int64(24), np.float64(1030), np.float32(0), "21", None,
                            [21.0, 24.0], (21, 1030), 1, -1, True, False])
        md = {
            "typeThis": rng.choice(["imec", "imec", "nidq", None, "IMEC", 0]),
            "imDatPrb_type": ptype,
            "nSavedChans": rng.choice([n + 1, float(n + 1), str(n + 1), np.int64(n + 1), None, "x"]),
            "snsApLfSy": rng.choice([[n, 0, 1], [0, n, 1], (n, 0, 1), [float(n), 0.0, 1.0], np.array([n, 0, 1]),
                                     [-1, -1, -1], (-1, -1, -1), [-1.0, -1.0, -1.0], "384", None, [n, 0, 1, 7]]),
            "imAiRangeMax": rng.choice([0.6, 1, np.float32(0.6), None]),
            "niAiRangeMax": rng.choice([5.0, 5, None]),
            "imMaxInt": rng.choice([512, 512.0, "512", 8192.0, np.int16(512), None, 512.7]),
            "imSampRate": rng.choice([30000.0, 30000, "30000", None]),
            "niSampRate": rng.choice([30003.0, None]),
            "imroTbl": imro_table(rng, rng.choice(["3A", "3B2", "NP2.1", "NP2.4", "NPultra"]), n),
            "snsMnMaXaDw": rng.choice([[0.0, 0.0, 8.0, 1.0], [1, 2, 3, 1], (0, 0, 3, 1), np.array([2, 0, 1, 1]), None]),
            "niMNGain": rng.choice([200.0, 200, np.float32(200), [1.0, 2.0], None]),
            "niMAGain": rng.choice([1.0, 2, None]),
        }
        for k in rng.sample(sorted(md), rng.randrange(0, 7)):
            del md[k]
        if rng.random() < 0.3:
            md["imDatPrb_port"] = 1
        if rng.random() < 0.3:
            md["imDatPrb_slot"] = 2
        if rng.random() < 0.1:
            md["typeEnabled"] = "imec"
        yield Bunch(md) if rng.random() < 0.5 else md


def main():
    rng = random.Random(SEED)
    np.random.seed(SEED)
    tmp = Path(tempfile.mkdtemp(prefix="c09_demo_"))
    try:
        # 1. meta data files of every probe type / stream / gain table / saved channel count
        for i in range(700):
            lines = imec_lines(rng) if rng.random() < 0.75 else nidq_lines(rng)
            if i % 3 == 0:
                lines = perturb(rng, lines)
            check_text(to_text(rng, lines), tmp, rng)
        # 2. arbitrary files over the SpikeGLX grammar and malformed files
        for text in ["", "\n", "a=1", "a=1\n", "=\n", "~=~\n", "a\n", "a=1\n\nb=2\n", "a=1\rb=2\r", "a=b=c\n", "a==\n",
                     "typeEnabled=\n", "imDatPrb_type=0\n", "imProbeSN=12.5\nimDatPrb_sn=3\n", "imProbeSN=abc\n",
                     "imProbeSN=0\nimDatPrb_sn=17\n", "imDatPrb_sn=1,2\n", "typeThis=imec\n", "typeThis=nidq\n"]:
            check_text(text, tmp, rng)
        for value in VALUE_EDGE:
            check_text(f"key={value}\n~other={value}\n", tmp, rng)
        for _ in range(500):
            check_text(grammar_text(rng), tmp, rng)
        # 3. the meta data files shipped with the test fixtures, and perturbed versions
        fixtures = sorted((HERE / "src" / "tests" / "fixtures").rglob("*.meta"))
        for f in fixtures:
            text = f.read_text()
            check_text(text, tmp, rng, context=str(f))
            for _ in range(5):
                lines = [tuple(ln.split("=", maxsplit=1)) for ln in text.splitlines() if "=" in ln]
                check_text(to_text(rng, perturb(rng, lines)), tmp, rng, context=f"perturbed {f}")
        # 4. dictionaries built in memory
        for md in direct_dicts(rng):
            counts["inputs"] += 1
            check_derived(md, md, md)
            check_write(md, md, tmp, md, as_path=rng.random() < 0.5)
        # 5. unusable destinations / sources
        for target in [tmp / "no_such_dir" / "x.meta", tmp]:
            check("write_meta_data[bad target]", outcome(write_meta_data, {"a": 1.0}, target),
                  outcome(new.write_meta_data, {"a": 1.0}, target), str(target))
            check("read_meta_data[bad source]", outcome(read_meta_data, target),
                  outcome(new.read_meta_data, target), str(target))
        check("write_meta_data[not a dict]", outcome(write_meta_data, [("a", 1.0)], tmp / "y.meta"),
              outcome(new.write_meta_data, [("a", 1.0)], tmp / "y.meta"), "list of pairs")
    finally:
        shutil.rmtree(tmp, ignore_errors=True)
    print(f"{counts['inputs']} inputs ({len(fixtures)} fixture files), {counts['comparisons']} comparisons, "
          f"{counts['raised']} of them on a raised exception")
    if failures:
        print(f"NOT EQUIVALENT: {len(failures)} differences, first ones:")
        for msg in failures[:10]:
            print("  " + msg)
        return 1
    print("OK: reference and refactored implementations are identical on every input")
    return 0


if __name__ == "__main__":
    sys.exit(main())
