import sys, os; sys.path.insert(0, os.path.join(os.path.dirname(os.path.abspath(__file__)), "src"))
"""
Differential equivalence check for the performance clean-up of the SpikeGLX meta data functions (property C09).

The functions below the "ORIGINAL IMPLEMENTATIONS" banner are verbatim copies of the functions of src/spikeglx.py
as they were before the change. They keep their original names, so that inside this module the reference
`_conversion_sample2v_from_meta` calls the reference `_get_sync_trace_indices_from_meta`; the helpers that
the change does not touch are imported from the module. The (possibly refactored) functions under test are
always reached through the `spikeglx.` prefix.

Exit code 0 if every result is identical (types, dtypes, shapes, bytes, exception types and messages, warnings,
files written), 1 with a message otherwise.
"""
import random
import re
import shutil
import tempfile
import time
import warnings
from pathlib import Path

import numpy as np

import spikeglx
from iblutil.util import Bunch
from spikeglx import (  # noqa  helpers left untouched by the change
    _get_neuropixel_version_from_meta,
    _get_serial_number_from_meta,
    _get_max_int_from_meta,
    _get_nchannels_from_meta,
    _get_type_from_meta,
    _get_fs_from_meta,
)

HERE = Path(os.path.dirname(os.path.abspath(__file__)))


# ----------------------------------------------------------------------------------------------------------
# ORIGINAL IMPLEMENTATIONS (verbatim copies, reference)
# ----------------------------------------------------------------------------------------------------------
def read_meta_data(md_file):
    """
    Reads the spkike glx metadata file and parse in a dictionary
    Agnostic: does not make any assumption on the keys/content, it just parses key=values

    :param md_file: last sample to be read, python slice-wise
    :return: Data array, sync trace, meta-data
    """
    with open(md_file) as fid:
        md = fid.read()
    d = {}
    for a in md.splitlines():
        k, v = a.split("=", maxsplit=1)
        # if all numbers, try to interpret the string
        if v and re.fullmatch("[0-9,.]*", v) and v.count(".") < 2:
            v = [float(val) for val in v.split(",")]
            # scalars should not be nested
            if len(v) == 1:
                v = v[0]
        # tildes in keynames removed
        d[k.replace("~", "")] = v
    d["neuropixelVersion"] = _get_neuropixel_version_from_meta(d)
    d["serial"] = _get_serial_number_from_meta(d)
    return Bunch(d)


def write_meta_data(md, md_file):
    """
    Parses a dict into a spikeglx meta data file
    :param meta: meta data dict
    :param md_file: file to save meta data to
    :return:
    """
    with open(md_file, "w") as fid:
        for key, val in md.items():
            if isinstance(val, list):
                val = ",".join([str(int(v)) for v in val])
            if isinstance(val, float):
                if val.is_integer():
                    val = int(val)
            fid.write(f"{key}={val}\n")


def _get_sync_trace_indices_from_meta(md):
    """
    Returns a list containing indices of the sync traces in the original array
    """
    typ = _get_type_from_meta(md)
    ntr = int(_get_nchannels_from_meta(md))
    if typ == "nidq":
        nsync = int(md.get("snsMnMaXaDw")[-1])
    elif typ in ["lf", "ap"]:
        nsync = int(md.get("snsApLfSy")[2])
    return list(range(ntr - nsync, ntr))


def _conversion_sample2v_from_meta(meta_data):
    """
    Interpret the meta data to extract an array of conversion factors for each channel
    so the output data is in Volts
    Conversion factor is: int2volt / channelGain
    For Lf/Ap interpret the gain string from metadata
    For Nidq, repmat the gains from the trace counts in `snsMnMaXaDw`

    :param meta_data: dictionary output from  spikeglx.read_meta_data
    :return: numpy array with one gain value per channel
    """

    def int2volts(md):
        """:return: Conversion scalar to Volts. Needs to be combined with channel gains"""
        maxint = _get_max_int_from_meta(md)
        if md.get("typeThis", None) == "imec":
            return md.get("imAiRangeMax") / maxint
        else:
            return md.get("niAiRangeMax") / maxint

    int2volt = int2volts(meta_data)
    version = _get_neuropixel_version_from_meta(meta_data)
    # interprets the gain value from the metadata header:
    if "imroTbl" in meta_data.keys():  # binary from the probes: ap or lf
        sy_gain = np.ones(int(meta_data["snsApLfSy"][-1]), dtype=np.float32)
        # imroTbl has 384 entries regardless of no of channels saved, so need to index by n_ch
        n_chn = _get_nchannels_from_meta(meta_data) - len(
            _get_sync_trace_indices_from_meta(meta_data)
        )
        if "NP2" in version:
            # NP 2.0; APGain = 80 for all AP
            # return 0 for LFgain (no LF channels)
            out = {
                "lf": np.hstack(
                    (int2volt / 80 * np.ones(n_chn).astype(np.float32), sy_gain)
                ),
                "ap": np.hstack(
                    (int2volt / 80 * np.ones(n_chn).astype(np.float32), sy_gain)
                ),
            }
        else:
            # the sync traces are not included in the gain values, so are included for
            # broadcast ops
            gain = re.findall(
                r"([0-9]* [0-9]* [0-9]* [0-9]* [0-9]*)", meta_data["imroTbl"]
            )[:n_chn]
            out = {
                "lf": np.hstack(
                    (
                        np.array([1 / np.float32(g.split(" ")[-1]) for g in gain])
                        * int2volt,
                        sy_gain,
                    )
                ),
                "ap": np.hstack(
                    (
                        np.array([1 / np.float32(g.split(" ")[-2]) for g in gain])
                        * int2volt,
                        sy_gain,
                    )
                ),
            }

    # nidaq gain can be read in the same way regardless of NP1.0 or NP2.0
    elif "niMNGain" in meta_data.keys():  # binary from nidq
        gain = np.r_[
            np.ones(
                int(
                    meta_data["snsMnMaXaDw"][0],
                )
            )
            / meta_data["niMNGain"]
            * int2volt,
            np.ones(
                int(
                    meta_data["snsMnMaXaDw"][1],
                )
            )
            / meta_data["niMAGain"]
            * int2volt,
            np.ones(
                int(
                    meta_data["snsMnMaXaDw"][2],
                )
            )
            * int2volt,  # no gain for analog sync
            np.ones(
                int(
                    np.sum(meta_data["snsMnMaXaDw"][3]),
                )),
        ]  # no unit for digital sync
        out = {"nidq": gain}

    return out


# ----------------------------------------------------------------------------------------------------------
# comparison machinery
# ----------------------------------------------------------------------------------------------------------
N_CHECKS = {}
FAILURES = []


def fail(what, detail):
    FAILURES.append(f"{what}: {detail}")
    if len(FAILURES) > 20:
        report()


def report():
    for f in FAILURES:
        print("MISMATCH", f)
    print(f"demo.py: {len(FAILURES)} mismatch(es) between the reference and the refactored functions")
    sys.exit(1)


def run(fun, *args):
    """:return: ('ok', result, warnings) or ('exc', (type, message), warnings)"""
    with warnings.catch_warnings(record=True) as w:
        warnings.simplefilter("always")
        try:
            out = ("ok", fun(*args))
        except Exception as e:  # noqa
            out = ("exc", (type(e), str(e)))
    return out + ([(x.category, str(x.message)) for x in w],)


def same(a, b):
    """strict recursive equality: types, key order, dtypes, shapes, flags and bytes (so nan == nan and 0. != -0.)"""
    if type(a) is not type(b):
        return False
    if isinstance(a, dict):
        return list(a.keys()) == list(b.keys()) and all(same(a[k], b[k]) for k in a)
    if isinstance(a, (list, tuple)):
        return len(a) == len(b) and all(same(x, y) for x, y in zip(a, b))
    if isinstance(a, np.ndarray):
        return (
            a.dtype == b.dtype and a.shape == b.shape and np.array_equal(a, b, equal_nan=a.dtype.kind == "f")
            and a.tobytes() == b.tobytes() and a.strides == b.strides
            and a.flags.owndata == b.flags.owndata and a.flags.writeable == b.flags.writeable
            and a.flags.c_contiguous == b.flags.c_contiguous
        )
    if isinstance(a, (float, np.floating)):
        return np.array(a).tobytes() == np.array(b).tobytes()
    return a == b


def aliasing(out):
    """which of the output arrays share memory (the caller may modify one of them in place)"""
    if not isinstance(out, dict):
        return None
    keys = list(out.keys())
    return [(k, l) for i, k in enumerate(keys) for l in keys[i + 1:]
            if isinstance(out[k], np.ndarray) and isinstance(out[l], np.ndarray) and np.shares_memory(out[k], out[l])]


def compare(label, ref_fun, new_fun, *args, describe=None):
    r, n = run(ref_fun, *args), run(new_fun, *args)
    N_CHECKS.setdefault(label, {"ok": 0, "exc": 0, "warned": 0})[r[0]] += 1
    N_CHECKS[label]["warned"] += bool(r[2])
    describe = describe if describe is not None else repr(args)[:300]
    if r[0] != n[0]:
        fail(label, f"reference -> {r[:2]!r:.300}, refactored -> {n[:2]!r:.300} for {describe}")
    elif r[0] == "exc" and r[1] != n[1]:
        fail(label, f"exceptions differ {r[1]} / {n[1]} for {describe}")
    elif r[0] == "ok" and not same(r[1], n[1]):
        fail(label, f"results differ {r[1]!r:.300} / {n[1]!r:.300} for {describe}")
    elif r[0] == "ok" and aliasing(r[1]) != aliasing(n[1]):
        fail(label, f"memory sharing between outputs differs for {describe}")
    if r[2] != n[2]:
        fail(label, f"warnings differ {r[2]} / {n[2]} for {describe}")
    return r


# ----------------------------------------------------------------------------------------------------------
# input generators
# ----------------------------------------------------------------------------------------------------------
GAINS = [50, 125, 250, 500, 1000, 1500, 2000, 3000]
PROBES = {  # probe type: (extra header lines, imro header, number of imro fields, NP2, possible imMaxInt lines)
    "3A": (["typeEnabled=imec", "imProbeSN=641251510"], "(641251510,3,384)", 5, False, ["", "imMaxInt=512"]),
    "3B1": (["imDatPrb_type=0", "imDatPrb_sn=18005116811", "typeImEnabled=1"], "(0,384)", 6, False,
            ["", "imMaxInt=512"]),
    "3B2": (["imDatPrb_type=0", "imDatPrb_port=2", "imDatPrb_slot=3", "imDatPrb_sn=18005116811"], "(0,384)", 6,
            False, ["", "imMaxInt=512"]),
    "NP2.1": (["imDatPrb_type=21", "imDatPrb_port=1", "imDatPrb_slot=2", "imDatPrb_sn=19011110513"],
              "(21,384)", 4, True, ["imMaxInt=8192", "imMaxInt=2048", ""]),
    "NP2.1b": (["imDatPrb_type=1030", "imDatPrb_sn=19011110513"], "(1030,384)", 4, True, ["imMaxInt=8192"]),
    "NP2.4": (["imDatPrb_type=24", "imDatPrb_port=1", "imDatPrb_slot=2", "imDatPrb_sn=19011110513"],
              "(24,384)", 5, True, ["imMaxInt=8192", "imMaxInt=4096", ""]),
    "NP2.4b": (["imDatPrb_type=2013", "imDatPrb_sn=19011110513"], "(2013,384)", 5, True, ["imMaxInt=8192"]),
    "NPultra": (["imDatPrb_type=1100", "imDatPrb_port=4", "imDatPrb_slot=3", "imDatPrb_sn=20088317081"],
                "(1100,384)", 6, False, ["imMaxInt=512", ""]),
    "unknown": (["imDatPrb_type=77"], "(77,384)", 6, False, ["imMaxInt=512", ""]),
}


def imec_meta_text(rng, probe, band, n_saved=None, nsync=1, gain_mode="random", n_imro=384, tilde=True,
                   maxint=None, rangemax="0.6", drop=()):
    extra, imro_header, nfields, np2, maxints = PROBES[probe]
    n_saved = 384 if n_saved is None else n_saved
    if gain_mode == "constant":
        pairs = [(rng.choice(GAINS), rng.choice(GAINS))] * n_imro
    elif gain_mode == "all_pairs":  # every (ap, lf) gain pair of the IMRO table
        allp = [(a, b) for a in GAINS for b in GAINS]
        pairs = [allp[i % len(allp)] for i in range(n_imro)]
    elif gain_mode == "zero":  # not admissible, but the behaviour (inf and warnings) has to stay the same
        pairs = [(rng.choice(GAINS + [0]), rng.choice(GAINS + [0])) for _ in range(n_imro)]
    elif gain_mode == "empty":  # empty fields are matched by the regular expression: ValueError
        pairs = [(rng.choice(GAINS + [""]), rng.choice(GAINS + [""])) for _ in range(n_imro)]
    elif gain_mode == "huge":
        pairs = [(rng.choice(["16777217", "9007199254740993", "1" + "0" * 60, "007", "33554435"]),
                  rng.choice(["123456789", "4" * 50, "0500"])) for _ in range(n_imro)]
    else:
        pairs = [(rng.choice(GAINS), rng.choice(GAINS)) for _ in range(n_imro)]
    entries = []
    for i, (apg, lfg) in enumerate(pairs):
        if np2:
            fields = [i, rng.randrange(4), rng.randrange(4), i % 96, rng.randrange(4)][:nfields]
        else:
            fields = [i, rng.randrange(3), rng.randrange(2), apg, lfg, rng.randrange(2)][:nfields]
        entries.append("(" + " ".join(map(str, fields)) + ")")
    aplf = f"{n_saved},0,{nsync}" if band == "ap" else f"0,{n_saved},{nsync}"
    if band == "both":
        aplf = f"{n_saved},{n_saved},{nsync}"
    elif band == "none":
        aplf = f"0,0,{nsync}"
    lines = [
        "acqApLfSy=384,384,1",
        "appVersion=20190327",
        "fileName=D:/data/run=1/test_g0_t0.imec0.%s.bin" % band,
        "fileSizeBytes=%i" % (2 * (n_saved + nsync) * rng.randrange(1, 100000)),
        "fileTimeSecs=%r" % rng.uniform(1, 5000),
        "imAiRangeMax=" + rangemax,
        "imAiRangeMin=-" + rangemax,
        rng.choice(maxints) if maxint is None else maxint,
        "imSampRate=" + rng.choice(["30000", "2500", "29999.757983", "2500.0325532900833"]),
        "imRoFile=",
        "nSavedChans=%i" % (n_saved + nsync),
        "snsApLfSy=" + aplf,
        "snsSaveChanSubset=0:%i" % (n_saved + nsync - 1),
        "typeThis=imec",
        "userNotes=",
    ] + extra + [
        ("~" if tilde else "") + "imroTbl=" + imro_header + "".join(entries),
        ("~" if tilde else "") + "snsShankMap=(1,2,480)" + "".join(f"(0:{i % 2}:{i // 2}:1)" for i in range(n_saved)),
    ]
    lines = [li for li in lines if li and li.split("=")[0].replace("~", "") not in drop]
    return "\n".join(lines) + "\n"


def nidq_meta_text(rng, counts=None, mngain="200", magain="1", rangemax="5", drop=(), n_saved=None, maxint=""):
    counts = counts if counts is not None else [rng.randrange(0, 5), rng.randrange(0, 5), rng.randrange(0, 9),
                                                rng.randrange(0, 3)]
    n_saved = sum(counts) if n_saved is None else n_saved
    lines = [
        "acqMnMaXaDw=" + ",".join(map(str, counts)),
        "appVersion=20190327",
        "fileTimeSecs=%r" % rng.uniform(1, 5000),
        "nSavedChans=%i" % n_saved,
        "niAiRangeMax=" + rangemax,
        "niAiRangeMin=-" + rangemax,
        "niClockSource=PXI1Slot2_1ch_Int : 30003.000300",
        "niMAGain=" + magain,
        "niMNGain=" + mngain,
        "niSampRate=30003.0003",
        maxint,
        "snsMnMaXaDw=" + ",".join(map(str, counts)),
        "snsSaveChanSubset=all",
        "syncNiThresh=1.1",
        "typeImEnabled=2",
        "typeNiEnabled=1",
        "typeThis=nidq",
        "userNotes=",
        "~snsChanMap=(0,0,1,1,1)(XA0;0:0)(XD0;1:1)",
        "~snsShankMap=(1,2,0)",
    ]
    lines = [li for li in lines if li and li.split("=")[0].replace("~", "") not in drop]
    return "\n".join(lines) + "\n"


VALUE_POOL = [
    "", "0", "1", "384", "30000", "007", "1.0", "2.50", ".5", "5.", ".", ",", "..", "1.2.3", "1,2,3", "384,0,1",
    "0,0,1,1", "1,,2", ",1", "1,", "1.5,2", "1.5,2.5", "1,2.5,3", "-5", "-0.6", "1e5", "+3", " 3", "3 ", "0x10",
    "true", "false", "Immediate", "D:/data/a=b/c.bin", "a=b=c", "=", "==1", "2019-08-15T17:37:20", "0:383,768",
    "(0,384)(0 0 0 500 250 1)", "(1,2,480)(0:0:0:1)(0:1:0:1)", "12345678901234567890", "9" * 400, "1" + "0" * 310,
    "0.1234567890123456789", "١٢٣", "１２３", "1_000", "nan", "inf", "1\t2", "PXI1Slot2_1ch_Int : 30003.000300",
    "3,4,5.5", "00,01", "1.", "0.0", "000.000", "4294967296", "NP2_QBSC_00\t",
]
KEY_POOL = [
    "typeThis", "typeEnabled", "imDatPrb_type", "imDatPrb_port", "imDatPrb_slot", "imDatPrb_sn", "imProbeSN",
    "nSavedChans", "snsApLfSy", "imSampRate", "userNotes", "~imroTbl", "~snsChanMap", "~snsShankMap", "a~b~", "~",
    "", "key with space", "fileName", "x", "neuropixelVersion", "serial", "NP2.4_shank",
]


def random_meta_text(rng):
    """key=value lines over the SpikeGLX grammar, plus a proportion of malformed files"""
    lines = []
    for _ in range(rng.randrange(0, 25)):
        k = rng.choice(KEY_POOL) if rng.random() < .7 else "k%i" % rng.randrange(1000)
        r = rng.random()
        if r < .5:
            v = rng.choice(VALUE_POOL)
        elif r < .65:
            v = str(rng.randrange(0, 10 ** rng.randrange(1, 12)))
        elif r < .8:
            v = ",".join(str(rng.randrange(0, 1000)) for _ in range(rng.randrange(1, 6)))
        elif r < .9:
            v = repr(rng.uniform(0, 1000))
        else:
            v = "".join(rng.choice("0123456789,.") for _ in range(rng.randrange(1, 8)))
        lines.append(f"{k}={v}")
    # the probe type fields decide neuropixelVersion / serial: make them frequent and sometimes coherent
    if rng.random() < .5:
        lines.append("imDatPrb_type=" + rng.choice(["0", "21", "24", "1030", "2013", "1100", "3", "0,1", "a"]))
    if rng.random() < .3:
        lines.append("imDatPrb_sn=" + rng.choice(["18005116811", "0", "", "abc", "1,2", "1.5"]))
    r = rng.random()
    if r < .04:
        lines.insert(rng.randrange(len(lines) + 1), "")  # empty line: ValueError
    elif r < .08:
        lines.insert(rng.randrange(len(lines) + 1), "line without equal sign")
    elif r < .12:
        lines.insert(rng.randrange(len(lines) + 1), "a=1" + rng.choice(["\x0b", "\x0c", "\x1c", "\x85", "\u2028"]) + "2")
    eol = rng.choice(["\n", "\n", "\r\n", "\r"])
    return eol.join(lines) + (eol if rng.random() < .8 else "")


def random_dict(rng):
    """dictionaries for write_meta_data, including values that make it fail halfway through the file"""
    d = {}
    for i in range(rng.randrange(0, 12)):
        r = rng.random()
        if r < .25:
            v = [float(rng.randrange(0, 1000)) for _ in range(rng.randrange(0, 6))]
        elif r < .35:
            v = [rng.choice([1, 2.7, -3.2, "4", True, np.float32(5.5), np.int16(6), 1e20])
                 for _ in range(rng.randrange(0, 5))]
        elif r < .5:
            v = float(rng.randrange(0, 10 ** rng.randrange(1, 18)))
        elif r < .6:
            v = rng.uniform(-1000, 1000)
        elif r < .9:
            v = rng.choice([0.0, -0.0, 1e22, 1e16, 2.5e-7, float("nan"), float("inf"), -float("inf"), np.float64(3.0),
                            np.float64(3.5), np.float32(4.0), np.float32(4.25), 7, True, None, "text", "a=b", "",
                            (1.0, 2.0), np.arange(3), {"a": 1.0}, Path("x") / "y", "NP2.4", b"bytes"])
        elif r < .95:
            v = rng.choice([[1.0, "x"], [1.0, [2.0]], [None], [float("nan")], [float("inf")], ["1.5"]])  # int fails
        else:
            v = [1e30, 2.0 ** 70, -5.9]
        d[rng.choice(KEY_POOL) if rng.random() < .3 else f"key{i}"] = v
    return d


# ----------------------------------------------------------------------------------------------------------
# checks
# ----------------------------------------------------------------------------------------------------------
def read_file(f):
    with open(f, "rb") as fid:
        return fid.read()


def check_write(md, tmp, describe):
    """both implementations write the same bytes, or fail in the same way leaving the same partial file"""
    fr, fn = tmp / "ref.meta", tmp / "new.meta"
    for f in (fr, fn):
        if f.exists():
            f.unlink()
    compare("write_meta_data", lambda: write_meta_data(md, fr), lambda: spikeglx.write_meta_data(md, fn),
            describe=describe)
    if fr.exists() != fn.exists() or (fr.exists() and read_file(fr) != read_file(fn)):
        fail("write_meta_data", f"files written differ for {describe}")
    return fr


def check_meta_text(text, tmp, describe, newline=None):
    """read -> (write -> read) and every derived quantity, reference against refactored"""
    f = tmp / "in.meta"
    with open(f, "w", newline=newline, encoding="utf-8") as fid:
        fid.write(text)
    r = compare("read_meta_data", read_meta_data, spikeglx.read_meta_data, f, describe=describe)
    if r[0] != "ok":
        return None
    md = r[1]
    compare("_get_sync_trace_indices_from_meta", _get_sync_trace_indices_from_meta,
            spikeglx._get_sync_trace_indices_from_meta, md, describe=describe)
    compare("_conversion_sample2v_from_meta", _conversion_sample2v_from_meta,
            spikeglx._conversion_sample2v_from_meta, md, describe=describe)
    # the meta data must not be modified by the derivations
    if not same(md, run(read_meta_data, f)[1]):
        fail("purity", f"meta data dictionary modified in place for {describe}")
    fr = check_write(md, tmp, describe)
    if fr.exists():
        compare("read_meta_data", read_meta_data, spikeglx.read_meta_data, fr, describe="round trip of " + describe)
    return md


def main():
    t0 = time.time()
    rng = random.Random(20090909)
    tmp = Path(tempfile.mkdtemp(prefix="demo_c09_", dir=HERE))
    try:
        # 1. the meta files of the test fixtures, when they are there
        for f in sorted((HERE / "src" / "tests" / "fixtures").rglob("*.meta")):
            with open(f, encoding="utf-8") as fid:
                check_meta_text(fid.read(), tmp, f"fixture {f.name}")

        # 2. every probe type x band x gain table x saved channel count x sync count
        for probe in PROBES:
            for band in ["ap", "lf", "both", "none"]:
                for gain_mode in ["constant", "random", "all_pairs"]:
                    for n_saved, nsync in [(384, 1), (384, 0), (376, 1), (96, 1), (1, 1), (0, 1), (0, 0), (200, 2)]:
                        if (band in ("both", "none") or probe == "unknown") and (n_saved, nsync) not in [(384, 1), (0, 0)]:
                            continue
                        text = imec_meta_text(rng, probe, band, n_saved, nsync, gain_mode, tilde=rng.random() < .7)
                        check_meta_text(text, tmp, f"imec {probe} {band} {gain_mode} n={n_saved} sy={nsync}")
        # 3. inadmissible or unusual imec files: same exceptions, same inf / nan, same warnings
        for probe in PROBES:
            for band in ["ap", "lf"]:
                for kw in [
                    dict(gain_mode="zero"), dict(gain_mode="empty"), dict(gain_mode="huge"),
                    dict(n_imro=10), dict(n_imro=0), dict(n_imro=500), dict(n_saved=400), dict(nsync=3, n_saved=2),
                    dict(rangemax="0"), dict(rangemax="5"), dict(rangemax="1.2.3"), dict(rangemax="1,2"),
                    dict(maxint="imMaxInt=0"), dict(maxint="imMaxInt=abc"), dict(maxint="imMaxInt=1,2"),
                    dict(maxint="imMaxInt=511.7"), dict(drop=("imAiRangeMax",)), dict(drop=("nSavedChans",)),
                    dict(drop=("snsApLfSy",)), dict(drop=("typeThis",)), dict(drop=("imroTbl",)),
                    dict(drop=("nSavedChans", "snsApLfSy")), dict(drop=("imDatPrb_type", "typeEnabled")),
                    dict(drop=("imAiRangeMax", "nSavedChans", "imroTbl")),
                ]:
                    text = imec_meta_text(rng, probe, band, **kw)
                    check_meta_text(text, tmp, f"imec {probe} {band} {kw}")
                for sy in ["1", "384", "text", "0,0,1", "1,2", "384,0", "384,0,1,1", "0,384,1.5", ""]:
                    text = imec_meta_text(rng, probe, band).replace("snsApLfSy=", f"snsApLfSy={sy}\nxx=")
                    check_meta_text(text, tmp, f"imec {probe} {band} snsApLfSy={sy}")
        # 4. nidq files
        for i in range(120):
            kw = {}
            if i % 3 == 1:
                kw = rng.choice([
                    dict(mngain="0"), dict(magain="0"), dict(mngain="1,2"), dict(mngain="text"), dict(rangemax="0"),
                    dict(drop=("niMAGain",)), dict(drop=("niMNGain",)), dict(drop=("snsMnMaXaDw",)),
                    dict(drop=("niAiRangeMax",)), dict(drop=("nSavedChans",)), dict(drop=("typeThis",)),
                    dict(counts=[1, 2, 3]), dict(counts=[4]), dict(counts=[0, 0, 0, 0]), dict(counts=[0, 0, 1, 1]),
                    dict(n_saved=1), dict(maxint="imMaxInt=512"), dict(maxint="imMaxInt=0"),
                    dict(mngain="0.5", magain="2.5"), dict(counts=[2, 2, 2, 2, 2]),
                ])
            check_meta_text(nidq_meta_text(rng, **kw), tmp, f"nidq {i} {kw}")
        # 5. random files over the grammar, including malformed ones and the various line endings
        for i in range(700):
            text = random_meta_text(rng)
            check_meta_text(text, tmp, f"random text {i}: {text!r:.200}", newline="")
        # 6. hand made dictionaries (not Bunch, integer / numpy values) given to the derivations directly
        for i in range(150):
            probe, band = rng.choice(list(PROBES)), rng.choice(["ap", "lf"])
            f = tmp / "in.meta"
            f.write_text(imec_meta_text(rng, probe, band, rng.choice([384, 96, 12]), rng.choice([0, 1]))
                         if i % 3 else nidq_meta_text(rng))
            md = dict(read_meta_data(f))
            for k in list(md):
                r = rng.random()
                if isinstance(md[k], float) and r < .3:
                    md[k] = rng.choice([int, np.float64, np.float32, np.int64])(md[k])
                elif isinstance(md[k], list) and r < .3:
                    md[k] = rng.choice([tuple, np.array, lambda x: [int(y) for y in x]])(md[k])
                elif r < .05:
                    md[k] = rng.choice([None, "", 0.0, [], "NP2"])
                elif r < .08:
                    del md[k]
            compare("_get_sync_trace_indices_from_meta", _get_sync_trace_indices_from_meta,
                    spikeglx._get_sync_trace_indices_from_meta, md)
            compare("_conversion_sample2v_from_meta", _conversion_sample2v_from_meta,
                    spikeglx._conversion_sample2v_from_meta, md)
        # 7. write_meta_data on arbitrary dictionaries, including failures halfway through the file
        for i in range(500):
            md = random_dict(rng)
            check_write(Bunch(md) if i % 2 else md, tmp, f"random dict {i}: {md!r:.200}")
        # 8. a large file, to show the timing (information only, does not influence the exit code)
        text = imec_meta_text(rng, "3B2", "ap") + "".join(f"extra{i}={i},{i + 1}\nscalar{i}={i}.5\n" for i in range(300))
        md = check_meta_text(text, tmp, "timing file")
        f = tmp / "in.meta"
        timings = []
        for name, ref, new, arg in [("read_meta_data", read_meta_data, spikeglx.read_meta_data, f),
                                    ("_conversion_sample2v_from_meta", _conversion_sample2v_from_meta,
                                     spikeglx._conversion_sample2v_from_meta, md)]:
            tt = [np.inf, np.inf]
            for _ in range(5):  # interleaved, best of 5
                for j, fun in enumerate((ref, new)):
                    t = time.perf_counter()
                    for _ in range(40):
                        fun(arg)
                    tt[j] = min(tt[j], (time.perf_counter() - t) / 40 * 1e6)
            timings.append(f"{name}: reference {tt[0]:.0f} us, module {tt[1]:.0f} us")
    finally:
        shutil.rmtree(tmp, ignore_errors=True)
    if FAILURES:
        report()
    for k, v in N_CHECKS.items():
        print(f"checks: {k}: {v['ok']} returned, {v['exc']} raised, {v['warned']} with warnings, all identical")
    print("timing: " + "; ".join(timings))
    print(f"demo.py: reference and module implementations are identical on all inputs ({time.time() - t0:.1f} s)")
    sys.exit(0)


if __name__ == "__main__":
    main()
