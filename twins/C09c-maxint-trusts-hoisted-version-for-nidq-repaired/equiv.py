import sys, os; sys.path.insert(0, os.path.join(os.path.dirname(os.path.abspath(__file__)), "src"))
"""
C09 - volts-per-bit derived from the meta-data must equal range / max int / channel gain.

The input is the meta-data of a NI-DAQ (nidq) stream written by a Phase 3A era SpikeGLX: those
files carry the `typeEnabled` key (list of the enabled streams) next to `typeThis=nidq`.
The NI-DAQ is a 16 bit device (max int 32768) whatever probe generation is recorded next to it.
The oracle is the plain definition, computed with NumPy from the fields of the file.
"""
import tempfile
from pathlib import Path

import numpy as np

import spikeglx

MN, MA, XA, DW = 2, 3, 1, 1          # multiplexed neural, multiplexed aux, analog, digital words
MN_GAIN, MA_GAIN = 200, 25
RANGE_MAX = 5
NI_MAX_INT = 32768                     # int16 acquisition card

META = f"""acqMnMaXaDw={MN},{MA},{XA},{DW}
appVersion=20170903
fileName=D:/data/run_g0/run_g0_t0.nidq.bin
fileSizeBytes={(MN + MA + XA + DW) * 2 * 25000}
fileTimeSecs=1.0
nSavedChans={MN + MA + XA + DW}
niAiRangeMax={RANGE_MAX}
niAiRangeMin=-{RANGE_MAX}
niMAGain={MA_GAIN}
niMNGain={MN_GAIN}
niMuxFactor=1
niSampRate=25000
snsMnMaXaDw={MN},{MA},{XA},{DW}
snsSaveChanSubset=all
typeEnabled=imec,nidq
typeThis=nidq
userNotes=gain=1 on aux
"""


def main():
    errors = []
    with tempfile.TemporaryDirectory() as tdir:
        meta_file = Path(tdir) / "run_g0_t0.nidq.meta"
        meta_file.write_text(META)
        md = spikeglx.read_meta_data(meta_file)
        # the write / read round trip holds
        meta_copy = Path(tdir) / "copy.nidq.meta"
        spikeglx.write_meta_data(md, meta_copy)
        if spikeglx.read_meta_data(meta_copy) != md:
            errors.append("round trip of the meta data yields a different dictionary")

    # independent reading of the same fields
    if spikeglx._get_type_from_meta(md) != "nidq":
        errors.append(f"stream type is {spikeglx._get_type_from_meta(md)}, expected nidq")
    i2v = RANGE_MAX / NI_MAX_INT
    expected = np.r_[
        np.full(MN, i2v / MN_GAIN), np.full(MA, i2v / MA_GAIN), np.full(XA, i2v), np.ones(DW)
    ]
    s2v = spikeglx._conversion_sample2v_from_meta(md)["nidq"]
    if s2v.shape != expected.shape:
        errors.append(f"conversion vector has shape {s2v.shape}, expected {expected.shape}")
    elif not np.allclose(s2v, expected, rtol=1e-6, atol=0):
        errors.append(
            "volts per bit of the nidq stream differ from range / max int / gain:\n"
            f"    got      {s2v}\n    expected {expected}\n    ratio    {s2v / expected}"
        )
    # the full scale of an analog channel must be the range of the card
    maxint = spikeglx._get_max_int_from_meta(md)
    if maxint != NI_MAX_INT:
        errors.append(f"max int is {maxint}, expected {NI_MAX_INT}")
    full_scale = s2v[MN + MA] * maxint
    if not np.isclose(full_scale, RANGE_MAX):
        errors.append(f"full scale of the analog sync channel is {full_scale} V, expected {RANGE_MAX} V")

    # control: the same stream without the 3A era key
    md_ctrl = dict(md)
    md_ctrl.pop("typeEnabled")
    s2v_ctrl = spikeglx._conversion_sample2v_from_meta(md_ctrl)["nidq"]
    if not np.allclose(s2v_ctrl, expected, rtol=1e-6, atol=0):
        errors.append(f"control (no typeEnabled key) also differs: {s2v_ctrl}")

    if errors:
        print("C09 VIOLATED")
        for e in errors:
            print(" -", e)
        return 1
    print("C09 holds on this input: nidq volts per bit == range / max int / gain")
    return 0


if __name__ == "__main__":
    sys.exit(main())
