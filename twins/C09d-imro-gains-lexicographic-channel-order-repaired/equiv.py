import sys, os; sys.path.insert(0, os.path.join(os.path.dirname(os.path.abspath(__file__)), "src"))
"""
C09 - metadata parsing, derived acquisition parameters and writing round trip.

Builds SpikeGLX meta files for Neuropixel 1 probes (3A, 3B2; AP and LF streams; full and partial channel saves)
whose imro table holds a different (AP gain, LF gain) pair on every channel, and checks
 - parse -> write -> parse yields an equal dictionary
 - type / version / fs / channel counts agree with the fields written in the file
 - volts per bit of channel c = imAiRangeMax / 512 / gain(c) with the gain of channel c taken from the table that
   was written, and exactly 1 on the sync trace
The oracle is the definition evaluated with NumPy on the gains that were generated here.
Exit code 0 if everything agrees, 1 otherwise.
"""
import tempfile
from pathlib import Path

import numpy as np

import spikeglx

NP1_GAINS = np.array([50, 125, 250, 500, 1000, 1500, 2000, 3000])
RANGE_MAX, MAX_INT = 0.6, 512


def make_meta(version, stream, n_saved, ap_gain, lf_gain):
    """:return: text of a meta file for a 384 channel NP1 probe saving the first n_saved channels plus the sync"""
    n_acq = ap_gain.size
    if version == "3A":
        header = f"(641251510,3,{n_acq})"
        entries = "".join(f"({c} 0 0 {a} {l})" for c, (a, l) in enumerate(zip(ap_gain, lf_gain)))
        probe = ["typeEnabled=imec", "imProbeOpt=3", "imProbeSN=641251510"]
    else:
        header = f"(0,{n_acq})"
        entries = "".join(f"({c} 0 0 {a} {l} 1)" for c, (a, l) in enumerate(zip(ap_gain, lf_gain)))
        probe = ["imDatPrb_type=0", "imDatPrb_port=1", "imDatPrb_slot=2", "imDatPrb_sn=18005116102"]
    fs = 30000.0614 if stream == "ap" else 2500.0051
    sns = f"{n_saved},0,1" if stream == "ap" else f"0,{n_saved},1"
    first = 0 if stream == "ap" else n_acq
    lines = [
        f"acqApLfSy={n_acq},{n_acq},1",
        "appVersion=20190327",
        f"fileSizeBytes={(n_saved + 1) * 2 * 3000}",
        f"fileTimeSecs={3000 / fs}",
        f"imAiRangeMax={RANGE_MAX}",
        "imAiRangeMin=-0.6",
        f"imSampRate={fs}",
        f"nSavedChans={n_saved + 1}",
        f"snsApLfSy={sns}",
        f"snsSaveChanSubset={first}:{first + n_saved - 1},{2 * n_acq}",
        "typeThis=imec",
        "userNotes=gain=per channel; see imro",
        f"~imroTbl={header}{entries}",
        "~snsShankMap=(1,2,480)" + "".join(f"(0:{c % 2}:{c // 2}:1)" for c in range(n_saved)),
    ] + probe
    return "\n".join(lines) + "\n"


def main():
    rng = np.random.default_rng(20260909)
    errors = []
    with tempfile.TemporaryDirectory() as td:
        td = Path(td)
        for version in ("3A", "3B2"):
            for stream in ("ap", "lf"):
                for n_saved in (384, 100, 12):
                    case = f"{version} {stream} saved={n_saved}"
                    ap_gain = rng.choice(NP1_GAINS, 384)
                    lf_gain = rng.choice(NP1_GAINS, 384)
                    file_meta = td / f"demo_{version}_{n_saved}.imec.{stream}.meta"
                    file_meta.write_text(make_meta(version, stream, n_saved, ap_gain, lf_gain))
                    md = spikeglx.read_meta_data(file_meta)
                    # round trip
                    file_copy = td / "copy.meta"
                    spikeglx.write_meta_data(md, file_copy)
                    if spikeglx.read_meta_data(file_copy) != md:
                        errors.append(f"{case}: parse / write / parse does not give back the same dictionary")
                    # derived scalars
                    fs = 30000.0614 if stream == "ap" else 2500.0051
                    derived = dict(
                        type=(spikeglx._get_type_from_meta(md), stream),
                        version=(spikeglx._get_neuropixel_version_from_meta(md), version),
                        fs=(spikeglx._get_fs_from_meta(md), fs),
                        nc=(spikeglx._get_nchannels_from_meta(md), n_saved + 1),
                        sync=(spikeglx._get_sync_trace_indices_from_meta(md), [n_saved]),
                        maxint=(spikeglx._get_max_int_from_meta(md), MAX_INT),
                    )
                    for k, (got, expected) in derived.items():
                        if got != expected:
                            errors.append(f"{case}: {k} is {got}, expected {expected}")
                    # volts per bit: range / max int / gain of the channel, 1 on the sync
                    expected = {
                        "ap": np.r_[RANGE_MAX / MAX_INT / ap_gain[:n_saved], 1.0],
                        "lf": np.r_[RANGE_MAX / MAX_INT / lf_gain[:n_saved], 1.0],
                    }
                    s2v = spikeglx._conversion_sample2v_from_meta(md)
                    sr = spikeglx.Reader(file_meta)  # meta file only, no binary
                    for band, got in (("ap", s2v["ap"]), ("lf", s2v["lf"]), (stream, sr.sample2volts)):
                        if got.shape != expected[band].shape:
                            errors.append(f"{case}: {band} conversion has shape {got.shape}, expected {expected[band].shape}")
                            continue
                        bad = np.flatnonzero(~np.isclose(got, expected[band], rtol=1e-5, atol=0))
                        if bad.size:
                            c = bad[0]
                            gain = (ap_gain if band == "ap" else lf_gain)
                            errors.append(
                                f"{case}: {band} volts/bit wrong on {bad.size} of {got.size} traces; first is channel {c} "
                                f"with table gain {gain[c] if c < n_saved else 1}: got {got[c]:.6e} "
                                f"(i.e. gain {RANGE_MAX / MAX_INT / got[c]:.0f}), expected {expected[band][c]:.6e}"
                            )
    if errors:
        print(f"C09 VIOLATED ({len(errors)} discrepancies)")
        for e in errors[:12]:
            print(" -", e)
        return 1
    print("C09 holds: round trip, derived parameters and per-channel volts per bit agree with the meta data fields")
    return 0


if __name__ == "__main__":
    sys.exit(main())
