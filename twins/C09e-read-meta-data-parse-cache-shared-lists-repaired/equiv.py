import sys, os; sys.path.insert(0, os.path.join(os.path.dirname(os.path.abspath(__file__)), "src"))
"""
C09 demo: the quantities derived from a SpikeGLX meta-data file must agree with an independent
reading of the fields that are written in that file, whatever was done before with other
dictionaries parsed from it.

History used here (all of it admissible, it is what neuropixel.NP2Reconstructor.write_metadata does
with the dictionary it gets from read_meta_data):
  1. parse an AP meta file (NP1 / 3B2, non-uniform per-channel gains, 97 saved channels)
  2. derive the LF companion header from the parsed dictionary by editing the list entries,
     write it to ANOTHER file, check the write / parse round trip of that file
  3. parse the (untouched) AP file again, also through spikeglx.Reader, and compare type, counts,
     sampling rate, sample count and volts-per-bit with an independent reading of the file
"""
import tempfile
from pathlib import Path

import numpy as np

import spikeglx

NCH = 96  # neural channels saved
NS = 3000
FS_AP = 30000.25
AP_GAINS = np.array([50, 125, 250, 500, 1000, 1500, 2000, 3000])
LF_GAINS = np.array([3000, 2000, 1500, 1000, 500, 250, 125, 50])


def make_meta_text():
    ap = AP_GAINS[np.arange(384) % 8]
    lf = LF_GAINS[(np.arange(384) // 3) % 8]
    imro = "(0,384)" + "".join(f"({i} 0 0 {ap[i]} {lf[i]} 1)" for i in range(384))
    shank = "(1,2,480)" + "".join(f"(0:{i % 2}:{i // 2}:1)" for i in range(NCH))
    lines = [
        f"acqApLfSy=384,384,1",
        f"appVersion=20190327",
        f"fileCreateTime=2019-08-15T17:37:20",
        f"fileName=D:/data/run=3/test_g0_t0.imec0.ap.bin",
        f"fileSizeBytes={NS * (NCH + 1) * 2}",
        f"fileTimeSecs={NS / FS_AP}",
        f"imAiRangeMax=0.6",
        f"imAiRangeMin=-0.6",
        f"imDatPrb_port=2",
        f"imDatPrb_slot=3",
        f"imDatPrb_sn=18005116811",
        f"imDatPrb_type=0",
        f"imSampRate={FS_AP}",
        f"nSavedChans={NCH + 1}",
        f"snsApLfSy={NCH},0,1",
        f"snsSaveChanSubset=0:{NCH - 1},768",
        f"typeThis=imec",
        f"userNotes=",
        f"~imroTbl={imro}",
        f"~snsShankMap={shank}",
    ]
    return "\n".join(lines) + "\n"


def oracle(meta_file):
    """Independent reading of the file: plain text fields and the definitions of the derived values"""
    kv = {}
    for line in Path(meta_file).read_text().splitlines():
        k, _, v = line.partition("=")
        kv[k.lstrip("~")] = v
    nap, nlf, nsy = (int(x) for x in kv["snsApLfSy"].split(","))
    typ = "ap" if (nap and not nlf) else "lf"
    nc = int(kv["nSavedChans"])
    entries = kv["imroTbl"].strip("()").split(")(")[1:]  # first group is the table header
    col = 3 if typ == "ap" else 4
    gains = np.array([float(e.split(" ")[col]) for e in entries])[: nc - nsy]
    s2v = np.r_[float(kv["imAiRangeMax"]) / 512 / gains, np.ones(nsy)]
    fs = float(kv["imSampRate"])
    return dict(
        snsApLfSy=[float(nap), float(nlf), float(nsy)], type=typ, nc=nc, nsync=nsy, fs=fs,
        ns=int(kv["fileSizeBytes"]) // 2 // nc, s2v=s2v,
    )


def derived(md):
    typ = spikeglx._get_type_from_meta(md)
    return dict(
        snsApLfSy=list(md["snsApLfSy"]), type=typ, nc=spikeglx._get_nchannels_from_meta(md),
        nsync=len(spikeglx._get_sync_trace_indices_from_meta(md)), fs=spikeglx._get_fs_from_meta(md),
        ns=int(np.round(md["fileTimeSecs"] * spikeglx._get_fs_from_meta(md))),
        s2v=spikeglx._conversion_sample2v_from_meta(md).get(typ),
    )


def compare(label, got, exp, errors):
    for k, e in exp.items():
        g = got[k]
        if k == "s2v":
            ok = g is not None and np.shape(g) == np.shape(e) and np.allclose(g, e, rtol=1e-6, atol=0)
            if not ok:
                g = None if g is None else f"first values {np.asarray(g)[:4]}"
                e = f"first values {e[:4]}"
        else:
            ok = g == e
        if not ok:
            errors.append(f"{label}: {k} is {g}, the file says {e}")


def main():
    errors = []
    with tempfile.TemporaryDirectory() as td:
        ap_meta = Path(td) / "test_g0_t0.imec0.ap.meta"
        lf_meta = Path(td) / "test_g0_t0.imec0.lf.meta"
        ap_meta.write_text(make_meta_text())
        ap_text = ap_meta.read_text()
        (Path(td) / "test_g0_t0.imec0.ap.bin").write_bytes(np.zeros((NS, NCH + 1), dtype=np.int16).tobytes())

        # 1. first parse of the AP header
        md = spikeglx.read_meta_data(ap_meta)
        compare("first parse of ap.meta", derived(md), oracle(ap_meta), errors)

        # 2. LF companion header derived from it, written to another file, and round trip of that file
        md["acqApLfSy"][0], md["acqApLfSy"][1] = 0, 384
        md["snsApLfSy"][0], md["snsApLfSy"][1] = 0, NCH
        md["imSampRate"] = 2500
        md["fileTimeSecs"] = NS / 2500
        spikeglx.write_meta_data(md, lf_meta)
        md_lf = spikeglx.read_meta_data(lf_meta)
        if md_lf != md:
            errors.append("round trip of lf.meta: parsed dictionary differs from the one written")
        compare("parse of lf.meta", derived(md_lf), oracle(lf_meta), errors)

        # 3. the AP file was never touched ...
        assert ap_meta.read_text() == ap_text
        # ... so parsing it again must still describe an AP stream with the AP gain column
        md2 = spikeglx.read_meta_data(ap_meta)
        exp = oracle(ap_meta)
        compare("second parse of ap.meta", derived(md2), exp, errors)
        with spikeglx.Reader(ap_meta.with_suffix(".bin")) as sr:
            got = dict(snsApLfSy=list(sr.meta["snsApLfSy"]), type=sr.type, nc=sr.nc, nsync=sr.nsync,
                       fs=sr.fs, ns=sr.ns, s2v=sr.channel_conversion_sample2v.get(sr.type))
        compare("Reader on ap.bin", got, exp, errors)
        # and writing / parsing the second parse must give what the AP file says
        rt_meta = Path(td) / "roundtrip.meta"
        spikeglx.write_meta_data(md2, rt_meta)
        compare("round trip of second parse", derived(spikeglx.read_meta_data(rt_meta)), exp, errors)

    if errors:
        print("C09 broken: meta-data derived values disagree with the fields written in the file")
        for e in errors:
            print("  -", e)
        return 1
    print("ok: derived values agree with the file before and after deriving a companion header")
    return 0


if __name__ == "__main__":
    sys.exit(main())
