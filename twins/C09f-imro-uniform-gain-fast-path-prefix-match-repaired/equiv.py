import sys, os; sys.path.insert(0, os.path.join(os.path.dirname(os.path.abspath(__file__)), "src"))
"""
C09 - metadata parsing, derived acquisition parameters and writing round trip.

Builds SpikeGLX meta files from plain Python lists (3A and 3B flavours of the IMRO table, AP and LF
streams, full probe and channel subsets), reads them with spikeglx and compares
  - parse -> write -> parse,
  - type / version / fs / channel and sync counts,
  - volts per bit of every channel = imAiRangeMax / imMaxInt / gain of that channel (1 on sync)
with the values the files were built from.  Exits 1 and lists the disagreements, 0 otherwise.
"""
import logging
import tempfile
from pathlib import Path

import numpy as np

import spikeglx

logging.getLogger("ibllib").setLevel(logging.ERROR)
NP1_GAINS = [50, 125, 250, 500, 1000, 1500, 2000, 3000]
RANGE_MAX, MAX_INT = 0.6, 512
errors = []


def meta_text(flavour, stream, ap_gains, lf_gains, n_saved=None, fs=None):
    """The text of a meta file and the dictionary of the quantities it was built from"""
    n_sites = len(ap_gains)
    n_saved = n_sites if n_saved is None else n_saved
    fs = fs or (30000.0 if stream == "ap" else 2500.0)
    ns = 64
    if flavour == "3A":
        header = f"(641251510,3,{n_sites})"
        sites = "".join(f"({i} 0 0 {a} {l})" for i, (a, l) in enumerate(zip(ap_gains, lf_gains)))
        probe = ["imProbeOpt=3", "imProbeSN=641251510", "typeEnabled=imec"]
    else:
        header = f"(0,{n_sites})"
        sites = "".join(f"({i} 0 0 {a} {l} 1)" for i, (a, l) in enumerate(zip(ap_gains, lf_gains)))
        probe = ["imDatPrb_port=1", "imDatPrb_slot=2", "imDatPrb_sn=18005116102", "imDatPrb_type=0",
                 f"imMaxInt={MAX_INT}"]
    aplfsy = f"{n_saved},0,1" if stream == "ap" else f"0,{n_saved},1"
    lines = [
        "acqApLfSy=384,384,1",
        "appVersion=20190327",
        f"fileSizeBytes={ns * (n_saved + 1) * 2}",
        f"fileTimeSecs={ns / fs}",
        f"imAiRangeMax={RANGE_MAX}",
        "imAiRangeMin=-0.6",
        *probe,
        f"imSampRate={fs:g}",
        f"nSavedChans={n_saved + 1}",
        f"snsApLfSy={aplfsy}",
        f"snsSaveChanSubset=0:{n_saved - 1},768",
        "typeThis=imec",
        "userNotes=gain=custom; ref=tip",
        f"~imroTbl={header}{sites}",
    ]
    truth = dict(version=flavour, type=stream, fs=fs, nc=n_saved + 1, nsync=1, ns=ns,
                 gains=np.r_[np.array(ap_gains if stream == "ap" else lf_gains, dtype=np.float64)[:n_saved]])
    return "\n".join(lines) + "\n", truth


def check(label, flavour, stream, ap_gains, lf_gains, tmp, n_saved=None, with_reader=False):
    txt, truth = meta_text(flavour, stream, ap_gains, lf_gains, n_saved=n_saved)
    meta_file = Path(tmp) / f"probe_g0_t0.imec.{stream}.meta"
    meta_file.write_text(txt)
    md = spikeglx.read_meta_data(meta_file)
    # round trip
    copy_file = Path(tmp) / "copy.meta"
    spikeglx.write_meta_data(md, copy_file)
    if spikeglx.read_meta_data(copy_file) != md:
        errors.append(f"{label}: parse -> write -> parse is not the identity")
    # derived parameters
    got = dict(
        version=spikeglx._get_neuropixel_version_from_meta(md),
        type=spikeglx._get_type_from_meta(md),
        fs=spikeglx._get_fs_from_meta(md),
        nc=spikeglx._get_nchannels_from_meta(md),
        nsync=len(spikeglx._get_sync_trace_indices_from_meta(md)),
    )
    want_version = "3A" if flavour == "3A" else "3B2"
    for k, want in dict(version=want_version, type=truth["type"], fs=truth["fs"], nc=truth["nc"], nsync=1).items():
        if got[k] != want:
            errors.append(f"{label}: {k} is {got[k]!r}, the file says {want!r}")
    # volts per bit, channel by channel
    want = np.r_[RANGE_MAX / MAX_INT / truth["gains"], 1.0]
    s2v = spikeglx._conversion_sample2v_from_meta(md)[stream]
    report_s2v(label, s2v, want, truth["gains"])
    if with_reader:
        bin_file = meta_file.with_suffix(".bin")
        raw = np.full((truth["ns"], truth["nc"]), 100, dtype=np.int16)
        raw.tofile(bin_file)
        with spikeglx.Reader(bin_file, sort=False) as sr:
            if sr.ns != truth["ns"]:
                errors.append(f"{label}: Reader.ns is {sr.ns}, the file has {truth['ns']} samples")
            report_s2v(label + " [Reader.sample2volts]", sr.sample2volts, want, truth["gains"])
            volts = sr[:, :-1]
            if volts.shape != (truth["ns"], truth["nc"] - 1) or not np.allclose(volts, 100 * want[:-1], rtol=1e-5):
                errors.append(f"{label}: Reader[:, :] does not return raw * range / maxint / gain")


def report_s2v(label, s2v, want, gains):
    if s2v.shape != want.shape:
        errors.append(f"{label}: volts-per-bit vector has shape {s2v.shape}, expected {want.shape}")
        return
    bad = np.where(~np.isclose(s2v, want, rtol=1e-5, atol=0))[0]
    if bad.size:
        i = bad[0]
        errors.append(
            f"{label}: volts per bit wrong on {bad.size}/{want.size} channels; e.g. channel {i} has gain "
            f"{gains[i]:g} -> expected {want[i]:.6e}, got {s2v[i]:.6e} (ratio {s2v[i] / want[i]:.3g})"
        )


with tempfile.TemporaryDirectory(dir=os.path.dirname(os.path.abspath(__file__))) as tmp:
    rng = np.random.default_rng(9)
    n = 384
    for flavour in ("3A", "3B"):
        for stream in ("ap", "lf"):
            tag = f"{flavour}/{stream}"
            # one gain pair for the whole probe
            for a, l in ((500, 250), (1000, 50), (250, 250)):
                check(f"{tag} uniform {a}/{l}", flavour, stream, [a] * n, [l] * n, tmp, with_reader=(a == 500))
            # independent gain on every site
            for k in range(3):
                ap, lf = rng.choice(NP1_GAINS, n).tolist(), rng.choice(NP1_GAINS, n).tolist()
                check(f"{tag} random table {k}", flavour, stream, ap, lf, tmp, with_reader=(k == 0))
                check(f"{tag} random table {k}, first 276 saved", flavour, stream, ap, lf, tmp, n_saved=276)
            # one site (say the one next to the reference) set apart from the rest of the probe, for every pair of
            # legal gains and for each of the two gain columns
            for g_site in NP1_GAINS:
                for g_rest in NP1_GAINS:
                    if g_site == g_rest:
                        continue
                    ap = [g_site] + [g_rest] * (n - 1)
                    check(f"{tag} site 0 at AP gain {g_site}, others {g_rest}, LF 250", flavour, stream, ap, [250] * n, tmp)
                    lf = [g_site] + [g_rest] * (n - 1)
                    check(f"{tag} site 0 at LF gain {g_site}, others {g_rest}, AP 500", flavour, stream, [500] * n, lf, tmp)
                    # and two banks of 192 sites
                    lf = [g_site] * (n // 2) + [g_rest] * (n // 2)
                    check(f"{tag} LF gain {g_site} on sites 0-191, {g_rest} on 192-383, AP 500", flavour, stream, [500] * n, lf, tmp)

if errors:
    print(f"C09 BROKEN: {len(errors)} disagreement(s) between spikeglx and the fields written in the meta file")
    for e in errors[:12]:
        print("  -", e)
    if len(errors) > 12:
        print(f"  ... and {len(errors) - 12} more")
    sys.exit(1)
print("C09 holds: round trip, derived parameters and per-channel volts per bit agree with the meta files")
sys.exit(0)
