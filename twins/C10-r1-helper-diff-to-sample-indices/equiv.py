"""
Differential check for refactor_1.diff (ibldsp.utils: fronts / rises / falls share the
extracted helper _diff_to_sample_indices).
Compares the pristine implementation (git HEAD export in /tmp/wt_C10_tmp/orig/src) against the
worktree implementation (/tmp/wt_C10/src) on many inputs.
"""
import importlib
import sys
from pathlib import Path

import numpy as np

ORIG = Path("/tmp/wt_C10_tmp/orig/src")
WORK = Path("/tmp/wt_C10/src")
_PURGE = ("spikeglx", "neuropixel", "ibldsp")


def load(root, name):
    for k in list(sys.modules):
        if k in _PURGE or k.split(".")[0] in _PURGE:
            del sys.modules[k]
    sys.path.insert(0, str(root))
    try:
        mod = importlib.import_module(name)
    finally:
        sys.path.remove(str(root))
    assert Path(mod.__file__).resolve().is_relative_to(root.resolve()), (mod.__file__, root)
    return mod


uo = load(ORIG, "ibldsp.utils")
un = load(WORK, "ibldsp.utils")
assert uo is not un
assert str(ORIG) in uo.__file__ and str(WORK) in un.__file__
assert not hasattr(uo, "_diff_to_sample_indices")
print("refactor_1 applied in worktree:", hasattr(un, "_diff_to_sample_indices"))

ncheck = 0


def same(a, b):
    """Strict comparison: type, dtype, shape, values"""
    if isinstance(a, tuple):
        assert isinstance(b, tuple) and len(a) == len(b)
        for aa, bb in zip(a, b):
            same(aa, bb)
        return
    assert type(a) is type(b), (type(a), type(b))
    assert a.dtype == b.dtype, (a.dtype, b.dtype)
    assert a.shape == b.shape, (a.shape, b.shape)
    np.testing.assert_array_equal(a, b)


def call(f, *args, **kwargs):
    """Returns ('ok', result) or ('exc', type, message)"""
    try:
        with np.errstate(all="ignore"):
            return "ok", f(*args, **kwargs)
    except Exception as e:  # noqa
        return "exc", type(e), str(e)


def compare(fname, x, **kwargs):
    global ncheck
    xo, xn = np.copy(x), np.copy(x)
    ro = call(getattr(uo, fname), xo, **kwargs)
    rn = call(getattr(un, fname), xn, **kwargs)
    assert ro[0] == rn[0], (fname, kwargs, ro, rn)
    if ro[0] == "ok":
        same(ro[1], rn[1])
    else:
        assert ro[1:] == rn[1:], (fname, kwargs, ro, rn)
    # inputs must be left untouched the same way
    same(xo, xn)
    ncheck += 1


rng = np.random.default_rng(1234)

# --- 1D TTL trains, various dtypes
for dtype in (np.int8, np.int16, np.int32, np.int64, np.float32, np.float64, np.uint8, bool):
    for n in (0, 1, 2, 3, 17, 1000):
        for p in (0.0, 0.03, 0.5, 1.0):
            x = (rng.random(n) < p).astype(dtype)
            for fname in ("fronts", "rises", "falls"):
                if dtype is bool and fname == "falls":
                    # -x on bool raises TypeError in both: still compared
                    pass
                compare(fname, x)
                compare(fname, x, axis=0)
                compare(fname, x, axis=-1)

# --- 1D with step thresholds, multi-level signals
for n in (5, 64, 2000):
    x = rng.integers(-5, 6, n).astype(np.float64)
    xi = rng.integers(-5, 6, n).astype(np.int16)
    for step in (0, 0.5, 1, 2, 3.5, 10, -1):
        compare("fronts", x, step=step)
        compare("rises", x, step=step)
        compare("falls", x, step=-step)
        compare("fronts", xi, step=step)
        compare("rises", xi, step=step)
        compare("falls", xi, step=-step)

# --- analog traces around the threshold
for n in (4, 100, 5000):
    t = np.arange(n)
    x = 2.5 * (np.sin(t / 7.0) > 0) + rng.normal(0, 0.3, n) + 0.1
    for thr in (0.0, 1.2, 2.5, 2.6, 5.0):
        compare("rises", x, step=thr, analog=True)
        compare("falls", x, step=-thr, analog=True)
        compare("falls", x, step=thr, analog=True)
    # values exactly at the threshold
    y = np.array([0, 1.2, 1.2, 1.3, 1.2, 0, 1.2000001, 1.1999999, 3, 0] * 3, dtype=np.float64)
    compare("rises", y, step=1.2, analog=True)
    compare("falls", y, step=-1.2, analog=True)
    compare("fronts", y, step=1.2)

# --- 2D, both axes, positive and negative axis numbers, incl. degenerate shapes
for shape in ((16, 500), (500, 16), (1, 50), (50, 1), (3, 0), (0, 3), (2, 2), (7, 1), (1, 1)):
    for p in (0.02, 0.5):
        x = (rng.random(shape) < p).astype(np.int8)
        xf = x.astype(np.float64) * 3.3
        for axis in (0, 1, -1, -2):
            compare("fronts", x, axis=axis)
            compare("rises", x, axis=axis)
            compare("falls", x, axis=axis)
            compare("fronts", xf, axis=axis, step=2)
            compare("rises", xf, axis=axis, step=2)
            compare("falls", xf, axis=axis, step=-2)
            compare("rises", xf, axis=axis, step=1.2, analog=True)
            compare("falls", xf, axis=axis, step=-1.2, analog=True)

# --- 3D arrays
x = (rng.random((4, 5, 60)) < 0.3).astype(np.int8)
for axis in (0, 1, 2, -1, -2, -3):
    compare("fronts", x, axis=axis)
    compare("rises", x, axis=axis)
    compare("falls", x, axis=axis)

# --- error paths: wrong axis, 0-d input, non-contiguous and Fortran-ordered inputs
x = (rng.random((6, 40)) < 0.3).astype(np.int8)
for axis in (2, -3, 5):
    compare("fronts", x, axis=axis)
    compare("rises", x, axis=axis)
    compare("falls", x, axis=axis)
compare("fronts", np.array(3))
compare("rises", np.array(3))
compare("falls", np.array(3))
xx = np.asfortranarray(x)
for axis in (0, 1):
    compare("fronts", xx, axis=axis)
    compare("rises", xx[:, ::2], axis=axis)
    compare("falls", xx[::-1, :], axis=axis)

# --- sync-word derived lines: every line of a random 16-bit word train
words = rng.integers(0, 65536, 3000).astype(np.uint16)
lines = ((words[:, None] >> np.arange(16)[None, :]) & 1).astype(np.int8)
for axis, arr in ((0, lines), (1, lines.T), (-1, lines.T), (-2, lines)):
    compare("fronts", arr, axis=axis)
    compare("rises", arr, axis=axis)
    compare("falls", arr, axis=axis)
for k in range(16):
    compare("fronts", lines[:, k])
    compare("rises", lines[:, k])
    compare("falls", lines[:, k])

# --- python lists as input (np.diff accepts array-likes; falls does -x, which raises on lists)
for fname in ("fronts", "rises", "falls"):
    ro = call(getattr(uo, fname), [0, 0, 1, 1, 0, 1])
    rn = call(getattr(un, fname), [0, 0, 1, 1, 0, 1])
    assert ro[0] == rn[0]
    if ro[0] == "ok":
        same(ro[1], rn[1])
    else:
        assert ro[1:] == rn[1:]
    ncheck += 1

print(f"{ncheck} comparisons")
print("EQUIVALENT")
