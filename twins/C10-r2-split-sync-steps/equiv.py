"""
Differential check for refactor_2.diff (spikeglx.split_sync written as successive named steps,
Reader.read_sync_digital with the sync trace indices hoisted into a local).
Compares the pristine implementation (git HEAD export in /tmp/wt_C10_tmp/orig/src) against the
worktree implementation (/tmp/wt_C10/src) on many inputs.
"""
import importlib
import logging
import shutil
import sys
import tempfile
from pathlib import Path

import numpy as np

ORIG = Path("/tmp/wt_C10_tmp/orig/src")
WORK = Path("/tmp/wt_C10/src")
FIXTURES = ORIG / "tests" / "fixtures"
_PURGE = ("spikeglx", "neuropixel", "ibldsp")


def load(root, name):
    for k in list(sys.modules):
        if k in _PURGE or k.split(".")[0] in _PURGE:
            del sys.modules[k]
    sys.path.insert(0, str(root))
    try:
        mod = importlib.import_module(name)
    finally:
        sys.path.remove(str(root))
    assert Path(mod.__file__).resolve().is_relative_to(root.resolve()), (mod.__file__, root)
    return mod


so = load(ORIG, "spikeglx")
assert Path(sys.modules["neuropixel"].__file__).resolve().is_relative_to(ORIG.resolve())
sn = load(WORK, "spikeglx")
assert Path(sys.modules["neuropixel"].__file__).resolve().is_relative_to(WORK.resolve())
assert so is not sn
assert str(ORIG) in so.__file__ and str(WORK) in sn.__file__
logging.disable(logging.CRITICAL)

ncheck = 0


def same(a, b):
    """Strict comparison: type, dtype, shape, values"""
    if isinstance(a, tuple):
        assert isinstance(b, tuple) and len(a) == len(b)
        for aa, bb in zip(a, b):
            same(aa, bb)
        return
    if a is None or b is None:
        assert a is None and b is None, (a, b)
        return
    assert type(a) is type(b), (type(a), type(b))
    assert a.dtype == b.dtype, (a.dtype, b.dtype)
    assert a.shape == b.shape, (a.shape, b.shape)
    assert a.flags.c_contiguous == b.flags.c_contiguous
    np.testing.assert_array_equal(a, b)


def call(f, *args, **kwargs):
    try:
        with np.errstate(all="ignore"):
            return "ok", f(*args, **kwargs)
    except Exception as e:  # noqa
        return "exc", type(e), str(e)


def compare_results(ro, rn, ctx):
    global ncheck
    assert ro[0] == rn[0], (ctx, ro, rn)
    if ro[0] == "ok":
        same(ro[1], rn[1])
    else:
        assert ro[1:] == rn[1:], (ctx, ro, rn)
    ncheck += 1
    return ro


def compare_split(x):
    if isinstance(x, np.ndarray):
        xo, xn = np.copy(x, order="K"), np.copy(x, order="K")
    else:
        xo, xn = x, x
    ro = compare_results(call(so.split_sync, xo), call(sn.split_sync, xn), ("split_sync", type(x)))
    if isinstance(x, np.ndarray):
        same(xo, xn)
        np.testing.assert_array_equal(xo, x)  # input is not modified
    return ro


rng = np.random.default_rng(4321)

# ---------------------------------------------------------------- split_sync
# exhaustive over the 65536 words, and the property itself is checked on both implementations
words = np.arange(65536, dtype=np.uint16)
r = compare_split(words.view(np.int16))
expected = ((words[:, None] >> np.arange(16)[None, :]) & 1).astype(np.int8)
np.testing.assert_array_equal(r[1], expected)
np.testing.assert_array_equal(sn.split_sync(words.view(np.int16)), expected)
for dtype in (np.uint16, np.int32, np.int64, np.uint32, np.float32, np.float64, ">i2", ">u2", "<i4"):
    compare_split(words.astype(dtype))
compare_split(np.arange(-32768, 32768, dtype=np.int16))
compare_split(np.arange(-40000, 70000, 7, dtype=np.int64))
# random trains, shapes and memory layouts
for n in (0, 1, 2, 15, 16, 17, 1000, 30000):
    x = rng.integers(-32768, 32768, n).astype(np.int16)
    compare_split(x)
    compare_split(x[::2])
    compare_split(x[::-1])
    compare_split(x[:, np.newaxis])  # this is what Reader.read_sync_digital passes on
    compare_split(x[np.newaxis, :])
x2 = rng.integers(-32768, 32768, (50, 3)).astype(np.int16)
compare_split(x2)
compare_split(np.asfortranarray(x2))
compare_split(x2.T)
compare_split(x2[:, 1:2])
compare_split(x2[:, [2]])
compare_split(rng.integers(-32768, 32768, (4, 5, 6)).astype(np.int16))
# scalars, lists, odd inputs and error paths
for x in (5, -1, 32767, np.int16(-32768), np.uint16(65535), 1.5, [1, 2, 3, 65535], [[1], [2]], [], (1, 2),
          np.array(7), np.array([np.nan, np.inf, 1.0]), None, "a", [1, "a"], np.array([1, 2], dtype=object),
          np.array([True, False]), np.array([1 + 2j])):
    compare_split(x)
# memmap input as in the reader
with tempfile.TemporaryDirectory(prefix="equiv2_", dir="/tmp/wt_C10_tmp") as td:
    fn = Path(td) / "mm.bin"
    rng.integers(-32768, 32768, (300, 4)).astype(np.int16).tofile(fn)
    mm = np.memmap(fn, dtype=np.int16, mode="r", shape=(300, 4))
    for sl in (slice(None), slice(10, 20), slice(0, 0), [1, 5, 7]):
        ro = call(so.split_sync, mm[sl, [3]])
        rn = call(sn.split_sync, mm[sl, [3]])
        compare_results(ro, rn, "memmap")
    del mm


# ---------------------------------------------------------------- Reader.read_sync_digital & co
def write_meta(src, dst, ns, nc, fs=None, extra=None):
    extra = extra or {}
    lines = []
    with open(src) as fid:
        for line in fid.read().splitlines():
            key = line.split("=")[0]
            if key == "fileSizeBytes":
                line = f"fileSizeBytes={ns * nc * 2}"
            elif key == "fileTimeSecs":
                line = f"fileTimeSecs={ns / fs}"
            elif key in extra:
                line = f"{key}={extra[key]}"
            lines.append(line)
    with open(dst, "w") as fid:
        fid.write("\n".join(lines) + "\n")


def make_recording(tdir, name, meta_name, ns, nc, extra=None, sync_cols=(-1,)):
    bin_file = Path(tdir) / name
    md = so.read_meta_data(FIXTURES / meta_name)
    fs = so._get_fs_from_meta(md)
    write_meta(FIXTURES / meta_name, bin_file.with_suffix(".meta"), ns, nc, fs=fs, extra=extra)
    data = rng.integers(-32768, 32768, (ns, nc)).astype(np.int16)
    for c in sync_cols:
        # TTL event trains on a random subset of the 16 lines
        lines = rng.random((ns, 16)) < rng.random(16) * 0.2
        lines[:, rng.random(16) < 0.3] = False
        data[:, c] = (lines * (1 << np.arange(16))).sum(axis=1).astype(np.uint16).view(np.int16)
    data.tofile(bin_file)
    return bin_file, data


SLICES = [
    slice(0, 10000), slice(None), slice(0, 0), slice(5, 6), slice(10, 300, 3), slice(-50, None),
    slice(400, 100), slice(100000, 100010), [0, 5, 7], np.array([3, 1, 2]), [],
    np.array([], dtype=int), 7, -1, 100000, (slice(0, 4),), "a", None,
]


def compare_readers(sro, srn, label):
    for fname in ("read_sync_digital", "read_sync_analog", "read_sync"):
        compare_results(call(getattr(sro, fname)), call(getattr(srn, fname)), (label, fname, "default"))
        for sl in SLICES:
            compare_results(call(getattr(sro, fname), sl), call(getattr(srn, fname), sl), (label, fname, sl))
    for sl in SLICES[:12]:
        for thr, fp in ((1.2, 10), (0.0, 10), (2.5, 0), (-1.0, None), (1e9, 10)):
            compare_results(
                call(sro.read_sync, sl, threshold=thr, floor_percentile=fp),
                call(srn.read_sync, sl, threshold=thr, floor_percentile=fp), (label, "read_sync", sl, thr, fp))
        compare_results(call(sro.read, sl), call(srn.read, sl), (label, "read", sl))
        compare_results(call(sro.read, sl, [0]), call(srn.read, sl, [0]), (label, "read", sl))
    compare_results(call(sro.read_samples, 3, 40), call(srn.read_samples, 3, 40), (label, "read_samples"))
    compare_results(call(sro.__getitem__, slice(0, 20)), call(srn.__getitem__, slice(0, 20)), (label, "getitem"))


with tempfile.TemporaryDirectory(prefix="equiv2_", dir="/tmp/wt_C10_tmp") as tdir:
    recordings = []
    ns = 700
    recordings.append(("3B ap", *make_recording(
        tdir, "r3B_g0_t0.imec1.ap.bin", "sample3B_g0_t0.imec1.ap.meta", ns, 385)))
    recordings.append(("3B lf", *make_recording(
        tdir, "r3B_g0_t0.imec1.lf.bin", "sample3B_g0_t0.imec1.lf.meta", ns, 385)))
    recordings.append(("3A ap", *make_recording(
        tdir, "r3A_g0_t0.imec.ap.bin", "sample3A_g0_t0.imec.ap.meta", ns, 385)))
    recordings.append(("NP2.4", *make_recording(
        tdir, "rNP24_g0_t0.imec.ap.bin", "sampleNP2.4_4shanks_g0_t0.imec.ap.meta", ns, 385)))
    recordings.append(("nidq 1a1d", *make_recording(
        tdir, "n1_g0_t0.nidq.bin", "sample3B_g0_t0.nidq.meta", ns, 2)))
    recordings.append(("nidq 3a1d", *make_recording(
        tdir, "n2_g0_t0.nidq.bin", "sample3B_g0_t0.nidq.meta", ns, 4,
        extra={"snsMnMaXaDw": "0,0,3,1", "acqMnMaXaDw": "0,0,3,1", "nSavedChans": "4"})))
    recordings.append(("nidq 2mn1ma2a1d", *make_recording(
        tdir, "n3_g0_t0.nidq.bin", "sample3B_g0_t0.nidq.meta", ns, 6,
        extra={"snsMnMaXaDw": "2,1,2,1", "acqMnMaXaDw": "2,1,2,1", "nSavedChans": "6"})))
    recordings.append(("nidq 0a1d", *make_recording(
        tdir, "n4_g0_t0.nidq.bin", "sample3B_g0_t0.nidq.meta", ns, 1,
        extra={"snsMnMaXaDw": "0,0,0,1", "acqMnMaXaDw": "0,0,0,1", "nSavedChans": "1"})))
    recordings.append(("nidq 1a2d", *make_recording(
        tdir, "n5_g0_t0.nidq.bin", "sample3B_g0_t0.nidq.meta", ns, 3,
        extra={"snsMnMaXaDw": "0,0,1,2", "acqMnMaXaDw": "0,0,1,2", "nSavedChans": "3"}, sync_cols=(-1, -2))))

    for label, bin_file, data in recordings:
        sro, srn = so.Reader(bin_file), sn.Reader(bin_file)
        assert type(sro).__module__ == "spikeglx" and type(sro) is not type(srn)
        # the digital lines are those written in the file: line k is bit k of the word
        if srn.nsync == 1:
            w = data[:, -1].view(np.uint16)
            np.testing.assert_array_equal(
                srn.read_sync_digital(slice(None)), ((w[:, None] >> np.arange(16)[None, :]) & 1).astype(np.int8))
        compare_readers(sro, srn, label)
        sro.close(), srn.close()
        # reader not opened: IOError
        sro, srn = so.Reader(bin_file, open=False), sn.Reader(bin_file, open=False)
        compare_readers(sro, srn, label + " closed")

    # reader without meta-data file: 385 channels raw file, and explicit parameters
    bin_file = Path(tdir) / "nometa.bin"
    rng.integers(-32768, 32768, (ns, 385)).astype(np.int16).tofile(bin_file)
    sro, srn = so.Reader(bin_file), sn.Reader(bin_file)
    assert sro.meta is None and srn.meta is None
    compare_readers(sro, srn, "nometa")
    sro.close(), srn.close()
    sro, srn = (m.Reader(bin_file, nc=385, ns=ns, fs=2500, nsync=1, dtype="int16") for m in (so, sn))
    compare_readers(sro, srn, "nometa explicit")
    sro.close(), srn.close()

    # mtscomp compressed file
    label, bin_file, data = recordings[0]
    cdir = Path(tdir) / "cbin"
    cdir.mkdir()
    shutil.copy(bin_file, cdir / bin_file.name)
    shutil.copy(bin_file.with_suffix(".meta"), cdir / bin_file.with_suffix(".meta").name)
    sr = so.Reader(cdir / bin_file.name)
    cbin = sr.compress_file(keep_original=False, chunk_duration=0.01)
    sr.close()
    sro, srn = so.Reader(cbin), sn.Reader(cbin)
    assert sro.is_mtscomp and srn.is_mtscomp
    for fname in ("read_sync_digital", "read_sync_analog", "read_sync"):
        for sl in (slice(0, 10000), slice(None), slice(0, 0), slice(5, 6), slice(10, 300), slice(400, 100)):
            compare_results(call(getattr(sro, fname), sl), call(getattr(srn, fname), sl), ("cbin", fname, sl))
    compare_results(call(sro.read, slice(20, 220)), call(srn.read, slice(20, 220)), ("cbin", "read"))
    sro.close(), srn.close()

print(f"{ncheck} comparisons")
print("EQUIVALENT")
