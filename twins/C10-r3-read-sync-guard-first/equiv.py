"""
Differential check for refactor_3.diff (Reader.read_sync and Reader.read_sync_analog with their
branches restructured: guard clause / early return instead of repeated None tests and if/else).
Compares the pristine implementation (git HEAD export in /tmp/wt_C10_tmp/orig/src) against the
worktree implementation (/tmp/wt_C10/src) on many inputs.
"""
import importlib
import logging
import shutil
import sys
import tempfile
from pathlib import Path

import numpy as np

ORIG = Path("/tmp/wt_C10_tmp/orig/src")
WORK = Path("/tmp/wt_C10/src")
FIXTURES = ORIG / "tests" / "fixtures"
_PURGE = ("spikeglx", "neuropixel", "ibldsp")


def load(root, name):
    for k in list(sys.modules):
        if k in _PURGE or k.split(".")[0] in _PURGE:
            del sys.modules[k]
    sys.path.insert(0, str(root))
    try:
        mod = importlib.import_module(name)
    finally:
        sys.path.remove(str(root))
    assert Path(mod.__file__).resolve().is_relative_to(root.resolve()), (mod.__file__, root)
    return mod


so = load(ORIG, "spikeglx")
assert Path(sys.modules["neuropixel"].__file__).resolve().is_relative_to(ORIG.resolve())
sn = load(WORK, "spikeglx")
assert Path(sys.modules["neuropixel"].__file__).resolve().is_relative_to(WORK.resolve())
assert so is not sn
assert str(ORIG) in so.__file__ and str(WORK) in sn.__file__
logging.disable(logging.CRITICAL)

ncheck = 0


def same(a, b):
    """Strict comparison: type, dtype, shape, values"""
    if isinstance(a, tuple):
        assert isinstance(b, tuple) and len(a) == len(b)
        for aa, bb in zip(a, b):
            same(aa, bb)
        return
    if a is None or b is None:
        assert a is None and b is None, (a, b)
        return
    assert type(a) is type(b), (type(a), type(b))
    assert a.dtype == b.dtype, (a.dtype, b.dtype)
    assert a.shape == b.shape, (a.shape, b.shape)
    assert a.flags.c_contiguous == b.flags.c_contiguous
    np.testing.assert_array_equal(a, b)


def call(f, *args, **kwargs):
    try:
        with np.errstate(all="ignore"):
            return "ok", f(*args, **kwargs)
    except Exception as e:  # noqa
        return "exc", type(e), str(e)


def compare_results(ro, rn, ctx):
    global ncheck
    assert ro[0] == rn[0], (ctx, ro, rn)
    if ro[0] == "ok":
        same(ro[1], rn[1])
    else:
        assert ro[1:] == rn[1:], (ctx, ro, rn)
    ncheck += 1
    return ro


def compare_split(x):
    if isinstance(x, np.ndarray):
        xo, xn = np.copy(x, order="K"), np.copy(x, order="K")
    else:
        xo, xn = x, x
    ro = compare_results(call(so.split_sync, xo), call(sn.split_sync, xn), ("split_sync", type(x)))
    if isinstance(x, np.ndarray):
        same(xo, xn)
        np.testing.assert_array_equal(xo, x)  # input is not modified
    return ro


rng = np.random.default_rng(9876)


# ---------------------------------------------------------------- read_sync logic on crafted analog traces
class FakeReader:
    """Minimal stand-in for self: feeds crafted digital / analog arrays to Reader.read_sync"""

    def __init__(self, digital, analog):
        self.digital, self.analog = digital, analog
        self.calls = []

    def read_sync_digital(self, _slice):
        self.calls.append(("digital", _slice))
        return self.digital

    def read_sync_analog(self, _slice):
        self.calls.append(("analog", _slice))
        return self.analog


def cp(x):
    return np.copy(x) if isinstance(x, np.ndarray) else x


def compare_fake(digital, analog, *args, **kwargs):
    fo, fn = FakeReader(cp(digital), cp(analog)), FakeReader(cp(digital), cp(analog))
    ro = call(so.Reader.read_sync, fo, *args, **kwargs)
    rn = call(sn.Reader.read_sync, fn, *args, **kwargs)
    compare_results(ro, rn, ("fake", args, kwargs))
    # same calls in the same order, and same in-place side effects on the analog buffer
    assert len(fo.calls) == len(fn.calls) and all(a[0] == b[0] and a[1] == b[1] for a, b in zip(fo.calls, fn.calls))
    for a, b in ((fo.analog, fn.analog), (fo.digital, fn.digital)):
        if isinstance(a, np.ndarray):
            same(a, b)
        else:
            assert a is b or a == b
    if ro[0] == "ok" and analog is None:
        assert ro[1] is fo.digital and rn[1] is fn.digital  # digital returned as is
    return ro


THRESHOLDS = (1.2, 0, 0.0, -1.0, 2.5, 5, 1e9, np.nan, np.float32(1.2), None, "a")
FLOORS = (10, 0, None, 50, True, False, 0.0, 1e-3, "", "x", np.array([1, 2]), np.array([0]), [])
for ns in (0, 1, 2, 100, 1000):
    words = rng.integers(0, 65536, ns).astype(np.uint16)
    digital = ((words[:, None] >> np.arange(16)[None, :]) & 1).astype(np.int8)
    analogs = [None]
    for na in (1, 2, 5):
        ttl = (rng.random((ns, na)) < 0.5) * 3.3
        for dtype in (np.float32, np.float64):
            analogs.append((ttl + rng.normal(0, 0.2, (ns, na)) + rng.uniform(-1, 1, na)).astype(dtype))
            # values sitting exactly on and next to the threshold
            a = rng.choice(np.array([0, 1.2, np.nextafter(1.2, 0), np.nextafter(1.2, 2), 1.3, -4, 5]), (ns, na))
            analogs.append(a.astype(dtype))
        analogs.append(np.round(ttl).astype(np.int16))  # in place subtraction of a float percentile fails
        analogs.append(np.where(rng.random((ns, na)) < 0.1, np.nan, ttl))
        analogs.append(np.where(rng.random((ns, na)) < 0.1, np.inf, ttl).astype(np.float32))
    analogs.append(np.zeros((ns, 0), dtype=np.float32))
    analogs.append(rng.normal(1.2, 1, ns).astype(np.float32))  # 1D: concatenation fails
    analogs.append(np.asfortranarray(rng.normal(1.2, 1, (ns, 3)).astype(np.float32)))
    analogs.append(rng.normal(1.2, 1, (ns + 1, 1)).astype(np.float32))  # size mismatch
    analogs.append(rng.normal(1.2, 1, (ns, 2)).tolist())  # not an array
    analogs.append(1.5)
    for analog in analogs:
        compare_fake(digital, analog, slice(0, ns))
        compare_fake(digital, analog)
        for thr in THRESHOLDS:
            compare_fake(digital, analog, slice(0, ns), threshold=thr)
            compare_fake(digital, analog, slice(0, ns), thr, 0)
        for fp in FLOORS:
            compare_fake(digital, analog, slice(0, ns), floor_percentile=fp)
            compare_fake(digital, analog, slice(0, ns), 2.5, fp)
    # a read-only analog buffer
    ro_analog = rng.normal(1.2, 1, (ns, 2)).astype(np.float32)
    fo, fn = FakeReader(digital, np.copy(ro_analog)), FakeReader(digital, np.copy(ro_analog))
    fo.analog.flags.writeable = False
    fn.analog.flags.writeable = False
    for fp in (10, 0):
        compare_results(call(so.Reader.read_sync, fo, floor_percentile=fp),
                        call(sn.Reader.read_sync, fn, floor_percentile=fp), "readonly")


# ---------------------------------------------------------------- read_sync_analog logic on crafted readers
class FakeAnalog:
    def __init__(self, meta):
        self.meta = meta
        self.calls = []

    def read(self, *args, **kwargs):
        self.calls.append((args, kwargs))
        return "read called"


for tr in ([0, 0, 1, 1], [0, 0, 0, 1], [0, 0, 3, 1], [2, 1, 2, 1], [0, 0, 0, 0], [1.0, 2.0, 2.0, 1.0], None, [1], "0011"):
    for typ in ("nidq", "ap", "lf", None, "obx"):
        for extra in ({}, {"imSampRate": 30000}, {"niSampRate": 30000}):
            meta = dict(typeThis=typ, snsMnMaXaDw=tr, **extra)
            fo, fn = FakeAnalog(dict(meta)), FakeAnalog(dict(meta))
            for args in ((), (slice(3, 9),), (None,)):
                ro = call(so.Reader.read_sync_analog, fo, *args)
                rn = call(sn.Reader.read_sync_analog, fn, *args)
                assert ro[0] == rn[0], (meta, ro, rn)
                assert ro[1:] == rn[1:], (meta, ro, rn)
                assert repr(fo.calls) == repr(fn.calls), (fo.calls, fn.calls)
                ncheck += 1
for meta in (None, {}, 0, [], so.Bunch()):
    fo, fn = FakeAnalog(meta), FakeAnalog(meta)
    ro, rn = call(so.Reader.read_sync_analog, fo), call(sn.Reader.read_sync_analog, fn)
    assert ro == rn == ("ok", None) and fo.calls == fn.calls == []
    ncheck += 1


# ---------------------------------------------------------------- readers on files
def write_meta(src, dst, ns, nc, fs=None, extra=None):
    extra = extra or {}
    lines = []
    with open(src) as fid:
        for line in fid.read().splitlines():
            key = line.split("=")[0]
            if key == "fileSizeBytes":
                line = f"fileSizeBytes={ns * nc * 2}"
            elif key == "fileTimeSecs":
                line = f"fileTimeSecs={ns / fs}"
            elif key in extra:
                line = f"{key}={extra[key]}"
            lines.append(line)
    with open(dst, "w") as fid:
        fid.write("\n".join(lines) + "\n")


def make_recording(tdir, name, meta_name, ns, nc, extra=None, sync_cols=(-1,)):
    bin_file = Path(tdir) / name
    md = so.read_meta_data(FIXTURES / meta_name)
    fs = so._get_fs_from_meta(md)
    write_meta(FIXTURES / meta_name, bin_file.with_suffix(".meta"), ns, nc, fs=fs, extra=extra)
    data = rng.integers(-32768, 32768, (ns, nc)).astype(np.int16)
    for c in sync_cols:
        # TTL event trains on a random subset of the 16 lines
        lines = rng.random((ns, 16)) < rng.random(16) * 0.2
        lines[:, rng.random(16) < 0.3] = False
        data[:, c] = (lines * (1 << np.arange(16))).sum(axis=1).astype(np.uint16).view(np.int16)
    data.tofile(bin_file)
    return bin_file, data


SLICES = [
    slice(0, 10000), slice(None), slice(0, 0), slice(5, 6), slice(10, 300, 3), slice(-50, None),
    slice(400, 100), slice(100000, 100010), [0, 5, 7], np.array([3, 1, 2]), [],
    np.array([], dtype=int), 7, -1, 100000, (slice(0, 4),), "a", None,
]


def compare_readers(sro, srn, label):
    for fname in ("read_sync_digital", "read_sync_analog", "read_sync"):
        compare_results(call(getattr(sro, fname)), call(getattr(srn, fname)), (label, fname, "default"))
        for sl in SLICES:
            compare_results(call(getattr(sro, fname), sl), call(getattr(srn, fname), sl), (label, fname, sl))
    for sl in SLICES[:12]:
        for thr, fp in ((1.2, 10), (0.0, 10), (2.5, 0), (-1.0, None), (1e9, 10)):
            compare_results(
                call(sro.read_sync, sl, threshold=thr, floor_percentile=fp),
                call(srn.read_sync, sl, threshold=thr, floor_percentile=fp), (label, "read_sync", sl, thr, fp))
        compare_results(call(sro.read, sl), call(srn.read, sl), (label, "read", sl))
        compare_results(call(sro.read, sl, [0]), call(srn.read, sl, [0]), (label, "read", sl))
    compare_results(call(sro.read_samples, 3, 40), call(srn.read_samples, 3, 40), (label, "read_samples"))
    compare_results(call(sro.__getitem__, slice(0, 20)), call(srn.__getitem__, slice(0, 20)), (label, "getitem"))


with tempfile.TemporaryDirectory(prefix="equiv3_", dir="/tmp/wt_C10_tmp") as tdir:
    recordings = []
    ns = 700
    recordings.append(("3B ap", *make_recording(
        tdir, "r3B_g0_t0.imec1.ap.bin", "sample3B_g0_t0.imec1.ap.meta", ns, 385)))
    recordings.append(("3B lf", *make_recording(
        tdir, "r3B_g0_t0.imec1.lf.bin", "sample3B_g0_t0.imec1.lf.meta", ns, 385)))
    recordings.append(("3A ap", *make_recording(
        tdir, "r3A_g0_t0.imec.ap.bin", "sample3A_g0_t0.imec.ap.meta", ns, 385)))
    recordings.append(("NP2.4", *make_recording(
        tdir, "rNP24_g0_t0.imec.ap.bin", "sampleNP2.4_4shanks_g0_t0.imec.ap.meta", ns, 385)))
    recordings.append(("nidq 1a1d", *make_recording(
        tdir, "n1_g0_t0.nidq.bin", "sample3B_g0_t0.nidq.meta", ns, 2)))
    recordings.append(("nidq 3a1d", *make_recording(
        tdir, "n2_g0_t0.nidq.bin", "sample3B_g0_t0.nidq.meta", ns, 4,
        extra={"snsMnMaXaDw": "0,0,3,1", "acqMnMaXaDw": "0,0,3,1", "nSavedChans": "4"})))
    recordings.append(("nidq 2mn1ma2a1d", *make_recording(
        tdir, "n3_g0_t0.nidq.bin", "sample3B_g0_t0.nidq.meta", ns, 6,
        extra={"snsMnMaXaDw": "2,1,2,1", "acqMnMaXaDw": "2,1,2,1", "nSavedChans": "6"})))
    recordings.append(("nidq 0a1d", *make_recording(
        tdir, "n4_g0_t0.nidq.bin", "sample3B_g0_t0.nidq.meta", ns, 1,
        extra={"snsMnMaXaDw": "0,0,0,1", "acqMnMaXaDw": "0,0,0,1", "nSavedChans": "1"})))
    recordings.append(("nidq 1a2d", *make_recording(
        tdir, "n5_g0_t0.nidq.bin", "sample3B_g0_t0.nidq.meta", ns, 3,
        extra={"snsMnMaXaDw": "0,0,1,2", "acqMnMaXaDw": "0,0,1,2", "nSavedChans": "3"}, sync_cols=(-1, -2))))

    for label, bin_file, data in recordings:
        sro, srn = so.Reader(bin_file), sn.Reader(bin_file)
        assert type(sro).__module__ == "spikeglx" and type(sro) is not type(srn)
        # the digital lines are those written in the file: line k is bit k of the word
        if srn.nsync == 1:
            w = data[:, -1].view(np.uint16)
            np.testing.assert_array_equal(
                srn.read_sync_digital(slice(None)), ((w[:, None] >> np.arange(16)[None, :]) & 1).astype(np.int8))
        compare_readers(sro, srn, label)
        sro.close(), srn.close()
        # reader not opened: IOError
        sro, srn = so.Reader(bin_file, open=False), sn.Reader(bin_file, open=False)
        compare_readers(sro, srn, label + " closed")

    # reader without meta-data file: 385 channels raw file, and explicit parameters
    bin_file = Path(tdir) / "nometa.bin"
    rng.integers(-32768, 32768, (ns, 385)).astype(np.int16).tofile(bin_file)
    sro, srn = so.Reader(bin_file), sn.Reader(bin_file)
    assert sro.meta is None and srn.meta is None
    compare_readers(sro, srn, "nometa")
    sro.close(), srn.close()
    sro, srn = (m.Reader(bin_file, nc=385, ns=ns, fs=2500, nsync=1, dtype="int16") for m in (so, sn))
    compare_readers(sro, srn, "nometa explicit")
    sro.close(), srn.close()

    # mtscomp compressed file
    label, bin_file, data = recordings[0]
    cdir = Path(tdir) / "cbin"
    cdir.mkdir()
    shutil.copy(bin_file, cdir / bin_file.name)
    shutil.copy(bin_file.with_suffix(".meta"), cdir / bin_file.with_suffix(".meta").name)
    sr = so.Reader(cdir / bin_file.name)
    cbin = sr.compress_file(keep_original=False, chunk_duration=0.01)
    sr.close()
    sro, srn = so.Reader(cbin), sn.Reader(cbin)
    assert sro.is_mtscomp and srn.is_mtscomp
    for fname in ("read_sync_digital", "read_sync_analog", "read_sync"):
        for sl in (slice(0, 10000), slice(None), slice(0, 0), slice(5, 6), slice(10, 300), slice(400, 100)):
            compare_results(call(getattr(sro, fname), sl), call(getattr(srn, fname), sl), ("cbin", fname, sl))
    compare_results(call(sro.read, slice(20, 220)), call(srn.read, slice(20, 220)), ("cbin", "read"))
    sro.close(), srn.close()

print(f"{ncheck} comparisons")
print("EQUIVALENT")
