import sys, os; sys.path.insert(0, os.path.join(os.path.dirname(os.path.abspath(__file__)), "src"))
"""
Differential equivalence check for the C10 housekeeping change (sync words -> TTL lines, fronts).

The module carries verbatim copies of the ORIGINAL implementations of every function touched by the patch
(`ref_*` below) and compares them, on several hundred seeded inputs, with the functions imported from the
sources next to this file: same type, dtype, shape, memory layout flags, values, warnings and exception types.
Exits 0 when everything is identical, 1 with a message otherwise.
"""
import copy
import inspect
import logging
import tempfile
import warnings
from pathlib import Path

import numpy as np

import spikeglx
import ibldsp.utils as utils

HERE = Path(os.path.dirname(os.path.abspath(__file__)))
FIXTURES = HERE / "src" / "tests" / "fixtures"

# ---------------------------------------------------------------------------------------------------------
# Reference implementations: verbatim copies of the original code (methods take the reader as `self`,
# intra-module calls are routed to the reference copies / to the unchanged private helpers of spikeglx)
# ---------------------------------------------------------------------------------------------------------
_logger = spikeglx._logger
_get_sync_trace_indices_from_meta = spikeglx._get_sync_trace_indices_from_meta
_get_analog_sync_trace_indices_from_meta = spikeglx._get_analog_sync_trace_indices_from_meta


def ref_split_sync(sync_tr):
    """
    The synchronization channels are stored as single bits, this will split the int16 original
    channel into 16 single bits channels

    :param sync_tr: numpy vector: samples of synchronisation trace
    :return: int8 numpy array of 16 channels, 1 column per sync trace
    """
    sync_tr = np.int16(np.copy(sync_tr))
    out = np.unpackbits(sync_tr.view(np.uint8)).reshape(sync_tr.size, 16)
    out = np.flip(np.roll(out, 8, axis=1), axis=1)
    return np.int8(out)


def ref_read_sync_digital(self, _slice=slice(0, 10000)):
    """
    Reads only the digital sync trace at specified samples using slicing syntax
    >>> sync_samples = sr.read_sync_digital(slice(0,10000))
    """
    if not self.is_open:
        raise IOError("Reader not open; call `open` before `read`")
    if not self.meta:
        _logger.warning("Sync trace not labeled in metadata. Assuming last trace")
    return ref_split_sync(
        self._raw[_slice, _get_sync_trace_indices_from_meta(self.meta)]
    )


def ref_read_sync_analog(self, _slice=slice(0, 10000)):
    """
    Reads only the analog sync traces at specified samples using slicing syntax
    >>> sync_samples = sr.read_sync_analog(slice(0,10000))
    """
    if not self.meta:
        return
    csel = _get_analog_sync_trace_indices_from_meta(self.meta)
    if not csel:
        return
    else:
        return self.read(nsel=_slice, csel=csel, sync=False)


def ref_read_sync(self, _slice=slice(0, 10000), threshold=1.2, floor_percentile=10):
    """
    Reads all sync trace. Convert analog to digital with selected threshold and append to array
    :param _slice: samples slice
    :param threshold: (V) threshold for front detection, defaults to 1.2 V
    :param floor_percentile: 10% removes the percentile value of the analog trace before
     thresholding. This is to avoid DC offset drift
    :return: int8 array
    """
    digital = ref_read_sync_digital(self, _slice)
    analog = ref_read_sync_analog(self, _slice)
    if analog is not None and floor_percentile:
        analog -= np.percentile(analog, 10, axis=0)
    if analog is None:
        return digital
    analog[np.where(analog < threshold)] = 0
    analog[np.where(analog >= threshold)] = 1
    return np.concatenate((digital, np.int8(analog)), axis=1)


def ref_fronts(x, axis=-1, step=1):
    """
    Detects Rising and Falling edges of a voltage signal, returns indices and

    :param x: array on which to compute RMS
    :param axis: (optional, -1) negative value
    :param step: (optional, 1) value of the step to detect
    :return: numpy array of indices, numpy array of rises (1) and falls (-1)
    """
    d = np.diff(x, axis=axis)
    ind = np.array(np.where(np.abs(d) >= step))
    sign = d[tuple(ind)]
    ind[axis] += 1
    if len(ind) == 1:
        return ind[0], sign
    else:
        return ind, sign


def ref_falls(x, axis=-1, step=-1, analog=False):
    """
    Detects Falling edges of a voltage signal, returns indices

    :param x: array on which to compute RMS
    :param axis: (optional, -1) negative value
    :param step: (optional, -1) value of the step to detect
    :param analog: (optional, False) in case the signal is analog, converts the voltage to boolean (> step) before
     detecting edges
    :return: numpy array
    """
    return ref_rises(-x, axis=axis, step=-step, analog=analog)


def ref_rises(x, axis=-1, step=1, analog=False):
    """
    Detect Rising edges of a voltage signal, returns indices

    :param x: array on which to compute RMS
    :param axis: (optional, -1)
    :param step: (optional, 1) amplitude of the step to detect
    :param analog: (optional, False) in case the signal is analog, converts the voltage to boolean (> step) before
     detecting edges
    :return: numpy array
    """
    if analog:
        x = (x > step).astype(np.float64)
        step = 1
    ind = np.array(np.where(np.diff(x, axis=axis) >= step))
    ind[axis] += 1
    if len(ind) == 1:
        return ind[0]
    else:
        return ind


# ---------------------------------------------------------------------------------------------------------
# Comparison machinery
# ---------------------------------------------------------------------------------------------------------
FAILURES = []
COUNTS = {}
COUNTS_RAISE = {}  # comparisons in which both implementations raise


def _same(a, b, path="result"):
    """Returns None if a and b are identical, a message otherwise"""
    if type(a) is not type(b):
        return f"{path}: type {type(a).__name__} != {type(b).__name__}"
    if isinstance(a, (tuple, list)):
        if len(a) != len(b):
            return f"{path}: length {len(a)} != {len(b)}"
        for i, (ea, eb) in enumerate(zip(a, b)):
            msg = _same(ea, eb, f"{path}[{i}]")
            if msg:
                return msg
        return None
    if isinstance(a, np.ndarray):
        if a.dtype != b.dtype:
            return f"{path}: dtype {a.dtype} != {b.dtype}"
        if a.shape != b.shape:
            return f"{path}: shape {a.shape} != {b.shape}"
        if (a.flags.c_contiguous, a.flags.f_contiguous) != (b.flags.c_contiguous, b.flags.f_contiguous):
            return f"{path}: memory layout differs"
        if a.flags.writeable != b.flags.writeable:
            return f"{path}: writeable flag differs"
        equal_nan = a.dtype.kind in "fc"
        if not np.array_equal(a, b, equal_nan=equal_nan):
            return f"{path}: values differ"
        if a.tobytes() != b.tobytes():
            return f"{path}: bytes differ"
        return None
    if isinstance(a, np.generic):
        if a.dtype != b.dtype or a.tobytes() != b.tobytes():
            return f"{path}: scalars differ"
        return None
    if a is None:
        return None
    if a != b and not (isinstance(a, float) and a != a and b != b):
        return f"{path}: {a!r} != {b!r}"
    return None


def _run(fcn, args, kwargs):
    """Calls fcn on private copies of the inputs, returns (outcome, warnings categories, inputs after the call)"""
    args = copy.deepcopy(args)
    kwargs = copy.deepcopy(kwargs)
    with warnings.catch_warnings(record=True) as wlist:
        warnings.simplefilter("always")
        with np.errstate(all="warn"):
            try:
                out = ("ok", fcn(*args, **kwargs))
            except Exception as e:  # noqa
                out = ("raise", type(e))
    return out, sorted(w.category.__name__ for w in wlist), (args, kwargs)


def check(label, new, ref, *args, pre=(), **kwargs):
    """
    Runs the refactored and the reference function on the same inputs and records any difference
    :param pre: leading arguments that are not copied (the reader instance)
    """
    COUNTS[label] = COUNTS.get(label, 0) + 1
    onew, wnew, inew = _run(lambda *a, **k: new(*pre, *a, **k), args, kwargs)
    oref, wref, iref = _run(lambda *a, **k: ref(*pre, *a, **k), args, kwargs)
    desc = f"{label} args={_describe(args)} kwargs={_describe(kwargs)}"
    if onew[0] != oref[0]:
        FAILURES.append(f"{desc}: outcome {onew} != reference {oref}")
        return
    if onew[0] == "raise":
        COUNTS_RAISE[label] = COUNTS_RAISE.get(label, 0) + 1
        if onew[1] is not oref[1]:
            FAILURES.append(f"{desc}: raises {onew[1].__name__}, reference raises {oref[1].__name__}")
        return
    msg = _same(onew[1], oref[1])
    if msg:
        FAILURES.append(f"{desc}: {msg}")
    if wnew != wref:
        FAILURES.append(f"{desc}: warnings {wnew} != reference {wref}")
    msg = _same(list(inew[0]), list(iref[0]), "inputs after call")
    if msg:
        FAILURES.append(f"{desc}: {msg}")


def _describe(obj):
    if isinstance(obj, np.ndarray):
        return f"array({obj.dtype}, {obj.shape})"
    if isinstance(obj, (tuple, list)) and len(obj) < 8:
        return "(" + ", ".join(_describe(o) for o in obj) + ")"
    if isinstance(obj, dict):
        return "{" + ", ".join(f"{k}={_describe(v)}" for k, v in obj.items()) + "}"
    r = repr(obj)
    return r if len(r) < 60 else r[:57] + "..."


# ---------------------------------------------------------------------------------------------------------
# split_sync
# ---------------------------------------------------------------------------------------------------------
def check_split_sync(rng):
    label = "split_sync"
    all_words = np.arange(-32768, 32768, dtype=np.int32)
    # exhaustive over the 65536 sync words, under the spellings a caller may hold them in
    check(label, spikeglx.split_sync, ref_split_sync, all_words.astype(np.int16))
    check(label, spikeglx.split_sync, ref_split_sync, np.arange(65536, dtype=np.uint16))
    check(label, spikeglx.split_sync, ref_split_sync, np.arange(65536, dtype=np.uint16).view(np.int16))
    check(label, spikeglx.split_sync, ref_split_sync, all_words)
    check(label, spikeglx.split_sync, ref_split_sync, all_words.astype(np.int64)[:, np.newaxis])
    check(label, spikeglx.split_sync, ref_split_sync, all_words.astype(np.float64))
    check(label, spikeglx.split_sync, ref_split_sync, rng.permutation(all_words).astype(np.int16))
    # edge cases
    for x in (
        np.array([], dtype=np.int16), np.zeros((0, 1), dtype=np.int16), np.array([1], dtype=np.int16),
        np.array(5), np.int16(-1), 7, [0, 1, 2, 4, 8, -32768, 32767], [[1], [2], [3]], (1, 2), [],
        [70000, -70000, 65535, 65536], np.array([np.nan, np.inf, -np.inf, 1.5, -1.5, 1e9]), [True, False],
        np.array([1, 2, 3], dtype=np.uint8), np.array(["1", "2"]), np.array([1 + 2j]), None, "a",
        np.array([1, None, 3], dtype=object), np.ma.masked_array([1, 2, 3], mask=[0, 1, 0], dtype=np.int16),
    ):
        check(label, spikeglx.split_sync, ref_split_sync, x)
    dtypes = [np.int16, np.uint16, np.int32, np.int64, np.uint8, np.int8, np.float32, np.float64, bool, np.uint64]
    for i in range(160):
        dtype = dtypes[i % len(dtypes)]
        n = int(rng.choice([1, 2, 3, 16, 17, 100, 1000]))
        x = rng.integers(-32768, 32768, size=n * 4).astype(dtype)
        layout = i % 8
        if layout == 0:
            x = x[:n]
        elif layout == 1:
            x = x[:n, np.newaxis]  # the shape the reader hands over for a single sync trace
        elif layout == 2:
            x = x.reshape(n * 2, 2)
        elif layout == 3:
            x = np.asfortranarray(x.reshape(n * 2, 2))
        elif layout == 4:
            x = x[::2]
        elif layout == 5:
            x = x[::-1]
        elif layout == 6:
            x = x.reshape(n, 4)[:, [3]]  # fancy indexed column
        elif layout == 7:
            x = x.reshape(n, 2, 2)
        check(label, spikeglx.split_sync, ref_split_sync, x)


# ---------------------------------------------------------------------------------------------------------
# fronts, rises, falls
# ---------------------------------------------------------------------------------------------------------
def check_fronts(rng):
    triples = (
        ("fronts", utils.fronts, ref_fronts),
        ("rises", utils.rises, ref_rises),
        ("falls", utils.falls, ref_falls),
    )

    def check_all(x, **kwargs):
        for label, new, ref in triples:
            if label == "fronts" and "analog" in kwargs:
                continue
            check(label, new, ref, x, **kwargs)

    # event trains written on a subset of the 16 lines of a sync word, decoded then front-detected
    for i in range(40):
        ns = int(rng.choice([2, 3, 10, 257, 2000]))
        lines = rng.choice(16, size=int(rng.integers(1, 17)), replace=False)
        bits = np.zeros((ns, 16), dtype=np.int64)
        bits[:, lines] = rng.random((ns, lines.size)) < rng.choice([0.02, 0.5, 0.9])
        words = (bits << np.arange(16)).sum(axis=1).astype(np.uint16).view(np.int16)
        sync = ref_split_sync(words)
        assert np.array_equal(sync, bits)
        check_all(sync, axis=0)
        check_all(sync.T)
        check_all(sync.T, axis=-1, step=1)
        check_all(sync[:, lines[0]])
        check_all(sync, axis=1)
    # varied dtypes, dimensions, axes and steps
    dtypes = [np.int8, np.int16, np.int32, np.int64, np.float32, np.float64, np.uint8, bool, np.uint16]
    steps = [1, 0.5, 2, -1, 0, 1.0, np.float32(0.3), 3]
    for i in range(180):
        dtype = dtypes[i % len(dtypes)]
        ndim = 1 + i % 3
        shape = tuple(int(s) for s in rng.choice([1, 2, 5, 40], size=ndim))
        kind = i % 4
        if kind == 0:
            x = (rng.random(shape) < 0.5).astype(dtype)
        elif kind == 1:
            x = rng.integers(-3, 4, size=shape).astype(dtype)
        elif kind == 2:
            x = (rng.normal(size=shape) * 2).astype(dtype)
        else:
            x = np.zeros(shape, dtype=dtype)
        axis = int(rng.integers(-ndim, ndim))
        kwargs = {}
        if i % 5:
            kwargs["axis"] = axis
        if i % 3:
            kwargs["step"] = steps[i % len(steps)]
        if i % 7 == 0:
            kwargs["analog"] = bool(i % 2)
        check_all(x, **kwargs)
    # analog traces around the threshold
    for i in range(60):
        ns = int(rng.choice([2, 50, 3000]))
        thr = float(rng.choice([1.2, 0.0, 2.5, -1.0]))
        tr = thr + rng.choice([1e-7, 1e-3, 1.0]) * rng.normal(size=(ns, 1 + i % 3))
        tr[rng.random(tr.shape) < 0.1] = thr  # samples exactly on the threshold
        if i % 2:
            tr = tr.astype(np.float32)
        for label, new, ref in triples[1:]:
            check(label, new, ref, tr, axis=0, step=thr, analog=True)
            check(label, new, ref, tr.T, step=thr, analog=True)
            check(label, new, ref, tr[:, 0], step=thr, analog=True)
            check(label, new, ref, tr[:, 0], step=thr, analog=False)
    # edge cases and inadmissible inputs: same exception types
    for x, kwargs in (
        (np.array([]), {}), (np.array([1]), {}), (np.zeros((0, 4)), {"axis": 0}), (np.zeros((4, 0)), {"axis": 0}),
        (np.array(3), {}), ([0, 1, 0, 1], {}), ([0, 1, 0, 1], {"analog": True}), ([[0, 1], [1, 0]], {"axis": 0}),
        (np.eye(4), {"axis": 2}), (np.eye(4), {"axis": -3}), (np.eye(4), {"axis": None}), (np.eye(4), {"axis": 1.0}),
        (np.eye(4), {"step": None}), (np.eye(4), {"step": np.array([1, 2, 3])}), (None, {}), ("abc", {}),
        (np.array([0, np.nan, 1, np.inf, -np.inf, 0]), {}), (np.array([0, 1, 0], dtype=object), {}),
        (np.ma.masked_array([0, 1, 0, 1, 1, 0], mask=[0, 0, 1, 0, 0, 0]), {}),
        (np.array([0, 1, 0, 1], dtype=np.uint8), {"step": -1}), (np.array([True, False, True]), {"analog": True}),
        (np.array([0, 1 + 1j, 0]), {}),
    ):
        check_all(x, **kwargs)


# ---------------------------------------------------------------------------------------------------------
# Reader.read_sync, read_sync_digital, read_sync_analog
# ---------------------------------------------------------------------------------------------------------
def _write_recording(folder, name, meta_template, data, replacements, fs):
    """Writes a SpikeGLX binary file and its meta data file, from one of the meta data fixtures"""
    ns, nc = data.shape
    replacements = dict(replacements, fileSizeBytes=ns * nc * 2, fileTimeSecs=repr(ns / fs), nSavedChans=nc)
    lines = []
    for line in (FIXTURES / meta_template).read_text().splitlines():
        key = line.split("=", maxsplit=1)[0]
        lines.append(f"{key}={replacements[key]}" if key in replacements else line)
    bin_file = Path(folder) / name
    bin_file.with_suffix(".meta").write_text("\n".join(lines) + "\n")
    data.tofile(bin_file)
    return bin_file


def _make_readers(folder, rng):
    readers = {}
    fs_nidq = 30003.0003

    def nidq(name, mnmaxadw, ns):
        nc = sum(mnmaxadw)
        data = rng.integers(-32768, 32768, size=(ns, nc)).astype(np.int16)
        # analog channels: square-ish pulses with noise and a DC offset, in int16 samples (5 V full scale)
        for ic in range(nc - 1):
            pulses = (np.floor(np.arange(ns) / (7 + 13 * ic)) % 2) * rng.choice([9000, 16000, 30000])
            data[:, ic] = np.clip(pulses + rng.normal(size=ns) * 1500 + rng.integers(-3000, 3000), -32768, 32767)
        txt = ",".join(str(v) for v in mnmaxadw)
        bin_file = _write_recording(
            folder, f"{name}_g0_t0.nidq.bin", "sample3B_g0_t0.nidq.meta", data,
            dict(snsMnMaXaDw=txt, acqMnMaXaDw=txt), fs_nidq)
        return spikeglx.Reader(bin_file)

    readers["nidq_1xa"] = nidq("one", (0, 0, 1, 1), 12000)
    readers["nidq_3xa"] = nidq("three", (0, 0, 3, 1), 3000)
    readers["nidq_0xa"] = nidq("none", (0, 0, 0, 1), 2500)
    readers["nidq_mn_ma_xa"] = nidq("mixed", (2, 1, 2, 1), 1500)
    readers["nidq_short"] = nidq("short", (0, 0, 2, 1), 4)
    # imec ap file: 384 channels + 1 sync trace, no analog sync
    data = rng.integers(-32768, 32768, size=(600, 385)).astype(np.int16)
    bin_file = _write_recording(folder, "probe_g0_t0.imec1.ap.bin", "sample3B_g0_t0.imec1.ap.meta", data, {}, 30000.0)
    readers["imec_ap"] = spikeglx.Reader(bin_file)
    # same recording, compressed with mtscomp
    bin_file = _write_recording(folder, "comp_g0_t0.nidq.bin", "sample3B_g0_t0.nidq.meta",
                                readers["nidq_1xa"]._raw[:4000, :].copy(), {}, fs_nidq)
    sr = spikeglx.Reader(bin_file)
    try:
        sr.compress_file(keep_original=False)
        readers["nidq_cbin"] = sr
    except Exception as e:  # noqa  optional: the compressed flavour is skipped if mtscomp cannot run here
        print(f"demo: compressed reader skipped ({type(e).__name__}: {e})")
        sr.close()
    # reader that is not open
    bin_file = _write_recording(folder, "closed_g0_t0.nidq.bin", "sample3B_g0_t0.nidq.meta",
                                readers["nidq_1xa"]._raw[:100, :].copy(), {}, fs_nidq)
    readers["nidq_closed"] = spikeglx.Reader(bin_file, open=False)
    # flat binary file without meta data
    flat = Path(folder) / "flat.bin"
    rng.integers(-32768, 32768, size=(200, 385)).astype(np.int16).tofile(flat)
    readers["flat_no_meta"] = spikeglx.Reader(flat, nc=385, ns=200, fs=30000)
    return readers


def check_reader(rng):
    cls = spikeglx.Reader
    for name, ref in (("read_sync", ref_read_sync), ("read_sync_digital", ref_read_sync_digital),
                      ("read_sync_analog", ref_read_sync_analog)):
        pnew = inspect.signature(getattr(cls, name)).parameters
        pref = inspect.signature(ref).parameters
        COUNTS["signatures"] = COUNTS.get("signatures", 0) + 1
        if list(pnew) != list(pref) or any(pnew[k].default != pref[k].default or pnew[k].kind != pref[k].kind
                                           for k in pref):
            FAILURES.append(f"signature of Reader.{name}: {pnew} != {pref}")
    with tempfile.TemporaryDirectory() as folder:
        readers = _make_readers(folder, rng)
        try:
            for rname, sr in readers.items():
                ns = sr.ns
                slices = [
                    slice(0, 10000), slice(None), slice(0, ns), slice(1, 2), slice(5, 5), slice(ns // 2, None),
                    slice(None, None, 3), slice(-50, None), slice(None, None, -1), slice(ns - 1, ns + 100),
                    slice(ns + 10, ns + 20), 0, -1, ns + 5, np.arange(0, min(ns, 40), 2), [1, 0, 2], np.array([], dtype=int),
                    np.zeros(ns, dtype=bool), Ellipsis, None, "a", slice(0.5, 3),
                ]
                for _ in range(8):
                    a, b = np.sort(rng.integers(0, ns + 1, size=2))
                    slices.append(slice(int(a), int(b)))
                for sl in slices:
                    check(f"read_sync_digital[{rname}]", cls.read_sync_digital, ref_read_sync_digital, sl, pre=(sr,))
                    check(f"read_sync_analog[{rname}]", cls.read_sync_analog, ref_read_sync_analog, sl, pre=(sr,))
                    check(f"read_sync[{rname}]", cls.read_sync, ref_read_sync, sl, pre=(sr,))
                    check(f"read_sync[{rname}]", cls.read_sync, ref_read_sync, _slice=sl, pre=(sr,))
                # no argument: the defaults
                check(f"read_sync_digital[{rname}]", cls.read_sync_digital, ref_read_sync_digital, pre=(sr,))
                check(f"read_sync_analog[{rname}]", cls.read_sync_analog, ref_read_sync_analog, pre=(sr,))
                check(f"read_sync[{rname}]", cls.read_sync, ref_read_sync, pre=(sr,))
                # thresholds and floor percentiles
                thresholds = [1.2, 0, 0.0, -1, -0.2, 2.5, 0.3, 4.9, 100, np.float32(1.2), np.float64(0.7), np.nan,
                              None, "a", np.array([1.2]), np.array([0.5, 1.5, 2.5]), np.array([0.5, 1.5])]
                floors = [10, 0, None, 50, False, True, 10.0, np.array([1, 2]), "x"]
                for i, thr in enumerate(thresholds):
                    for j, floor in enumerate(floors):
                        sl = slices[(i * len(floors) + j) % 11]
                        check(f"read_sync[{rname}]", cls.read_sync, ref_read_sync, sl, thr, floor, pre=(sr,))
                        check(f"read_sync[{rname}]", cls.read_sync, ref_read_sync,
                              sl, threshold=thr, floor_percentile=floor, pre=(sr,))
                # through Reader.read(sync=True), which calls read_sync
                for sl in slices[:8]:
                    check(f"read(sync=True)[{rname}]", lambda s, n: s.read(n, sync=True)[1], ref_read_sync, sl, pre=(sr,))
        finally:
            for sr in readers.values():
                try:
                    sr.close()
                except Exception:  # noqa
                    pass


def main():
    logging.getLogger("ibllib").setLevel(logging.CRITICAL)  # the reader warns when there is no meta data
    rng = np.random.default_rng(20241004)
    check_split_sync(rng)
    check_fronts(rng)
    check_reader(rng)
    total = sum(COUNTS.values())
    groups = {}
    for k, v in COUNTS.items():
        groups[k.split("[")[0]] = groups.get(k.split("[")[0], 0) + v
    print(f"demo: in {sum(COUNTS_RAISE.values())} of them both implementations raise the same exception type")
    print(f"demo: {total} comparisons ({', '.join(f'{k}: {v}' for k, v in groups.items())})")
    if FAILURES:
        print(f"demo: {len(FAILURES)} DIFFERENCES between the sources and the reference implementations")
        for msg in FAILURES[:25]:
            print("  - " + msg)
        return 1
    print("demo: all results identical to the reference implementations")
    return 0


if __name__ == "__main__":
    sys.exit(main())
