import sys, os; sys.path.insert(0, os.path.join(os.path.dirname(os.path.abspath(__file__)), "src"))
"""
Differential equivalence check for the C10 performance clean-up (sync word decoding, sync reading, fronts).

The functions of the worktree (spikeglx.split_sync, spikeglx.Reader.read_sync, ibldsp.utils.fronts / rises / falls)
are compared with verbatim copies of the ORIGINAL implementations kept below (ref_*), on several hundred seeded
random and edge-case inputs.  Results must be identical bit for bit: type, dtype, shape, bytes, memory flags that
matter to a caller (writeable, C-contiguity), the exception type when one is raised, and the warnings emitted.
Exit status 0 when everything is identical, 1 with a message otherwise.
"""
import logging
import shutil
import tempfile
import time
import warnings
from pathlib import Path

import numpy as np

import spikeglx
import ibldsp.utils as utils

logging.getLogger("ibllib").setLevel(logging.CRITICAL)
logging.getLogger(spikeglx.__name__).setLevel(logging.CRITICAL)
spikeglx._logger.setLevel(logging.CRITICAL)


# ----------------------------------------------------------------------------------------------------------------
# verbatim copies of the original implementations
# ----------------------------------------------------------------------------------------------------------------
def ref_split_sync(sync_tr):
    sync_tr = np.int16(np.copy(sync_tr))
    out = np.unpackbits(sync_tr.view(np.uint8)).reshape(sync_tr.size, 16)
    out = np.flip(np.roll(out, 8, axis=1), axis=1)
    return np.int8(out)


def ref_read_sync_digital(self, _slice=slice(0, 10000)):
    # original body of Reader.read_sync_digital (unchanged by the patch), routed to the reference split_sync
    if not self.is_open:
        raise IOError("Reader not open; call `open` before `read`")
    if not self.meta:
        spikeglx._logger.warning("Sync trace not labeled in metadata. Assuming last trace")
    return ref_split_sync(
        self._raw[_slice, spikeglx._get_sync_trace_indices_from_meta(self.meta)]
    )


def ref_read_sync(self, _slice=slice(0, 10000), threshold=1.2, floor_percentile=10):
    digital = ref_read_sync_digital(self, _slice)
    analog = self.read_sync_analog(_slice)
    if analog is not None and floor_percentile:
        analog -= np.percentile(analog, 10, axis=0)
    if analog is None:
        return digital
    analog[np.where(analog < threshold)] = 0
    analog[np.where(analog >= threshold)] = 1
    return np.concatenate((digital, np.int8(analog)), axis=1)


def ref_fronts(x, axis=-1, step=1):
    d = np.diff(x, axis=axis)
    ind = np.array(np.where(np.abs(d) >= step))
    sign = d[tuple(ind)]
    ind[axis] += 1
    if len(ind) == 1:
        return ind[0], sign
    else:
        return ind, sign


def ref_falls(x, axis=-1, step=-1, analog=False):
    return ref_rises(-x, axis=axis, step=-step, analog=analog)


def ref_rises(x, axis=-1, step=1, analog=False):
    if analog:
        x = (x > step).astype(np.float64)
        step = 1
    ind = np.array(np.where(np.diff(x, axis=axis) >= step))
    ind[axis] += 1
    if len(ind) == 1:
        return ind[0]
    else:
        return ind


# ----------------------------------------------------------------------------------------------------------------
# comparison machinery
# ----------------------------------------------------------------------------------------------------------------
FAILURES = []
COUNTS = {}


def _run(fcn, args, kwargs):
    """returns (outcome, warnings) where outcome is ('ok', value) or ('exc', exception type)"""
    with warnings.catch_warnings(record=True) as wlist:
        warnings.simplefilter("always")
        try:
            out = ("ok", fcn(*args, **kwargs))
        except Exception as e:  # noqa
            out = ("exc", type(e))
    return out, sorted((w.category.__name__, str(w.message)) for w in wlist)


def _same(a, b, path="result"):
    """None if a and b are identical, a description of the first difference otherwise"""
    if type(a) is not type(b):
        return f"{path}: type {type(a)} != {type(b)}"
    if isinstance(a, (tuple, list)):
        if len(a) != len(b):
            return f"{path}: length {len(a)} != {len(b)}"
        for i, (ai, bi) in enumerate(zip(a, b)):
            msg = _same(ai, bi, f"{path}[{i}]")
            if msg:
                return msg
        return None
    if a is None:
        return None
    if isinstance(a, np.ndarray):
        if a.dtype != b.dtype:
            return f"{path}: dtype {a.dtype} != {b.dtype}"
        if a.shape != b.shape:
            return f"{path}: shape {a.shape} != {b.shape}"
        if not np.array_equal(a, b, equal_nan=a.dtype.kind in "fc"):
            return f"{path}: values differ"
        if a.tobytes() != b.tobytes():
            return f"{path}: bytes differ"
        if a.flags.writeable != b.flags.writeable:
            return f"{path}: writeable flag {a.flags.writeable} != {b.flags.writeable}"
        if a.flags.c_contiguous != b.flags.c_contiguous:
            return f"{path}: c_contiguous flag {a.flags.c_contiguous} != {b.flags.c_contiguous}"
        return None
    if a != b:
        return f"{path}: {a!r} != {b!r}"
    return None


def check(group, label, new, ref, make_args, kwargs=None, post=None):
    """
    Calls new and ref on independently built, identical arguments and compares outcomes, warnings and
    the state of the arguments afterwards (none of the functions may modify its input)
    """
    kwargs = kwargs or {}
    COUNTS[group] = COUNTS.get(group, 0) + 1
    args_new, args_ref, args_ori = make_args(), make_args(), make_args()
    (kind_new, val_new), w_new = _run(new, args_new, kwargs)
    (kind_ref, val_ref), w_ref = _run(ref, args_ref, kwargs)
    msg = None
    if kind_new != kind_ref:
        msg = f"outcome {kind_new} ({val_new!r:.80}) != {kind_ref} ({val_ref!r:.80})"
    elif kind_new == "exc":
        if val_new is not val_ref:
            msg = f"exception {val_new.__name__} != {val_ref.__name__}"
    else:
        msg = _same(val_new, val_ref)
        if msg is None and post is not None:
            msg = post(val_new, args_new)
    if msg is None and w_new != w_ref:
        msg = f"warnings {w_new} != {w_ref}"
    if msg is None:
        for i, (an, ao) in enumerate(zip(args_new, args_ori)):
            if isinstance(ao, np.ndarray) and _same(np.asarray(an), np.asarray(ao)):
                msg = f"argument {i} was modified"
    if msg:
        FAILURES.append(f"[{group}] {label}: {msg}")


# ----------------------------------------------------------------------------------------------------------------
# split_sync
# ----------------------------------------------------------------------------------------------------------------
def _no_alias(out, args):
    if isinstance(args[0], np.ndarray) and np.shares_memory(out, args[0]):
        return "output shares memory with the input"
    out[...] = 1  # the output must be writeable without touching the input (checked by the caller)
    return None


def check_split_sync(rng, tmpdir):
    g = "split_sync"
    # all 65536 words, against the reference and against the property itself: column k is bit k of the word
    words = np.arange(-32768, 32768, dtype=np.int16)
    check(g, "exhaustive int16", spikeglx.split_sync, ref_split_sync, lambda: (words.copy(),), post=_no_alias)
    out = spikeglx.split_sync(words)
    expected = ((words.astype(np.int64)[:, np.newaxis] & 0xFFFF) >> np.arange(16)) & 1
    if not np.array_equal(out, expected) or out.dtype != np.int8:
        FAILURES.append(f"[{g}] property: column k is not bit k of the word")
    check(g, "exhaustive uint16", spikeglx.split_sync, ref_split_sync,
          lambda: (np.arange(65536, dtype=np.uint16),), post=_no_alias)
    check(g, "exhaustive int32 range", spikeglx.split_sync, ref_split_sync,
          lambda: (np.arange(-70000, 70000, dtype=np.int32),), post=_no_alias)

    dtypes = [np.int16, np.int16, np.int16, np.uint16, np.int8, np.uint8, np.int32, np.int64, np.uint64,
              np.float32, np.float64, np.bool_, ">i2", ">u2", "<i2"]
    shapes = [(0,), (1,), (2,), (7,), (64,), (1001,), (0, 1), (1, 1), (33, 1), (500, 1), (12, 2), (1, 5), (4, 3, 2),
              (5, 0)]
    for i in range(260):
        dt = np.dtype(dtypes[i % len(dtypes)])
        shape = shapes[rng.integers(len(shapes))]
        layout = ["c", "c", "column", "strided", "reversed", "fortran", "transposed", "readonly", "list", "memmap"][i % 10]
        seed = int(rng.integers(2 ** 31))

        def make(dt=dt, shape=shape, layout=layout, seed=seed):
            r = np.random.default_rng(seed)
            if dt.kind == "f":
                a = (r.uniform(-40000, 40000, size=shape)).astype(dt)
            elif dt.kind == "b":
                a = r.integers(0, 2, size=shape).astype(dt)
            else:
                info = np.iinfo(dt)
                a = r.integers(info.min, info.max, size=shape, dtype=np.dtype(dt.str[1:]), endpoint=True).astype(dt)
            if layout == "column":  # one column of a wider 2d array, the way a sync channel sits in a recording
                wide = np.zeros((a.size, 5), dtype=dt)
                wide[:, 3] = a.ravel()
                a = wide[:, 3:4] if a.ndim > 1 else wide[:, 3]
            elif layout == "strided":
                a = np.repeat(a, 2, axis=0)[::2]
            elif layout == "reversed":
                a = a[::-1]
            elif layout == "fortran":
                a = np.asfortranarray(a)
            elif layout == "transposed":
                a = a.T
            elif layout == "readonly":
                a.flags.writeable = False
            elif layout == "list":
                a = a.tolist()
            elif layout == "memmap":
                file = Path(tmpdir) / f"mm_{seed}.bin"
                np.ascontiguousarray(a).tofile(file)
                if a.size:
                    a = np.memmap(file, dtype=dt, mode="r", shape=a.shape)
            return (a,)

        check(g, f"#{i} {dt} {shape} {layout}", spikeglx.split_sync, ref_split_sync, make,
              post=None if layout == "readonly" else _no_alias)
    # scalars and 0-d arrays (raise), out of range python ints, non finite floats, nested lists
    specials = [5, -1, 3.7, True, np.int16(12), np.int64(1 << 20), np.array(7), np.array(7, dtype=np.int16),
                [70000, -70000, 65535, 32768], [1.5, np.nan, np.inf, -np.inf, 1e12], [[1], [2], [3]], [[1, 2], [3, 4]],
                [], [[]], "ab", [None], [1 + 2j], np.array([1, 2], dtype=object)]
    for i, s in enumerate(specials):
        check(g, f"special {i} {s!r:.30}", spikeglx.split_sync, ref_split_sync, lambda s=s: (s,))


# ----------------------------------------------------------------------------------------------------------------
# Reader.read_sync on synthetic NIDQ recordings
# ----------------------------------------------------------------------------------------------------------------
META = """acqMnMaXaDw=0,0,{na},{nd}
appVersion=20190327
fileSizeBytes={nbytes}
fileTimeSecs={secs}
nSavedChans={nc}
niAiRangeMax=5
niAiRangeMin=-5
niMAGain=1
niMNGain=200
niSampRate=30000
snsMnMaXaDw=0,0,{na},{nd}
snsSaveChanSubset=all
typeThis=nidq
"""
VOLT2INT = 32768 / 5


def _make_recording(folder, name, ns, na, nd, rng, flavour):
    """writes a nidq bin / meta pair: na analog sync channels followed by nd digital sync words"""
    nc = na + nd
    data = np.zeros((ns, nc), dtype=np.int16)
    trains = rng.integers(0, 2, size=(ns, 16)) * (rng.random(16) < 0.6)  # random 0/1 trains on a subset of lines
    if flavour == "sparse":
        trains = trains * (rng.random((ns, 1)) < 0.05)
    word = np.sum(trains.astype(np.int64) << np.arange(16), axis=1).astype(np.uint16).view(np.int16)
    for k in range(nd):
        data[:, na + k] = np.roll(word, k)
    for k in range(na):
        if flavour == "constant":
            tr = np.full(ns, 1.2 + 0.3 * k)
        elif flavour == "square":
            tr = 0.1 * k + 3.3 * (np.floor(np.arange(ns) / (7 + k)) % 2)
        elif flavour == "near":  # traces hovering around the threshold, ties included
            tr = 1.2 + rng.integers(-2, 3, size=ns) / VOLT2INT + (rng.random(ns) < 0.3) * 0.4
        else:
            tr = rng.uniform(-5, 5, size=ns)
        data[:, k] = np.clip(np.round(tr * VOLT2INT), -32768, 32767).astype(np.int16)
    file_bin = Path(folder) / f"{name}_g0_t0.nidq.bin"
    data.tofile(file_bin)
    file_bin.with_suffix(".meta").write_text(
        META.format(na=na, nd=nd, nc=nc, nbytes=data.nbytes, secs=f"{ns / 30000:.12f}"))
    return file_bin, data, trains


def check_read_sync(rng, tmpdir):
    g = "read_sync"
    recordings = [(3, 2, 1, "random"), (1, 1, 1, "random"), (2, 2, 1, "constant"), (17, 1, 1, "square"),
                  (256, 3, 1, "near"), (1000, 2, 1, "sparse"), (2500, 1, 1, "square"), (777, 0, 1, "random"),
                  (300, 2, 2, "random"), (12001, 1, 1, "near")]
    slices = [slice(0, 10000), slice(None), slice(0, 0), slice(5, 6), slice(3, 250), slice(-10, None), slice(0, None, 3),
              slice(None, None, -1), slice(100, 50), slice(10 ** 6, None), slice(1, 10 ** 6), 5, -1, [0, 3, 4], []]
    thresholds = [1.2, 1.2, 0, -0.5, 2.5, 3.3, np.float32(1.2), np.nan, 1.2 + 1 / VOLT2INT, 100]
    floors = [10, 10, 0, None, 50, False]
    ncases = 0
    for irec, (ns, na, nd, flavour) in enumerate(recordings):
        file_bin, data, trains = _make_recording(tmpdir, f"rec{irec}", ns, na, nd, rng, flavour)
        readers = [spikeglx.Reader(file_bin)]
        if irec == 5:  # the same recording read through mtscomp
            with open(os.devnull, "w") as devnull:
                stderr, sys.stderr = sys.stderr, devnull
                try:
                    file_cbin = readers[0].compress_file(keep_original=True)
                finally:
                    sys.stderr = stderr
            readers.append(spikeglx.Reader(file_cbin))
        for sr in readers:
            # default arguments, then varied slices, thresholds and percentile flags
            check(g, f"rec{irec} defaults", lambda sr=sr: sr.read_sync(), lambda sr=sr: ref_read_sync(sr), tuple)
            for j in range(32):
                sl = slices[(j + irec) % len(slices)] if j < len(slices) else slices[rng.integers(len(slices))]
                kw = dict(threshold=thresholds[rng.integers(len(thresholds))],
                          floor_percentile=floors[rng.integers(len(floors))])
                if j < len(slices):
                    kw = {} if j % 2 else dict(threshold=1.2, floor_percentile=10)
                check(g, f"rec{irec} {type(sr._raw).__name__} {sl} {kw}", lambda sr=sr, sl=sl, kw=kw: sr.read_sync(sl, **kw),
                      lambda sr=sr, sl=sl, kw=kw: ref_read_sync(sr, sl, **kw), tuple)
                ncases += 1
            # Reader.read returns the same sync alongside the data
            check(g, f"rec{irec} read", lambda sr=sr: sr.read(slice(0, 50))[1], lambda sr=sr: ref_read_sync(sr, slice(0, 50)), tuple)
            # property: one row per sample, digital lines first, event trains recovered exactly by fronts
            if nd == 1 and ns > 0:
                sync = sr.read_sync(slice(None))
                if sync.shape != (ns, 16 + na) or not np.array_equal(sync[:, :16], trains):
                    FAILURES.append(f"[{g}] rec{irec}: digital lines are not the event trains written to the file")
                ind, pol = utils.fronts(sync[:, :16], axis=0)
                d = np.diff(trains, axis=0)
                isamp, iline = np.nonzero(d)
                if not (np.array_equal(ind[0], isamp + 1) and np.array_equal(ind[1], iline)
                        and np.array_equal(pol, d[isamp, iline])):
                    FAILURES.append(f"[{g}] rec{irec}: fronts do not recover the events written to the file")
            sr.close()
    # closed reader and reader without meta data raise the same exceptions
    file_bin, _, _ = _make_recording(tmpdir, "closed", 64, 1, 1, rng, "random")
    sr = spikeglx.Reader(file_bin, open=False)
    check(g, "not open", lambda: sr.read_sync(), lambda: ref_read_sync(sr), tuple)
    file_nometa = Path(tmpdir) / "nometa.bin"
    np.zeros((30, 385), dtype=np.int16).tofile(file_nometa)
    sr = spikeglx.Reader(file_nometa)
    check(g, "no meta", lambda: sr.read_sync(), lambda: ref_read_sync(sr), tuple)
    sr.close()


# ----------------------------------------------------------------------------------------------------------------
# fronts, rises, falls
# ----------------------------------------------------------------------------------------------------------------
def check_fronts(rng):
    g = "fronts/rises/falls"
    dtypes = [np.int8, np.int8, np.bool_, np.uint8, np.int16, np.int32, np.int64, np.uint16, np.float32, np.float64]
    shapes = [(0,), (1,), (2,), (3,), (50,), (1000,), (1, 1), (2, 40), (40, 2), (16, 300), (300, 16), (0, 5), (5, 0),
              (3, 4, 50), (1, 77)]
    steps = [1, 1, 1, 2, 0.5, 0, -1, 1.0, 3, np.nan, 1.2, 255, np.int8(1)]
    for i in range(420):
        dt = np.dtype(dtypes[i % len(dtypes)])
        shape = shapes[rng.integers(len(shapes))]
        axis = [-1, -1, 0, 1, -2, 2, -3][rng.integers(7)] if i % 3 else -1
        step = steps[rng.integers(len(steps))]
        kind = ["ttl", "ttl", "sparse", "levels", "analog", "extreme"][i % 6]
        seed = int(rng.integers(2 ** 31))

        def make(dt=dt, shape=shape, kind=kind, seed=seed, i=i):
            r = np.random.default_rng(seed)
            if kind == "ttl":
                a = r.integers(0, 2, size=shape)
            elif kind == "sparse":
                a = (r.random(shape) < 0.03).astype(int)
                a = np.cumsum(a, axis=-1) % 2
            elif kind == "levels":
                a = r.integers(-3, 4, size=shape)
            elif kind == "analog":
                a = np.round(r.normal(1.2, 1.5, size=shape), 1)  # many exact ties with the thresholds used
            else:
                a = r.choice([-129, -128, -1, 0, 1, 127, 128, 255, 256, 32767, -32768, 65535], size=shape)
            with np.errstate(all="ignore"):
                a = np.asarray(a).astype(dt)
            if dt.kind == "f" and kind == "extreme":
                a.ravel()[r.random(a.size) < 0.2] = np.nan
                a.ravel()[r.random(a.size) < 0.1] = np.inf
            if i % 7 == 3:
                a = np.asfortranarray(a)
            elif i % 7 == 5 and a.ndim > 1:
                a = np.swapaxes(a, 0, -1)
            elif i % 7 == 6:
                a.flags.writeable = False
            return (a,)

        check(g, f"fronts #{i} {dt} {shape} {kind} axis={axis} step={step}", utils.fronts, ref_fronts, make,
              dict(axis=axis, step=step))
        for analog in (False, True):
            check(g, f"rises #{i} {dt} {shape} {kind} axis={axis} step={step} analog={analog}", utils.rises, ref_rises,
                  make, dict(axis=axis, step=step, analog=analog))
            check(g, f"falls #{i} {dt} {shape} {kind} axis={axis} step={-step} analog={analog}", utils.falls, ref_falls,
                  make, dict(axis=axis, step=-step, analog=analog))
        if i % 10 == 0:  # default arguments
            check(g, f"fronts #{i} defaults", utils.fronts, ref_fronts, make)
            check(g, f"rises #{i} defaults", utils.rises, ref_rises, make)
            check(g, f"falls #{i} defaults", utils.falls, ref_falls, make)
    # scalars, 0-d arrays, lists and tuples, out of bounds axes
    specials = [3, 2.5, np.float64(2.5), np.array(1), [0, 1, 1, 0, 1], (0, 1, 0), [[0, 1, 0], [1, 1, 0]], [], [[]], "abc",
                None, np.array([0, 1, 0], dtype=object), np.array(["a", "b"]), np.array([0, 1 + 1j, 0])]
    for i, s in enumerate(specials):
        for kw in [dict(), dict(axis=0), dict(axis=1), dict(axis=5), dict(step=2)]:
            check(g, f"fronts special {i} {kw}", utils.fronts, ref_fronts, lambda s=s: (s,), kw)
            for analog in (False, True):
                check(g, f"rises special {i} {kw}", utils.rises, ref_rises, lambda s=s: (s,), dict(analog=analog, **kw))
                check(g, f"falls special {i} {kw}", utils.falls, ref_falls, lambda s=s: (s,), dict(analog=analog, **kw))
    # the documented analog example: one period of a sine crossing the step once up and once down
    a = np.sin(np.linspace(0, 2 * np.pi, 2000)) * 4
    for step in (3, 0, -3, 3.9999, 4, 10):
        check(g, f"sine rises {step}", utils.rises, ref_rises, lambda: (a.copy(),), dict(step=step, analog=True))
        check(g, f"sine falls {step}", utils.falls, ref_falls, lambda: (a.copy(),), dict(step=step, analog=True))


def timings(rng):
    """informative only"""
    words = rng.integers(-32768, 32767, size=(300000, 1), dtype=np.int16)
    x = rng.normal(1.2, 1, size=1000000)
    for label, new, ref in [("split_sync 300k words", lambda: spikeglx.split_sync(words), lambda: ref_split_sync(words)),
                            ("rises analog 1M samples", lambda: utils.rises(x, step=1.2, analog=True),
                             lambda: ref_rises(x, step=1.2, analog=True))]:
        t = []
        for f in (new, ref):
            t0 = time.perf_counter()
            for _ in range(3):
                f()
            t.append((time.perf_counter() - t0) / 3)
        print(f"  {label}: worktree {t[0] * 1e3:.1f} ms, original {t[1] * 1e3:.1f} ms")


def main():
    rng = np.random.default_rng(20240610)
    tmpdir = tempfile.mkdtemp(prefix="c10_demo_")
    try:
        check_split_sync(rng, tmpdir)
        check_read_sync(rng, tmpdir)
        check_fronts(rng)
        timings(rng)
    finally:
        shutil.rmtree(tmpdir, ignore_errors=True)
    total = sum(COUNTS.values())
    print(f"{total} comparisons: " + ", ".join(f"{k}: {v}" for k, v in COUNTS.items()))
    if FAILURES:
        print(f"NOT EQUIVALENT: {len(FAILURES)} difference(s)")
        for f in FAILURES[:40]:
            print("  " + f)
        return 1
    print("all results identical to the original implementation")
    return 0


if __name__ == "__main__":
    sys.exit(main())
