import sys, os; sys.path.insert(0, os.path.join(os.path.dirname(os.path.abspath(__file__)), "src"))
"""
C10: a TTL event train written into the sync word must be recovered exactly by front detection.

Builds a train of 16-bit sync words in which some lines toggle many times and some lines change
only once (e.g. an "acquisition started" line that goes high and stays high), decodes it with
spikeglx.split_sync and compares ibldsp.utils.fronts / rises / falls with the definition of an edge:
sample i is a rise of line x iff x[i-1] == 0 and x[i] == 1 (a fall iff x[i-1] == 1 and x[i] == 0).
The oracle is a plain python loop; the expected results are index vectors (1D input) or
(2, nedges) index arrays (2D input), whatever the number of edges.
"""
import numpy as np

import spikeglx
from ibldsp import utils

errors = []


def oracle_1d(x):
    """returns indices of all edges and their polarities, from the definition"""
    ind, pol = [], []
    for i in range(1, len(x)):
        if x[i] != x[i - 1]:
            ind.append(i)
            pol.append(1 if x[i] > x[i - 1] else -1)
    return np.array(ind, dtype=int), np.array(pol, dtype=int)


def oracle_2d(x, axis):
    """(2, nedges) indices in C order of the original array, polarities"""
    x = np.asarray(x)
    ev = []
    for r in range(x.shape[0]):
        for c in range(x.shape[1]):
            pr, pc = (r - 1, c) if axis == 0 else (r, c - 1)
            if pr < 0 or pc < 0:
                continue
            if x[r, c] != x[pr, pc]:
                ev.append((r, c, 1 if x[r, c] > x[pr, pc] else -1))
    ev = np.array(ev, dtype=int).reshape(-1, 3)
    return ev[:, :2].T, ev[:, 2]


def check(label, got, expected):
    got = np.asarray(got)
    if got.shape != expected.shape or not np.array_equal(got, expected):
        errors.append(
            f"{label}: expected shape {expected.shape} {expected.tolist()}, "
            f"got shape {got.shape} {got.tolist()}"
        )


# --- 1) event trains on the 16 lines of a sync word -------------------------------------------
ns = 2000
rng = np.random.default_rng(10)
lines = np.zeros((ns, 16), dtype=np.int64)
lines[::7, 0] = 1                                   # many short pulses
lines[(np.arange(ns) // 50) % 2 == 1, 1] = 1        # square wave
lines[1234:, 3] = 1                                 # goes high once and stays high: ONE rise, no fall
lines[:777, 5] = 1                                  # starts high, goes low once: ONE fall, no rise
lines[400:1600, 9] = 1                              # one long pulse: one rise and one fall
lines[:, 12] = rng.integers(0, 2, ns)               # random train
lines[:, 15] = (np.arange(ns) // 333) % 2           # slow square wave on the sign bit
words = (lines << np.arange(16)).sum(axis=1).astype(np.uint16).view(np.int16)

decoded = spikeglx.split_sync(words)
if not np.array_equal(decoded, lines):
    errors.append("split_sync: decoded lines differ from the lines written in the sync words")

for k in range(16):
    x = decoded[:, k]
    ind, pol = oracle_1d(lines[:, k])
    gind, gpol = utils.fronts(x)
    check(f"fronts(line {k}) indices", gind, ind)
    check(f"fronts(line {k}) polarities", gpol, pol)
    check(f"rises(line {k})", utils.rises(x), ind[pol == 1])
    check(f"falls(line {k})", utils.falls(x), ind[pol == -1])
    # the recovered events must be usable as a collection of sample indices
    try:
        n = len(utils.rises(x))
        if n != np.sum(pol == 1):
            errors.append(f"rises(line {k}): {n} events instead of {np.sum(pol == 1)}")
    except TypeError as e:
        errors.append(f"rises(line {k}): result is not a vector of indices ({e})")

# --- 2) 2D inputs along either axis, from no edge at all to a handful of edges ----------------
for nedges in range(0, 5):
    a = np.zeros((6, 40), dtype=np.int8)
    rows = [2, 4, 2, 5][:nedges]
    cols = [11, 3, 30, 20][:nedges]
    for r, c in zip(rows, cols):
        a[r, c:] = 1 - a[r, c]
    for axis, arr in ((-1, a), (1, a), (0, a.T.copy())):
        ind, pol = oracle_2d(arr, 0 if axis == 0 else 1)
        gind, gpol = utils.fronts(arr, axis=axis)
        check(f"fronts 2D, {nedges} edge(s), axis={axis}: indices", gind, ind)
        check(f"fronts 2D, {nedges} edge(s), axis={axis}: polarities", gpol, pol)
        check(f"rises 2D, {nedges} edge(s), axis={axis}", utils.rises(arr, axis=axis), ind[:, pol == 1])
        check(f"falls 2D, {nedges} edge(s), axis={axis}", utils.falls(arr, axis=axis), ind[:, pol == -1])

# --- 3) analog trace crossing the threshold once ----------------------------------------------
t = np.linspace(0, 5, 1000)
ramp = t.copy()  # crosses 3 V once, upwards
exp = np.array([np.flatnonzero(ramp > 3)[0]])
check("rises(analog ramp, step=3)", utils.rises(ramp, step=3, analog=True), exp)

if errors:
    print(f"C10 violated: {len(errors)} discrepancies between front detection and the definition")
    for e in errors[:25]:
        print("  -", e)
    sys.exit(1)
print("C10 holds: all event trains recovered exactly")
sys.exit(0)
