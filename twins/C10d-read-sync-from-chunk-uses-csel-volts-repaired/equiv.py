import sys, os; sys.path.insert(0, os.path.join(os.path.dirname(os.path.abspath(__file__)), "src"))
"""
C10: whatever way the samples are requested from the reader, the sync that comes back has one row per
sample, the 16 digital lines first (line k = bit k of the sync word) and then one thresholded line per
analog sync channel, so that every TTL event written in the recording is recovered by front detection.

A NIDQ recording with 3 analog sync channels and one digital word is written to a temporary folder, with
a known event train on each of the 3 + 16 lines.  The sync is then read back in all the ways the Reader
offers (read_sync, read, read_samples, with and without a channel selection for the *data*) and compared
with an oracle computed with plain NumPy from the samples that were written.
"""
import logging
import tempfile
from pathlib import Path

import numpy as np

import spikeglx
from ibldsp import utils

logging.disable(logging.CRITICAL)
HERE = Path(os.path.dirname(os.path.abspath(__file__)))
META_TEMPLATE = HERE / "src" / "tests" / "fixtures" / "sample3B_g0_t0.nidq.meta"
NS, NA, THRESHOLD = 3000, 3, 1.2
failures = []


def make_recording(tdir):
    """NIDQ file with NA analog sync channels followed by one digital word"""
    nc = NA + 1
    meta = Path(tdir) / "template.nidq.meta"
    lines = []
    for line in META_TEMPLATE.read_text().splitlines():
        key = line.split("=")[0]
        if key in ("acqMnMaXaDw", "snsMnMaXaDw"):
            line = f"{key}=0,0,{NA},1"
        elif key == "nSavedChans":
            line = f"{key}={nc}"
        lines.append(line)
    meta.write_text("\n".join(lines) + "\n")
    rec = spikeglx._mock_spikeglx_file(
        Path(tdir) / "demo_g0_t0.nidq.bin", meta, ns=NS, nc=nc, sync_depth=16, int2volts=5 / 32768)
    rng = np.random.default_rng(10)
    # TTL trains: every line toggles at its own random set of samples
    ttl = np.zeros((NS, NA + 16), dtype=np.int8)
    for k in range(NA + 16):
        edges = np.sort(rng.choice(np.arange(20, NS - 20), size=2 * (3 + k % 5), replace=False))
        for up, down in zip(edges[0::2], edges[1::2]):
            ttl[up:down, k] = 1
    data = np.zeros((NS, nc), dtype=np.int16)
    # analog channels: 0 / 3.3 V pulses on a small per channel DC offset with a bit of noise
    for j in range(NA):
        volts = ttl[:, j] * 3.3 + 0.05 * (j + 1) + rng.normal(0, 0.01, NS)
        data[:, j] = np.round(volts / (5 / 32768)).astype(np.int16)
    # digital word: bit k carries the digital line k
    word = np.zeros(NS, dtype=np.uint16)
    for k in range(16):
        word |= ttl[:, NA + k].astype(np.uint16) << np.uint16(k)
    data[:, -1] = word.view(np.int16)
    data.tofile(rec["bin_file"])
    return rec["bin_file"], data, ttl


def oracle(data, sel):
    """The definition, in plain NumPy, on the samples written to disk"""
    word = data[sel, -1].view(np.uint16)
    digital = np.stack([(word >> k) & 1 for k in range(16)], axis=1).astype(np.int8)
    volts = data[sel, :NA].astype(np.float32) * np.float32(5 / 32768)
    volts = volts - np.percentile(volts, 10, axis=0)
    return np.concatenate((digital, (volts >= THRESHOLD).astype(np.int8)), axis=1)


def check(label, sync, expected, ttl_sel):
    sync = np.asarray(sync)
    if sync.shape != expected.shape:
        failures.append(f"{label}: sync has shape {sync.shape}, expected {expected.shape}")
        return
    bad = np.where(np.any(sync != expected, axis=0))[0]
    if bad.size:
        failures.append(
            f"{label}: sync lines {bad.tolist()} differ from the thresholded channels "
            f"({int(np.sum(sync != expected))} samples wrong)")
        return
    # every event that was written is recovered by the front detection, with its polarity
    for line in range(sync.shape[1]):
        src = ttl_sel[:, line - 16] if line >= 16 else ttl_sel[:, NA + line]
        d = np.diff(src.astype(int))
        ind, pol = utils.fronts(sync[:, line])
        if not (np.array_equal(ind, np.where(d != 0)[0] + 1) and np.array_equal(pol, d[d != 0])):
            failures.append(f"{label}: events of line {line} not recovered by fronts()")
            return


with tempfile.TemporaryDirectory(prefix="c10_demo") as tdir:
    bin_file, data, ttl = make_recording(tdir)
    sel = slice(100, 2900)
    expected = oracle(data, sel)
    # the oracle itself must see the event trains that were written
    assert np.array_equal(expected[:, 16:], ttl[sel, :NA]) and np.array_equal(expected[:, :16], ttl[sel, NA:])
    with spikeglx.Reader(bin_file) as sr:
        assert sr.nc == NA + 1 and sr.nsync == 1
        check("read_sync(slice)", sr.read_sync(sel), expected, ttl[sel])
        check("read(slice)", sr.read(sel)[1], expected, ttl[sel])
        check("read_samples(first, last)", sr.read_samples(sel.start, sel.stop)[1], expected, ttl[sel])
        # the channel selection is for the data that is returned: the sync must not depend on it
        selections = {
            "slice(None)": slice(None),
            "[0, 1, 2, 3]": [0, 1, 2, 3],
            "[3, 2, 1, 0]": [3, 2, 1, 0],
            "[1, 2, 0]": [1, 2, 0],
            "[3, 3, 3]": [3, 3, 3],
            "[3, 0]": [3, 0],
            "[2]": [2],
            "slice(1, 4)": slice(1, 4),
        }
        for name, csel in selections.items():
            for label, fcn in (
                (f"read(slice, csel={name})", lambda: sr.read(sel, csel)),
                (f"read_samples(first, last, channels={name})", lambda: sr.read_samples(sel.start, sel.stop, csel)),
            ):
                try:
                    d, sync = fcn()
                except Exception as e:  # noqa
                    failures.append(f"{label}: raised {type(e).__name__}: {e}")
                    continue
                if not np.allclose(d, data[sel][:, csel] * (5 / 32768) * np.r_[1, 1, 1, 32768 / 5][csel], atol=1e-5):
                    failures.append(f"{label}: the data returned is not the selected channels")
                check(label, sync, expected, ttl[sel])

if failures:
    print("C10 VIOLATED: the sync returned by the reader is not the decoded sync channels of the recording")
    for f in failures:
        print("  - " + f)
    sys.exit(1)
print("C10 holds: sync decoded identically through read_sync / read / read_samples for all channel selections")
sys.exit(0)
