import sys, os; sys.path.insert(0, os.path.join(os.path.dirname(os.path.abspath(__file__)), "src"))
"""
C10: every 16-bit sync word decodes into 16 lines with line k == bit k of the word, and a TTL event train
written into the sync channel of a recording is recovered exactly by reading the sync through the Reader
and detecting the fronts.

The oracle is the definition: bit k of a word w is ((w mod 65536) >> k) & 1, and the fronts of a 0/1 line
are the samples where it differs from the previous sample (+1 going up, -1 going down).
Exits 1 and prints what is wrong if the property does not hold, exits 0 otherwise.
"""
import tempfile
from pathlib import Path

import numpy as np

import spikeglx
from ibldsp import utils

HERE = Path(os.path.dirname(os.path.abspath(__file__)))
problems = []


def oracle_bits(words):
    """(n, 16) int array, column k is bit k of the 16 bits words, whatever their signed interpretation"""
    w = np.asarray(words).astype(np.int64) % 65536
    return ((w[:, np.newaxis] >> np.arange(16)[np.newaxis, :]) & 1).astype(np.int8)


def oracle_fronts(line):
    line = np.asarray(line).astype(np.int64)
    ind = np.array([i for i in range(1, line.size) if line[i] != line[i - 1]], dtype=np.int64)
    sign = np.array([line[i] - line[i - 1] for i in ind], dtype=np.int64)
    return ind, sign


def report(title, words, got, expected, nmax=4):
    bad = np.where(np.any(got != expected, axis=1))[0]
    if bad.size == 0:
        return
    msg = [f"{title}: {bad.size} word(s) out of {len(words)} decoded wrongly"]
    for i in bad[:nmax]:
        lines = np.where(got[i] != expected[i])[0]
        msg.append(
            f"    word 0x{int(words[i]) % 65536:04X} (int16 {int(np.int16(words[i]))}): lines {lines.tolist()} "
            f"read {got[i][lines].tolist()}, bits are {expected[i][lines].tolist()}"
        )
    problems.append("\n".join(msg))


# ---------------------------------------------------------------------------------------------------------
# 1. the 65536 words: all at once, block by block (256 consecutive words, the way a recording is read by
#    chunks), and one by one
all_words = np.arange(65536, dtype=np.uint16).view(np.int16)
expected_all = oracle_bits(all_words)

out = spikeglx.split_sync(all_words)
if out.shape != (65536, 16):
    problems.append(f"split_sync of the 65536 words has shape {out.shape}, expected (65536, 16)")
else:
    report("all 65536 words in one call", all_words, out, expected_all)

got_blocks = np.zeros_like(expected_all)
shapes_ok = True
for first in range(0, 65536, 256):
    o = spikeglx.split_sync(all_words[first:first + 256])
    if o.shape != (256, 16):
        problems.append(f"split_sync of words {first}..{first + 255} has shape {o.shape}, expected (256, 16)")
        shapes_ok = False
        break
    got_blocks[first:first + 256] = o
if shapes_ok:
    report("65536 words decoded by blocks of 256", all_words, got_blocks, expected_all)

got_single = np.zeros_like(expected_all)
for i, w in enumerate(all_words):
    got_single[i] = spikeglx.split_sync(np.array([w]))[0]
report("65536 words decoded one at a time", all_words, got_single, expected_all)

# ---------------------------------------------------------------------------------------------------------
# 2. event trains written on sync lines of a nidq recording are recovered through the Reader + fronts
rng = np.random.default_rng(10)
ns, fs_chunk = 6000, 1000
trains = np.zeros((ns, 16), dtype=np.int64)
# line 15: a slow gate, high from 1500 to 4200; line 2: fast pulses all along; line 6: a few pulses;
# line 9: a single pulse near the end of the recording
trains[1500:4200, 15] = 1
trains[5500:5600, 9] = 1
for t in np.arange(100, ns - 100, 137):
    trains[t:t + 20, 2] = 1
for t in (333, 1777, 2999, 3500, 5100):
    trains[t:t + 50, 6] = 1
words = np.sum(trains << np.arange(16)[np.newaxis, :], axis=1).astype(np.uint16).view(np.int16)

with tempfile.TemporaryDirectory(prefix="c10_demo") as tdir:
    nidq = spikeglx._mock_spikeglx_file(
        Path(tdir).joinpath("sample3B_g0_t0.nidq.bin"),
        HERE / "src" / "tests" / "fixtures" / "sample3B_g0_t0.nidq.meta",
        ns=ns, nc=2, sync_depth=8, int2volts=5 / 32768,
    )
    D = nidq["D"].copy()
    D[:, 0] = 0  # analog sync line kept low
    D[:, -1] = words
    with open(nidq["bin_file"], "wb") as fid:
        D.tofile(fid)
    with spikeglx.Reader(nidq["bin_file"]) as sr:
        chunks = [sr.read_sync(slice(first, first + fs_chunk)) for first in range(0, ns, fs_chunk)]
        whole = sr.read_sync(slice(0, ns))

for label, sync in (("read by chunks of 1000 samples", np.concatenate(chunks, axis=0)), ("read in one go", whole)):
    if sync.shape != (ns, 17):
        problems.append(f"Reader.read_sync ({label}): shape {sync.shape}, expected one row per sample ({ns}, 17)")
        continue
    if np.any(sync[:, 16] != 0):
        problems.append(f"Reader.read_sync ({label}): the thresholded analog line should be low throughout")
    for k in range(16):
        ind, sign = utils.fronts(sync[:, k])
        eind, esign = oracle_fronts(trains[:, k])
        if not (np.array_equal(ind, eind) and np.array_equal(np.asarray(sign).astype(np.int64), esign)):
            problems.append(
                f"Reader.read_sync ({label}) + fronts on line {k}: {len(eind)} events written at "
                f"{eind[:6].tolist()}... polarities {esign[:6].tolist()}..., recovered {len(ind)} events at "
                f"{np.asarray(ind)[:6].tolist()}... polarities {np.asarray(sign)[:6].tolist()}..."
            )

if problems:
    print("C10 VIOLATED: sync words do not decode to their bits / events are not recovered")
    for p in problems:
        print(" - " + p)
    sys.exit(1)
print("C10 holds: the 65536 sync words decode to their bits (in one call, by blocks, one by one) and the "
      "event trains written on lines 2, 6, 9 and 15 of a nidq file are recovered exactly")
sys.exit(0)
