import sys, os; sys.path.insert(0, os.path.join(os.path.dirname(os.path.abspath(__file__)), "src"))
"""
C10 - sync words decode to TTL lines, analog sync lines are thresholded at `threshold` volts,
and front detection recovers every event.

A small nidq recording (1 analog sync trace XA0 + 1 digital sync word) is written to a temporary
folder.  The digital word goes through all 65536 values; the analog trace sits on a DC offset and
then slowly ramps up and down through the detection threshold (a photodiode-like signal).
`Reader.read_sync` is compared with the definition computed in plain NumPy:
    line k            = bit k of the word
    analog line (col 16) = (volts - 10th percentile of volts) >= threshold,  volts = sample * 5 / 32768
and `ibldsp.utils.fronts` on the analog line has to return the samples at which that definition changes.
"""
import shutil
import tempfile
from pathlib import Path

import numpy as np

import spikeglx
from ibldsp import utils

FS = 30000.0
NS = 65536
VMAX = 5.0
S2V = VMAX / 32768
THRESHOLD = 1.2
OFFSET = 300  # DC offset of the analog trace, in samples

META = """acqMnMaXaDw=0,0,1,1
appVersion=20190327
fileSizeBytes={nbytes}
fileTimeSecs={secs}
firstSample=0
nSavedChans=2
niAiRangeMax=5
niAiRangeMin=-5
niMAGain=1
niMNGain=200
niMuxFactor=1
niSampRate={fs}
niXAChans1=0
niXDBytes1=1
niXDChans1=0:7
snsMnMaXaDw=0,0,1,1
snsSaveChanSubset=all
syncNiChan=3
syncNiChanType=0
syncNiThresh=1.1
syncSourceIdx=3
syncSourcePeriod=1
trigMode=Immediate
typeImEnabled=2
typeNiEnabled=1
typeThis=nidq
userNotes=
~snsChanMap=(0,0,1,1,1)(XA0;0:0)(XD0;1:1)
~snsShankMap=(1,2,0)
"""


def build_recording(folder):
    rng = np.random.default_rng(10)
    words = rng.permutation(65536).astype(np.uint16)  # every sync word, once
    # analog trace: 45 % of the time on the DC offset, and two slow triangles of 12000 counts (1.83 V)
    # amplitude, at 2 and at 1 sample counts per time sample
    analog = np.full(NS, OFFSET, dtype=np.int64)
    tri = np.r_[np.arange(0, 12000), np.arange(12000, 0, -1)]
    i0 = 20000
    analog[i0:i0 + tri.size // 2] = OFFSET + tri[::2]  # 2 counts per sample
    i1 = i0 + tri.size // 2 + 3000
    analog[i1:i1 + tri.size] = OFFSET + tri  # 1 count per sample
    analog = analog.astype(np.int16)
    data = np.c_[analog, words.view(np.int16)]
    bin_file = Path(folder) / "demo_g0_t0.nidq.bin"
    data.tofile(bin_file)
    with open(bin_file.with_suffix(".meta"), "w") as fid:
        fid.write(META.format(nbytes=data.size * 2, secs=NS / FS, fs=FS))
    return bin_file, analog, words


def oracle_fronts(line):
    """indices where a 0/1 vector changes and the polarity of the change, by definition"""
    line = np.asarray(line, dtype=np.int64)
    ind = np.array([i for i in range(1, line.size) if line[i] != line[i - 1]], dtype=np.int64)
    return ind, line[ind] - line[ind - 1]


def main():
    problems = []
    folder = tempfile.mkdtemp(prefix="c10_demo_", dir=os.environ.get("TMPDIR"))
    try:
        bin_file, analog, words = build_recording(folder)
        sr = spikeglx.Reader(bin_file)
        sync = np.array(sr.read_sync(slice(0, NS), threshold=THRESHOLD))
        sync_hi = np.array(sr.read_sync(slice(0, NS), threshold=5.5))
        sr.close()

        # --- shape, digital lines first
        if sync.shape != (NS, 17):
            problems.append(f"read_sync returned shape {sync.shape}, expected {(NS, 17)}")
        expected_bits = ((words[:, None].astype(np.int64) >> np.arange(16)) & 1)
        nbad = int(np.sum(sync[:, :16] != expected_bits))
        if nbad:
            problems.append(f"digital lines: {nbad} bits differ from bit k of the word")

        # --- analog line, by the definition (float64, and float32 as the library documents it)
        volts = analog.astype(np.float64) * S2V
        margin = volts - np.percentile(volts, 10) - THRESHOLD  # >= 0 means TTL high
        expected = (margin >= 0).astype(np.int8)
        v32 = analog.astype(np.float32) * np.float32(S2V)
        v32 -= np.percentile(v32, 10)
        assert np.array_equal(expected, (v32 >= THRESHOLD).astype(np.int8))
        # samples closer than a quarter of a sample count to the threshold are not judged
        judged = np.abs(margin) > 0.25 * S2V
        bad = np.flatnonzero((sync[:, 16] != expected) & judged)
        if bad.size:
            k = bad[0]
            problems.append(
                f"analog line: {bad.size} samples on the wrong side of the {THRESHOLD} V threshold; e.g. sample {k}:"
                f" {volts[k] - np.percentile(volts, 10):.6f} V above the floor (that is {margin[k] / S2V:+.2f} sample"
                f" counts from the threshold) is returned as {sync[k, 16]}, expected {expected[k]}"
            )
        # --- fronts of the analog line
        ind, pol = utils.fronts(sync[:, 16])
        eind, epol = oracle_fronts(expected)
        if not (np.array_equal(ind, eind) and np.array_equal(pol, epol)):
            problems.append(
                f"fronts of the analog line: got indices {ind.tolist()} polarities {np.asarray(pol).tolist()},"
                f" the threshold crossings are at {eind.tolist()} polarities {epol.tolist()}"
            )
        # --- fronts of all digital lines at once, along the time axis
        ind2, pol2 = utils.fronts(sync[:, :16], axis=0)
        d = np.diff(expected_bits, axis=0)
        et, el = np.nonzero(d)
        if not (np.array_equal(ind2[0], et + 1) and np.array_equal(ind2[1], el) and np.array_equal(pol2, d[et, el])):
            problems.append("fronts of the digital lines differ from the changes of the bits")
        # --- a threshold that the trace never reaches (above the +/- 5 V range of the card)
        nhigh = int(np.sum(sync_hi[:, 16]))
        if nhigh:
            problems.append(
                f"threshold=5.5 V, trace maximum {volts.max():.3f} V: {nhigh} / {NS} samples of the analog line"
                f" are returned high, expected none"
            )
    finally:
        shutil.rmtree(folder, ignore_errors=True)

    if problems:
        print("C10 VIOLATED")
        for p in problems:
            print(" -", p)
        return 1
    print("C10 holds: digital lines, thresholded analog line and fronts match the definition")
    return 0


if __name__ == "__main__":
    sys.exit(main())
