"""
Differential check for refactoring N (see REFACTOR_N below) of property C11
(truncated / inconsistent files: spikeglx.Reader.open, Reader.ns, OnlineReader.ns, memmap shape).

ORIGINAL   : pristine copy of HEAD:src/spikeglx.py  -> /tmp/wt_C11_tmp/orig/spikeglx.py
REFACTORED : /tmp/wt_C11/src/spikeglx.py (worktree with refactor_N.diff applied).  If the worktree is
             clean (identical to the pristine copy) the patch refactor_N.diff is applied to a scratch copy
             under /tmp/wt_C11_tmp/refactored_N/src and that copy is used instead.

Both implementations open the very same files (opening is read-only) and every observable is compared:
construction outcome (exception type / message), shape, ns, rl, nc, fs, nsync, rewritten meta fields,
type / dtype / shape of the raw buffer, values read (full, last frame, past the end), emitted log records.

Prints EQUIVALENT and exits 0 on success.
"""
import importlib.util
import logging
import shutil
import subprocess
import sys
import tempfile
from pathlib import Path

import numpy as np

REFACTOR_N = 2

WT = Path("/tmp/wt_C11")
SCRATCH = Path("/tmp/wt_C11_tmp")
ORIG_DIR = SCRATCH / "orig"
FIXTURES = WT / "src" / "tests" / "fixtures"


def _prepare_sources():
    ORIG_DIR.mkdir(parents=True, exist_ok=True)
    for fn in ("spikeglx.py", "neuropixel.py"):
        data = subprocess.check_output(["git", "-C", str(WT), "show", f"HEAD:src/{fn}"])
        (ORIG_DIR / fn).write_bytes(data)
    new_file = WT / "src" / "spikeglx.py"
    if new_file.read_bytes() == (ORIG_DIR / "spikeglx.py").read_bytes():
        # clean worktree: apply the patch to a scratch copy
        root = SCRATCH / f"refactored_{REFACTOR_N}"
        shutil.rmtree(root, ignore_errors=True)
        (root / "src").mkdir(parents=True)
        for fn in ("spikeglx.py", "neuropixel.py"):
            shutil.copy(WT / "src" / fn, root / "src" / fn)
        subprocess.check_call(
            ["git", "apply", "--unsafe-paths", f"--directory={root}", str(WT / f"refactor_{REFACTOR_N}.diff")],
            cwd="/",
        )
        new_file = root / "src" / "spikeglx.py"
        print(f"note: worktree is clean, using patched scratch copy {new_file}")
    assert new_file.read_bytes() != (ORIG_DIR / "spikeglx.py").read_bytes(), "refactored == original ?"
    return ORIG_DIR / "spikeglx.py", new_file


def _load(name, path):
    spec = importlib.util.spec_from_file_location(name, str(path))
    mod = importlib.util.module_from_spec(spec)
    sys.modules[name] = mod
    spec.loader.exec_module(mod)
    assert Path(mod.__file__).resolve() == Path(path).resolve(), (mod.__file__, path)
    return mod


orig_path, new_path = _prepare_sources()
# `import neuropixel` inside both copies resolves to the (untouched) worktree module
sys.path.insert(0, str(WT / "src"))
import neuropixel  # noqa: E402

assert Path(neuropixel.__file__).resolve() == (WT / "src" / "neuropixel.py").resolve(), neuropixel.__file__
assert (WT / "src" / "neuropixel.py").read_bytes() == (ORIG_DIR / "neuropixel.py").read_bytes()
SG_ORIG = _load("spikeglx_orig", orig_path)
SG_NEW = _load("spikeglx_new", new_path)
assert str(ORIG_DIR) in SG_ORIG.__file__ and str(ORIG_DIR) not in SG_NEW.__file__
print("original  :", SG_ORIG.__file__)
print("refactored:", SG_NEW.__file__)


class _Capture(logging.Handler):
    def __init__(self):
        super().__init__(level=0)
        self.records = []

    def emit(self, record):
        self.records.append((record.levelno, record.name, record.getMessage()))


_capture = _Capture()
_log = logging.getLogger("ibllib")
_log.addHandler(_capture)
_log.setLevel(logging.DEBUG)
_log.propagate = False


def _exc(e):
    return ("EXC", type(e).__name__, str(e))


def _try(fun):
    try:
        return fun()
    except Exception as e:  # noqa
        return _exc(e)


def _arr(a):
    if isinstance(a, tuple):
        return a
    a = np.asarray(a)
    return (str(a.dtype), a.shape, a.tobytes())


def observe(sg, cls_name, bin_file, kwargs, mutate_meta=None, two_step=False):
    """Returns everything observable of opening `bin_file` with implementation `sg`"""
    _capture.records.clear()
    out = {}
    cls = getattr(sg, cls_name)
    sr = None
    try:
        if two_step or mutate_meta is not None:
            sr = cls(bin_file, open=False, **kwargs)
            if mutate_meta is not None:
                mutate_meta(sr.meta)
            out["pre_open"] = (sr.is_open, _try(lambda: sr.ns), _try(lambda: sr.shape), _try(lambda: sr.rl))
            if two_step:
                sr.__enter__()
            else:
                sr.open()
        else:
            sr = cls(bin_file, **kwargs)
        out["construct"] = "OK"
    except Exception as e:  # noqa
        out["construct"] = _exc(e)
    out["logs"] = list(_capture.records)
    if out["construct"] == "OK":
        out["is_open"] = sr.is_open
        out["shape"] = _try(lambda: sr.shape)
        out["ns"] = _try(lambda: (type(sr.ns).__name__, sr.ns))
        out["nc"] = _try(lambda: (type(sr.nc).__name__, sr.nc))
        out["fs"] = _try(lambda: (type(sr.fs).__name__, sr.fs))
        out["rl"] = _try(lambda: (type(sr.rl).__name__, repr(sr.rl)))
        out["nsync"] = _try(lambda: sr.nsync)
        out["nbytes"] = sr.nbytes
        out["meta"] = None if sr.meta is None else {k: repr(v) for k, v in sr.meta.items()}
        out["raw_type"] = type(sr._raw).__name__
        out["raw_shape"] = _try(lambda: tuple(sr._raw.shape))
        out["raw_dtype"] = _try(lambda: str(sr._raw.dtype))
        ns = sr.ns if not isinstance(_try(lambda: sr.ns), tuple) else 0
        out["raw_all"] = _try(lambda: _arr(sr._raw[:, :]))
        out["read_all"] = _try(lambda: _arr(sr[:, :]))
        out["read_last"] = _try(lambda: _arr(sr[ns - 1, :]))
        out["read_past_end"] = _try(lambda: _arr(sr[ns, :]))
        out["read_slice_past_end"] = _try(lambda: _arr(sr[max(ns - 2, 0):ns + 5]))
        out["read_sync"] = _try(lambda: _arr(sr.read_sync(slice(0, ns))))
        out["read_samples"] = _try(lambda: tuple(_arr(x) for x in sr.read_samples(0, ns)))
        out["logs_after"] = list(_capture.records)
        # a second open on the (now fudged) meta
        _capture.records.clear()
        out["reopen"] = _try(lambda: (sr.close(), sr.open(), sr.shape, tuple(sr._raw.shape))[2:])
        out["reopen_logs"] = list(_capture.records)
        out["meta_after_reopen"] = None if sr.meta is None else {k: repr(v) for k, v in sr.meta.items()}
        _try(sr.close)
    return out


N_CASES = 0


def compare(cls_name, bin_file, kwargs=None, label="", **kw):
    global N_CASES
    kwargs = kwargs or {}
    a = observe(SG_ORIG, cls_name, bin_file, dict(kwargs), **kw)
    b = observe(SG_NEW, cls_name, bin_file, dict(kwargs), **kw)
    N_CASES += 1
    if a != b:
        print("MISMATCH", cls_name, bin_file, kwargs, label)
        for k in sorted(set(a) | set(b)):
            if a.get(k) != b.get(k):
                print("  key", k, "\n   orig:", str(a.get(k))[:400], "\n   new :", str(b.get(k))[:400])
        sys.exit(1)
    return a


def write_meta(src_meta, dst_meta, replace=None, drop=()):
    # floats are written without exponent, otherwise read_meta_data leaves them as strings
    replace = {k: (np.format_float_positional(v) if isinstance(v, float) else v) for k, v in (replace or {}).items()}
    lines = []
    for line in Path(src_meta).read_text().splitlines():
        key = line.split("=")[0]
        if key in drop:
            continue
        if key in replace:
            line = f"{key}={replace.pop(key)}"
        lines.append(line)
    for k, v in replace.items():
        lines.append(f"{k}={v}")
    Path(dst_meta).write_text("\n".join(lines) + "\n")


def main():
    rng = np.random.default_rng(20240611)
    tmp = Path(tempfile.mkdtemp(prefix="equiv_", dir=str(SCRATCH)))
    try:
        # ------------------------------------------------------------------ flat binaries with meta-data
        only = sys.argv[1:]  # optional selection of sections: meta nometa cbin
        configs = [
            # meta fixture, name of the binary, nc, rate key, rates (integer and fractional)
            ("sample3B_g0_t0.nidq.meta", "a_g0_t0.nidq.bin", 2, "niSampRate", [None, 30000, 25000.5]),
            ("sample3A_g0_t0.imec.ap.meta", "b_g0_t0.imec.ap.bin", 385, "imSampRate", [None, 29999.757983]),
            ("sample3A_g0_t0.imec.lf.meta", "c_g0_t0.imec.lf.bin", 385, "imSampRate", [None, 2500.0325532900833]),
            ("sampleNP2.4_4shanks_g0_t0.imec.ap.meta", "d_g0_t0.imec0.ap.bin", 385, "imSampRate", [None]),
            ("sample3A_376_channels.ap.meta", "e_g0_t0.imec.ap.bin", None, "imSampRate", [None]),
        ]
        for fixture, bin_name, nc, rate_key, rates in (configs if not only or "meta" in only else []):
            md = SG_ORIG.read_meta_data(FIXTURES / fixture)
            nc = nc or int(SG_ORIG._get_nchannels_from_meta(md))
            frame = nc * 2
            for rate in rates:
                fs = SG_ORIG._get_fs_from_meta(md) if rate is None else rate
                for ns_meta in (1, 7, 32, 1000):
                    wdir = tmp / f"{bin_name}_{rate}_{ns_meta}"
                    wdir.mkdir()
                    bin_file = wdir / bin_name
                    rep = {"fileSizeBytes": ns_meta * frame, "fileTimeSecs": ns_meta / fs}
                    if rate is not None:
                        rep[rate_key] = rate
                    write_meta(FIXTURES / fixture, bin_file.with_suffix(".meta"), replace=rep)
                    # truncation points: frames present shorter / equal / longer than announced
                    ks = sorted({1, 2, max(ns_meta - 1, 1), ns_meta, ns_meta + 1, ns_meta + 13, 2 * ns_meta + 3})
                    for k in ks:
                        if frame <= 16 or (k in (1, ns_meta) and ns_meta == 7):
                            rs = list(range(frame))  # every number of trailing bytes
                        else:
                            rs = sorted({0, 1, 2, frame // 2 - 1, frame // 2, frame // 2 + 1, frame - 2, frame - 1}
                                        | set(int(x) for x in rng.integers(0, frame, 3)))
                        data = rng.integers(-32768, 32767, size=k * nc + nc, dtype=np.int16).tobytes()
                        for r in rs:
                            bin_file.write_bytes(data[:k * frame + r])
                            for cls_name in ("Reader", "OnlineReader"):
                                for iw in ((False, True) if len(rs) < 20 else (False,)):
                                    res = compare(cls_name, bin_file, {"ignore_warnings": iw}, label=f"k={k} r={r}")
                                    if cls_name == "Reader" and res["construct"] == "OK":
                                        # the property itself, on the original (sanity of the harness)
                                        assert res["shape"] == (k, nc), (res["shape"], k, nc, r)
                    # partial first frame and empty file
                    for nbytes in (0, 1, frame - 1):
                        bin_file.write_bytes(b"\x01" * nbytes)
                        for cls_name in ("Reader", "OnlineReader"):
                            compare(cls_name, bin_file, {}, label=f"nbytes={nbytes}")
                    # open=False followed by context manager / unsorted channels
                    bin_file.write_bytes(data[:3 * frame + 5])
                    compare("Reader", bin_file, {}, two_step=True)
                    compare("OnlineReader", bin_file, {}, two_step=True)
                    compare("Reader", bin_file, {"sort": False})
                    # inconsistent meta-data: missing / odd keys
                    compare("Reader", bin_file, {}, mutate_meta=lambda m: m.pop("fileSizeBytes", None))
                    compare("Reader", bin_file, {"ignore_warnings": True},
                            mutate_meta=lambda m: m.pop("fileSizeBytes", None))
                    compare("Reader", bin_file, {}, mutate_meta=lambda m: m.pop("fileTimeSecs", None))
                    compare("OnlineReader", bin_file, {}, mutate_meta=lambda m: m.pop("fileTimeSecs", None))
                    compare("Reader", bin_file, {}, mutate_meta=lambda m: m.update(fileTimeSecs=float("nan")))
                    compare("Reader", bin_file, {}, mutate_meta=lambda m: m.update(fileTimeSecs=2.5 / fs))
                    compare("Reader", bin_file, {}, mutate_meta=lambda m: m.update(fileTimeSecs=3.5 / fs))
                    compare("Reader", bin_file, {}, mutate_meta=lambda m: m.update(fileTimeSecs=3))
                    # meta file given as entry point
                    compare("Reader", bin_file.with_suffix(".meta"), {})
                    shutil.rmtree(wdir)

        # ------------------------------------------------------------------ flat binaries without meta-data
        wdir = tmp / "nometa"
        wdir.mkdir()
        bin_file = wdir / "flat.bin"
        for dtype in (("int16", "float32", "uint8") if not only or "nometa" in only else ()):
            isz = np.dtype(dtype).itemsize
            for nc in (1, 3, 16):
                for k in (1, 5, 40):
                    data = rng.integers(0, 255, size=(k + 1) * nc * isz, dtype=np.uint8).tobytes()
                    for r in sorted({0, 1, nc * isz // 2, nc * isz - 1}):
                        bin_file.write_bytes(data[:k * nc * isz + r])
                        for ns in (k, k - 1, k + 1, k + 7, 0, None):
                            for fs in (30000, 2500.7, 0):
                                for cls_name in ("Reader", "OnlineReader"):
                                    kw = dict(nc=nc, ns=ns, fs=fs, dtype=dtype)
                                    compare(cls_name, bin_file, kw)
        # auto-detection of neuropixel geometry from file size
        for nc in ((384, 385) if not only or "nometa" in only else ()):
            for k in (2, 10):
                bin_file.write_bytes(rng.integers(-3000, 3000, size=k * nc, dtype=np.int16).tobytes())
                compare("Reader", bin_file, {})
                compare("OnlineReader", bin_file, {})
                compare("Reader", bin_file, dict(nc=nc, ns=k + 2, fs=30000))
                compare("Reader", bin_file, dict(nc=nc, ns=k - 1, fs=30000, nsync=1))

        # ------------------------------------------------------------------ compressed files
        wdir = tmp / "cbin"
        wdir.mkdir()
        for fixture, bin_name, nc in ((
            ("sample3A_short_g0_t0.imec.ap.meta", "f_g0_t0.imec.ap.bin", 385),
            ("sample3B_g0_t0.nidq.meta", "g_g0_t0.nidq.bin", 2),
        ) if not only or "cbin" in only else ()):
            for ns in (3000, 40000):
                mock = SG_ORIG._mock_spikeglx_file(wdir / bin_name, FIXTURES / fixture, ns=ns, nc=nc,
                                                   sync_depth=8, random=True)
                with SG_ORIG.Reader(mock["bin_file"]) as sr:
                    fs = sr.fs
                    cbin = sr.compress_file(keep_original=False)
                meta_file = cbin.with_suffix(".meta")
                original_meta = meta_file.read_text()
                for ns_meta in (ns, ns - 1, ns + 1, ns // 2, 2 * ns + 17, 1):
                    write_meta(meta_file, meta_file, replace={"fileTimeSecs": ns_meta / fs,
                                                              "fileSizeBytes": ns_meta * nc * 2})
                    for iw in (False, True):
                        for cls_name in ("Reader", "OnlineReader"):
                            res = compare(cls_name, cbin, {"ignore_warnings": iw}, label=f"ns_meta={ns_meta}")
                            if cls_name == "Reader":
                                assert res["construct"] == "OK", res["construct"]
                                assert res["shape"] == (ns, nc), res["shape"]
                    compare("Reader", cbin, {}, two_step=True)
                    compare("Reader", cbin, {}, mutate_meta=lambda m: m.pop("fileTimeSecs", None))
                    compare("Reader", meta_file, {})
                    meta_file.write_text(original_meta)
                # explicit / missing .ch companion file
                compare("Reader", cbin, {"ch_file": cbin.with_suffix(".ch")})
                hidden = cbin.with_suffix(".ch").rename(wdir / "hidden.ch_")
                compare("Reader", cbin, {})
                compare("Reader", cbin, {"ch_file": hidden})
                for f in wdir.iterdir():
                    f.unlink()
    finally:
        shutil.rmtree(tmp, ignore_errors=True)
    print(f"{N_CASES} scenarios compared on both implementations")
    print("EQUIVALENT")


if __name__ == "__main__":
    main()
