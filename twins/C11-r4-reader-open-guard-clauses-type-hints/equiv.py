import sys, os; sys.path.insert(0, os.path.join(os.path.dirname(os.path.abspath(__file__)), "src"))
"""
Differential equivalence check for the clean-up of spikeglx.Reader.open, spikeglx.Reader.ns and
spikeglx.OnlineReader.ns.

The ORIGINAL implementations are copied verbatim below (ref_open, ref_ns, ref_online_ns) and mounted on
subclasses of the imported reader (RefReader, RefOnlineReader), everything else (constructor, read, meta-data
parsing...) is shared.  Each generated input (a binary on disk, its meta-data, the reader options and a
scenario) is run through the reference and through the imported implementation, and everything observable
is compared exactly: exception type, sample counts and their types, duration, rewritten meta-data, the type,
dtype, shape and bytes of the mapped data, the bytes returned by reads (within and beyond the file), and the
log records emitted.

Exits 0 when all the cases are identical, 1 with a message otherwise.
"""
import logging
import shutil
import tempfile
import warnings
from pathlib import Path

import numpy as np

import mtscomp
import spikeglx
from spikeglx import _get_companion_file, _logger

SEED = 20261004
N_FILE_CASES = 420
N_CBIN_CASES = 60
N_STUB_CASES = 3000


# ------------------------------------------------------------------------------------------------
# verbatim copies of the original implementations
# ------------------------------------------------------------------------------------------------
def ref_open(self):
    # if we are not looking at a compressed file, use a memmap, otherwise instantiate mtscomp
    sglx_file = str(self.file_bin)
    if self.is_mtscomp:
        self._raw = mtscomp.Reader()
        ch_file = self.ch_file or _get_companion_file(sglx_file, '.ch')
        self._raw.open(self.file_bin, ch_file)
        if self._raw.shape != (self.ns, self.nc):
            ftsec = self._raw.shape[0] / self.fs
            if not self.ignore_warnings:  # avoid the checks for streaming data
                _logger.warning(
                    f"{sglx_file} : meta data and compressed chunks dont checkout\n"
                    f"File duration: expected {self.meta['fileTimeSecs']},"
                    f" actual {ftsec}\n"
                    f"Will attempt to fudge the meta-data information."
                )
            self.meta["fileTimeSecs"] = ftsec
    else:
        if self.nc * self.ns * self.dtype.itemsize != self.nbytes:
            # only the complete sample frames present in the file are exposed
            ftsec = (
                self.file_bin.stat().st_size // (self.dtype.itemsize * self.nc)
            ) / self.fs
            if self.meta is not None:
                if not self.ignore_warnings:
                    _logger.warning(
                        f"{sglx_file} : meta data and filesize do not checkout\n"
                        f"File size: expected {self.meta['fileSizeBytes']},"
                        f" actual {self.file_bin.stat().st_size}\n"
                        f"File duration: expected {self.meta['fileTimeSecs']},"
                        f" actual {ftsec}\n"
                        f"Will attempt to fudge the meta-data information."
                    )
                self.meta["fileTimeSecs"] = ftsec
        self._raw = np.memmap(
            sglx_file, dtype=self.dtype, mode="r", shape=(self.ns, self.nc)
        )


def ref_ns(self):
    """:return: number of samples"""
    if self.meta is None:
        return self._ns
    return int(np.round(self.meta.get("fileTimeSecs") * self.fs))


def ref_online_ns(self):
    return int(self.file_bin.stat().st_size / self.dtype.itemsize / self.nc)


# the reference classes carry the names of the classes they stand for, so that messages quoting the class name compare equal
RefReader = type("Reader", (spikeglx.Reader,), {"open": ref_open, "ns": property(ref_ns)})
RefOnlineReader = type("OnlineReader", (RefReader,), {"ns": property(ref_online_ns)})


IMPLEMENTATIONS = {
    "offline": (RefReader, spikeglx.Reader),
    "online": (RefOnlineReader, spikeglx.OnlineReader),
}


# ------------------------------------------------------------------------------------------------
# log capture
# ------------------------------------------------------------------------------------------------
class _ListHandler(logging.Handler):
    def __init__(self):
        super().__init__(level=logging.DEBUG)
        self.records = []

    def emit(self, record):
        self.records.append((record.levelno, record.name, record.getMessage()))


# arbitrary bytes read as float32 hold NaNs: the casts in the (shared) read functions are noisy
warnings.simplefilter("ignore", RuntimeWarning)
_handler = _ListHandler()
_logger.addHandler(_handler)
_logger.setLevel(logging.DEBUG)
_logger.propagate = False
logging.getLogger("mtscomp").setLevel(logging.CRITICAL)


# ------------------------------------------------------------------------------------------------
# input generation
# ------------------------------------------------------------------------------------------------
FS_IMEC = [30000.0, 2500.0, 30000.1243, 29999.967, 2500.03125, 30000.03, 12345.678]
FS_NIDQ = [30000.0, 30003.25, 25000.0, 10593.220339, 999.9]


def _num(x):
    """string of a number the way a meta-data file holds it"""
    return str(int(x)) if float(x).is_integer() else repr(float(x))


def imec_meta(nc, fs, file_time_secs, file_size_bytes, band="ap", drop=()):
    """minimal NP1 (3B2) probe meta-data: nc - 1 electrophysiology channels and one sync channel"""
    nch = nc - 1
    d = {
        "typeThis": "imec",
        "imSampRate": _num(fs),
        "nSavedChans": str(nc),
        "snsApLfSy": f"{nch},0,1" if band == "ap" else f"0,{nch},1",
        "imDatPrb_type": "0",
        "imDatPrb_port": "1",
        "imDatPrb_slot": "2",
        "imDatPrb_sn": "18005116102",
        "imAiRangeMax": "0.6",
        "imAiRangeMin": "-0.6",
        "imMaxInt": "512",
        "fileSizeBytes": file_size_bytes,
        "fileTimeSecs": file_time_secs,
        "~imroTbl": "(0,384)" + "".join(f"({i} 0 0 500 250 1)" for i in range(nch)),
        "~snsShankMap": "(1,2,480)" + "".join(f"(0:{i % 2}:{i // 2}:1)" for i in range(nch)),
    }
    return {k: v for k, v in d.items() if k not in drop}


def nidq_meta(nc, fs, file_time_secs, file_size_bytes, drop=()):
    """minimal nidq meta-data: nc - 1 analog channels and one digital word, no geometry"""
    d = {
        "typeThis": "nidq",
        "niSampRate": _num(fs),
        "nSavedChans": str(nc),
        "snsMnMaXaDw": f"0,0,{nc - 1},1",
        "niMNGain": "200",
        "niMAGain": "1",
        "niAiRangeMax": "5",
        "niAiRangeMin": "-5",
        "fileSizeBytes": file_size_bytes,
        "fileTimeSecs": file_time_secs,
    }
    return {k: v for k, v in d.items() if k not in drop}


def write_meta(meta_file, d):
    with open(meta_file, "w") as fid:
        for k, v in d.items():
            fid.write(f"{k}={v}\n")


def make_case(rng, i):
    """draws the description of one flat binary case"""
    c = {"i": i}
    c["with_meta"] = rng.random() < 0.8
    c["kind"] = rng.choice(["imec_ap", "imec_lf", "nidq"], p=[0.5, 0.2, 0.3])
    c["reader"] = rng.choice(["offline", "online"], p=[0.6, 0.4])
    c["ignore_warnings"] = bool(rng.random() < 0.35)
    c["dtype"] = str(rng.choice(["int16", "int16", "int16", "int16", "int8", "int32", "float32"]))
    itemsize = np.dtype(c["dtype"]).itemsize
    c["nc"] = int(rng.integers(2, 14))
    c["fs"] = float(rng.choice(FS_NIDQ if c["kind"] == "nidq" else FS_IMEC))
    frame = itemsize * c["nc"]
    # number of samples the meta-data announce and the bytes actually on disk
    c["ns_meta"] = int(rng.integers(1, 400))
    mode = rng.choice(["exact", "shorter", "longer", "one_frame", "any", "empty"], p=[0.12, 0.3, 0.25, 0.08, 0.2, 0.05])
    if mode == "exact":
        frames = c["ns_meta"]
    elif mode == "shorter":
        frames = int(rng.integers(1, c["ns_meta"] + 1))
    elif mode == "longer":
        frames = c["ns_meta"] + int(rng.integers(0, 200))
    elif mode == "one_frame":
        frames = 1
    elif mode == "any":
        frames = int(rng.integers(1, 600))
    else:
        frames = 0
    trailing = 0 if (mode == "exact" and rng.random() < 0.5) else int(rng.integers(0, frame))
    if rng.random() < 0.1:
        trailing = frame - 1
    c["nbytes"] = frames * frame + trailing
    # what the meta-data file says
    c["file_time_secs"] = repr(c["ns_meta"] / c["fs"])  # may hold an exponent: then it stays a string once parsed
    c["file_size_bytes"] = str(c["ns_meta"] * frame)
    r = rng.random()
    c["drop"] = ("fileSizeBytes",) if r < 0.06 else ("fileTimeSecs",) if r < 0.10 else ()
    if rng.random() < 0.05:
        c["file_time_secs"] = _num(round(c["ns_meta"] / c["fs"] + 1.8324, 4))  # corrupt duration
    # flat binary without meta-data: constructor arguments
    c["flat_ns"] = [None, frames, max(frames - 3, 0), frames + 2, c["ns_meta"]][int(rng.integers(0, 5))]
    c["flat_nsync"] = [None, 0, 1][int(rng.integers(0, 3))]
    # scenario
    c["scenario"] = str(rng.choice(["ctor", "ctor", "deferred", "context", "grow", "shrink", "reopen"]))
    c["delta"] = int(rng.integers(1, 4 * frame + 2))
    c["sort"] = bool(rng.random() < 0.8)
    c["seed"] = int(rng.integers(0, 2 ** 31))
    return c


def build_files(c, folder):
    folder.mkdir(parents=True, exist_ok=True)
    stem = {"imec_ap": "mock_g0_t0.imec0.ap", "imec_lf": "mock_g0_t0.imec0.lf", "nidq": "mock_g0_t0.nidq"}[c["kind"]]
    bin_file = folder / f"{stem}.bin"
    data = np.random.default_rng(c["seed"]).integers(0, 256, size=c["nbytes"], dtype=np.uint8)
    data.tofile(bin_file)
    if c["with_meta"]:
        if c["kind"] == "nidq":
            md = nidq_meta(c["nc"], c["fs"], c["file_time_secs"], c["file_size_bytes"], drop=c["drop"])
        else:
            md = imec_meta(c["nc"], c["fs"], c["file_time_secs"], c["file_size_bytes"], band=c["kind"][-2:], drop=c["drop"])
        write_meta(bin_file.with_suffix(".meta"), md)
    return bin_file, data.tobytes()


# ------------------------------------------------------------------------------------------------
# observation
# ------------------------------------------------------------------------------------------------
def _arr(a):
    a = np.asarray(a)
    return (type(a).__name__, str(a.dtype), a.shape, a.tobytes())


def _attempt(obs, label, fcn):
    try:
        out = fcn()
    except Exception as e:  # noqa
        obs.append((label, "raised", type(e).__name__, str(e)))
        return None
    obs.append((label, "returned", out))
    return out


def _meta_snapshot(sr):
    if sr.meta is None:
        return None
    return [(k, type(v).__name__, repr(v)) for k, v in sr.meta.items()]


def observe_reader(sr, obs):
    """everything one can see of an opened (or not) reader"""
    for name in ("ns", "nc", "fs", "shape", "rl", "nsync", "type", "is_open", "nbytes"):
        _attempt(obs, name, lambda name=name: (type(getattr(sr, name)).__name__, repr(getattr(sr, name))))
    obs.append(("meta", _meta_snapshot(sr)))
    raw = getattr(sr, "_raw", None)
    obs.append(("raw_type", type(raw).__name__))
    if raw is None:
        return
    _attempt(obs, "raw_shape", lambda: (tuple(raw.shape), str(raw.dtype)))
    _attempt(obs, "raw_all", lambda: _arr(raw[:]))
    ns = _attempt(obs, "ns_again", lambda: sr.ns)
    if not isinstance(ns, int):
        return
    _attempt(obs, "raw_beyond", lambda: _arr(raw[ns:ns + 7]))
    _attempt(obs, "raw_across_end", lambda: _arr(raw[max(ns - 2, 0):ns + 5]))
    _attempt(obs, "raw_last", lambda: _arr(raw[ns - 1]))
    _attempt(obs, "raw_out_of_bounds", lambda: _arr(raw[ns]))
    _attempt(obs, "getitem", lambda: _arr(sr[max(ns - 5, 0):ns + 3, :]))
    _attempt(obs, "getitem_first", lambda: _arr(sr[0]))
    _attempt(obs, "read_nosync", lambda: _arr(sr.read(nsel=slice(0, ns + 10), sync=False)))
    _attempt(obs, "read_sync", lambda: tuple(_arr(x) for x in sr.read(nsel=slice(max(ns - 20, 0), ns + 1))))
    _attempt(obs, "read_samples", lambda: tuple(_arr(x) for x in sr.read_samples(0, ns + 100)))


def run_scenario(cls, c, bin_file, content):
    """runs one scenario with one implementation, returns the list of observations"""
    _handler.records.clear()
    # every run starts from the same bytes on disk
    with open(bin_file, "wb") as fid:
        fid.write(content)
    kwargs = dict(ignore_warnings=c["ignore_warnings"], dtype=c["dtype"], sort=c["sort"])
    if not c["with_meta"]:
        kwargs.update(nc=c["nc"], ns=c["flat_ns"], fs=int(c["fs"]), nsync=c["flat_nsync"])
    obs = []
    sr = None
    try:
        scenario = c["scenario"]
        if scenario == "ctor":
            sr = cls(bin_file, **kwargs)
            observe_reader(sr, obs)
        elif scenario == "context":
            with cls(bin_file, open=False, **kwargs) as sr:
                observe_reader(sr, obs)
            obs.append(("meta_after_close", _meta_snapshot(sr)))
        elif scenario == "deferred":
            sr = cls(bin_file, open=False, **kwargs)
            observe_reader(sr, obs)
            obs.append(("open_returns", sr.open()))
            observe_reader(sr, obs)
        elif scenario in ("grow", "shrink"):
            # the file changes between the instantiation and the opening (recording in progress, truncated copy)
            sr = cls(bin_file, open=False, **kwargs)
            if scenario == "grow":
                extra = np.random.default_rng(c["seed"] + 1).integers(0, 256, size=c["delta"], dtype=np.uint8).tobytes()
                with open(bin_file, "ab") as fid:
                    fid.write(extra)
            else:
                with open(bin_file, "wb") as fid:
                    fid.write(content[:max(len(content) - c["delta"], 0)])
            obs.append(("open_returns", sr.open()))
            observe_reader(sr, obs)
        elif scenario == "reopen":
            sr = cls(bin_file, **kwargs)
            observe_reader(sr, obs)
            sr.close()
            extra = np.random.default_rng(c["seed"] + 2).integers(0, 256, size=c["delta"], dtype=np.uint8).tobytes()
            with open(bin_file, "ab") as fid:
                fid.write(extra)
            obs.append(("open_returns", sr.open()))
            observe_reader(sr, obs)
    except Exception as e:  # noqa
        obs.append(("scenario", "raised", type(e).__name__, str(e)))
        if sr is not None:
            obs.append(("meta_after_raise", _attempt([], "m", lambda: _meta_snapshot(sr))))
    finally:
        if sr is not None:
            try:
                sr.close()
            except Exception:  # noqa
                pass
    obs.append(("log", list(_handler.records)))
    return obs


def first_difference(a, b):
    for k, (x, y) in enumerate(zip(a, b)):
        if x != y:
            sx, sy = repr(x), repr(y)
            return f"observation #{k}: reference {sx[:400]} / refactored {sy[:400]}"
    return f"number of observations: reference {len(a)} / refactored {len(b)}"


# ------------------------------------------------------------------------------------------------
# the three families of checks
# ------------------------------------------------------------------------------------------------
def check_flat_files(rng, tmp):
    failures, stats = [], {"raised": 0, "warned": 0, "fudged": 0}
    for i in range(N_FILE_CASES):
        c = make_case(rng, i)
        folder = tmp / f"flat_{i:04d}"
        bin_file, content = build_files(c, folder)
        cls_ref, cls_new = IMPLEMENTATIONS[c["reader"]]
        o_ref = run_scenario(cls_ref, c, bin_file, content)
        o_new = run_scenario(cls_new, c, bin_file, content)
        if o_ref != o_new:
            failures.append(f"flat case {i} {c}: {first_difference(o_ref, o_new)}")
        stats["raised"] += any(o[1] == "raised" for o in o_ref if len(o) > 2 and o[0] == "scenario")
        stats["warned"] += any("checkout" in r[2] for r in o_ref[-1][1])
        stats["fudged"] += c["with_meta"] and c["nbytes"] != c["ns_meta"] * c["nc"] * np.dtype(c["dtype"]).itemsize
        shutil.rmtree(folder, ignore_errors=True)
    return failures, stats


def check_compressed_files(rng, tmp):
    """compressed streams shorter / longer than announced by the meta-data, and truncated cbin files"""
    failures, n_warned = [], 0
    for i in range(N_CBIN_CASES):
        nc = int(rng.integers(2, 10))
        fs = float(rng.choice(FS_IMEC))
        ns = int(rng.integers(20, 500))
        ns_meta = ns if rng.random() < 0.25 else int(rng.integers(1, 700))
        kind = str(rng.choice(["imec_ap", "imec_lf", "nidq"]))
        folder = tmp / f"cbin_{i:04d}"
        folder.mkdir(parents=True, exist_ok=True)
        stem = {"imec_ap": "mock_g0_t0.imec0.ap", "imec_lf": "mock_g0_t0.imec0.lf", "nidq": "mock_g0_t0.nidq"}[kind]
        bin_file = folder / f"{stem}.bin"
        data = np.random.default_rng(int(rng.integers(0, 2 ** 31))).integers(-2000, 2000, size=(ns, nc), dtype=np.int16)
        data.tofile(bin_file)
        drop = ("fileTimeSecs",) if rng.random() < 0.08 else ()
        # the meta-data may also disagree with the compression header on the number of channels only
        nc_meta = nc + int(rng.integers(1, 3)) if rng.random() < 0.25 else nc
        if nc_meta != nc and rng.random() < 0.6:
            ns_meta = ns
        args = (nc_meta, fs, repr(ns_meta / fs), str(ns_meta * nc_meta * 2))
        md = nidq_meta(*args, drop=drop) if kind == "nidq" else imec_meta(*args, band=kind[-2:], drop=drop)
        write_meta(bin_file.with_suffix(".meta"), md)
        cbin_file = bin_file.with_suffix(".cbin")
        mtscomp.compress(
            bin_file, out=cbin_file, outmeta=bin_file.with_suffix(".ch"), sample_rate=fs, n_channels=nc, dtype=np.int16,
            chunk_duration=float(rng.choice([0.001, 0.004, 1.0])), check_after_compress=False, n_threads=1, quiet=True,
        )
        bin_file.unlink()
        content = cbin_file.read_bytes()
        if rng.random() < 0.15:  # truncated copy of the compressed file
            content = content[:int(rng.integers(1, len(content)))]
        c = {
            "ignore_warnings": bool(rng.random() < 0.35), "dtype": "int16", "sort": True, "with_meta": True,
            "scenario": str(rng.choice(["ctor", "deferred", "context"])), "reader": "offline",
        }
        cls_ref, cls_new = IMPLEMENTATIONS["offline"]
        o_ref = run_scenario(cls_ref, c, cbin_file, content)
        o_new = run_scenario(cls_new, c, cbin_file, content)
        if o_ref != o_new:
            failures.append(f"cbin case {i} (nc={nc}, nc_meta={nc_meta}, fs={fs}, ns={ns}, ns_meta={ns_meta}, {c}): {first_difference(o_ref, o_new)}")
        n_warned += any("checkout" in r[2] for r in o_ref[-1][1])
        shutil.rmtree(folder, ignore_errors=True)
    return failures, n_warned


class _FakeStat:
    def __init__(self, st_size):
        self.st_size = st_size


class _FakeFile:
    """stands for the pathlib.Path of a file of arbitrary size"""
    suffix = ".bin"

    def __init__(self, st_size):
        self._st_size = st_size

    def stat(self):
        return _FakeStat(self._st_size)


def check_sample_counts(rng):
    """the two sample count properties on bare objects: durations, rates and file sizes of any magnitude"""
    failures = []
    for i in range(N_STUB_CASES):
        itemsize = int(rng.choice([1, 2, 4, 8]))
        nc = int(rng.choice([1, 2, 3, 16, 17, 384, 385, int(rng.integers(1, 1000))]))
        size = int(rng.choice([
            int(rng.integers(0, 5000)), int(rng.integers(0, 2 ** 40)), int(rng.integers(2 ** 52, 2 ** 62)),
            itemsize * nc * int(rng.integers(0, 2 ** 30)), itemsize * nc * int(rng.integers(0, 2 ** 30)) + int(rng.integers(0, itemsize * nc)),
        ]))
        fs = float(rng.choice(FS_IMEC + FS_NIDQ))
        ns_true = int(rng.choice([int(rng.integers(0, 100)), int(rng.integers(0, 10 ** 9))]))
        fts = [ns_true / fs, (ns_true + 0.5) / fs, float(np.float32(ns_true / fs)), round(ns_true / fs, 3), None, "0.1", [1.0, 2.0],
               float("nan"), float("inf"), np.float64(ns_true / fs)][int(rng.integers(0, 10))] if rng.random() < 0.5 else ns_true / fs
        meta_kind = int(rng.integers(0, 4))
        if meta_kind == 0:
            meta = None
        elif meta_kind == 1:
            meta = {"typeThis": "imec", "imSampRate": fs, "nSavedChans": float(nc), "fileTimeSecs": fts}
        elif meta_kind == 2:
            meta = {"typeThis": "nidq", "niSampRate": fs, "nSavedChans": float(nc), "fileTimeSecs": fts}
        else:
            meta = {"typeThis": "imec", "imSampRate": fs, "nSavedChans": float(nc)}  # no duration
        nc_attr = 0 if rng.random() < 0.01 else nc
        results = []
        for cls in (RefReader, spikeglx.Reader, RefOnlineReader, spikeglx.OnlineReader):
            sr = object.__new__(cls)
            sr.meta = None if meta is None else dict(meta)
            sr._ns, sr._nc, sr._fs = ns_true, nc_attr, int(fs)
            sr.dtype = np.dtype(f"i{itemsize}")
            sr.file_bin = _FakeFile(size)
            try:
                out = sr.ns
                results.append(("returned", type(out).__name__, repr(out)))
            except Exception as e:  # noqa
                results.append(("raised", type(e).__name__, str(e)))
            results[-1] = results[-1] + (repr(sr.meta),)
        if results[0] != results[1]:
            failures.append(f"Reader.ns stub case {i}: reference {results[0]} / refactored {results[1]}")
        if results[2] != results[3]:
            failures.append(f"OnlineReader.ns stub case {i}: reference {results[2]} / refactored {results[3]}")
    return failures


def main():
    rng = np.random.default_rng(SEED)
    tmp = Path(tempfile.mkdtemp(prefix="demo_c11_"))
    try:
        failures, stats = check_flat_files(rng, tmp)
        f_cbin, n_warned_cbin = check_compressed_files(rng, tmp)
        failures += f_cbin
        failures += check_sample_counts(rng)
    finally:
        shutil.rmtree(tmp, ignore_errors=True)
    print(
        f"{N_FILE_CASES} flat binary cases ({stats['fudged']} with a size / meta-data mismatch, {stats['warned']} warned, "
        f"{stats['raised']} raising), {N_CBIN_CASES} compressed cases ({n_warned_cbin} warned), {N_STUB_CASES} sample count cases"
    )
    if failures:
        print(f"{len(failures)} DIFFERENCES between the reference and the refactored implementation")
        for f in failures[:20]:
            print(" -", f)
        return 1
    print("reference and refactored implementations are identical on all cases")
    return 0


if __name__ == "__main__":
    sys.exit(main())
