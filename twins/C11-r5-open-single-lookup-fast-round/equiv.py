import sys, os; sys.path.insert(0, os.path.join(os.path.dirname(os.path.abspath(__file__)), "src"))
"""
Differential equivalence check for the performance clean-up of spikeglx.Reader.open and spikeglx.Reader.ns.

The ORIGINAL implementations of the two changed functions are copied verbatim below (ref_open, ref_ns) and
grafted onto subclasses of the imported Reader / OnlineReader.  Truncated, over-long, stale, compressed and
consistent files are opened through both implementations and everything observable is compared exactly:
exception type, sample count (value and type), shape, duration, rewritten meta-data, memmap shape / dtype /
content, converted reads, and the warnings logged.  Exits 0 when everything is identical, 1 otherwise.
"""
import contextlib
import logging
import shutil
import tempfile
import time
import warnings
from pathlib import Path

import numpy as np

import mtscomp
from iblutil.util import Bunch

import spikeglx
from spikeglx import _get_companion_file, _logger  # names used by the verbatim reference copies

T_START = time.time()
SEED = 20241011
HERE = Path(os.path.dirname(os.path.abspath(__file__)))
FIXTURES = HERE.joinpath("src", "tests", "fixtures")


# ----------------------------------------------------------------------------------------------------------
# verbatim copies of the ORIGINAL implementations
# ----------------------------------------------------------------------------------------------------------
def ref_open(self):
    # if we are not looking at a compressed file, use a memmap, otherwise instantiate mtscomp
    sglx_file = str(self.file_bin)
    if self.is_mtscomp:
        self._raw = mtscomp.Reader()
        ch_file = self.ch_file or _get_companion_file(sglx_file, '.ch')
        self._raw.open(self.file_bin, ch_file)
        if self._raw.shape != (self.ns, self.nc):
            ftsec = self._raw.shape[0] / self.fs
            if not self.ignore_warnings:  # avoid the checks for streaming data
                _logger.warning(
                    f"{sglx_file} : meta data and compressed chunks dont checkout\n"
                    f"File duration: expected {self.meta['fileTimeSecs']},"
                    f" actual {ftsec}\n"
                    f"Will attempt to fudge the meta-data information."
                )
            self.meta["fileTimeSecs"] = ftsec
    else:
        if self.nc * self.ns * self.dtype.itemsize != self.nbytes:
            # only the complete sample frames present in the file are exposed
            ftsec = (
                self.file_bin.stat().st_size // (self.dtype.itemsize * self.nc)
            ) / self.fs
            if self.meta is not None:
                if not self.ignore_warnings:
                    _logger.warning(
                        f"{sglx_file} : meta data and filesize do not checkout\n"
                        f"File size: expected {self.meta['fileSizeBytes']},"
                        f" actual {self.file_bin.stat().st_size}\n"
                        f"File duration: expected {self.meta['fileTimeSecs']},"
                        f" actual {ftsec}\n"
                        f"Will attempt to fudge the meta-data information."
                    )
                self.meta["fileTimeSecs"] = ftsec
        self._raw = np.memmap(
            sglx_file, dtype=self.dtype, mode="r", shape=(self.ns, self.nc)
        )


def ref_ns(self):
    """:return: number of samples"""
    if self.meta is None:
        return self._ns
    return int(np.round(self.meta.get("fileTimeSecs") * self.fs))


class RefReader(spikeglx.Reader):
    open = ref_open
    ns = property(ref_ns)


class RefOnlineReader(RefReader):
    # OnlineReader.ns is not touched by the change: the very same property object is re-used
    ns = spikeglx.OnlineReader.__dict__["ns"]


CLASSES = {"offline": (RefReader, spikeglx.Reader), "online": (RefOnlineReader, spikeglx.OnlineReader)}


# ----------------------------------------------------------------------------------------------------------
# helpers
# ----------------------------------------------------------------------------------------------------------
class _ListHandler(logging.Handler):
    def __init__(self):
        super().__init__(level=logging.DEBUG)
        self.messages = []

    def emit(self, record):
        self.messages.append((record.levelname, record.getMessage()))


_handler = _ListHandler()
logging.getLogger("ibllib").addHandler(_handler)
logging.getLogger("ibllib").setLevel(logging.DEBUG)
logging.getLogger("ibllib").propagate = False

N_COMPARED = 0
N_EXC = 0
FAILURES = []


def _same(a, b):
    """exact comparison: type, dtype, shape, values (nan equal to nan)"""
    if type(a) is not type(b):
        return False
    if isinstance(a, np.ndarray):
        return a.dtype == b.dtype and a.shape == b.shape and np.array_equal(a, b, equal_nan=a.dtype.kind in "fc")
    if isinstance(a, (tuple, list)):
        return len(a) == len(b) and all(_same(x, y) for x, y in zip(a, b))
    if isinstance(a, dict):
        return list(a.keys()) == list(b.keys()) and all(_same(a[k], b[k]) for k in a)
    if isinstance(a, float) and a != a:
        return b != b
    return a == b


def _fmt_float(v):
    """text that spikeglx.read_meta_data parses back to a float (no exponent notation)"""
    s = repr(float(v))
    return s if "e" not in s else f"{v:.18f}"


def _attempt(fcn):
    try:
        return ("ok", fcn())
    except Exception as e:  # noqa
        return ("exc", type(e))


def observe_reader(sr, file_bin, full=True):
    """everything a caller can observe of an opened reader"""
    out = {}
    out["ns"] = sr.ns
    out["nc"] = sr.nc
    out["fs"] = sr.fs
    out["rl"] = sr.rl
    out["shape"] = sr.shape
    out["nbytes"] = sr.nbytes
    out["is_open"] = sr.is_open
    out["meta_fileTimeSecs"] = None if sr.meta is None else sr.meta.get("fileTimeSecs")
    out["meta"] = None if sr.meta is None else {k: (v if not isinstance(v, np.ndarray) else v) for k, v in sr.meta.items()}
    raw = sr._raw
    out["raw_type"] = type(raw).__name__
    out["raw_shape"] = tuple(raw.shape)
    out["raw_dtype"] = np.dtype(raw.dtype)
    if isinstance(raw, np.memmap):
        data = np.array(raw)
        out["raw_offset"] = raw.offset
    else:
        data = _attempt(lambda: np.array(raw[:]))
    out["raw_data"] = data
    if isinstance(data, np.ndarray):
        # the exposed values are the prefix of the file
        nbytes_file = Path(file_bin).stat().st_size
        prefix = np.fromfile(file_bin, dtype=data.dtype, count=data.size)
        out["prefix_ok"] = bool(data.size * data.dtype.itemsize <= nbytes_file and np.array_equal(
            prefix.reshape(data.shape), data, equal_nan=data.dtype.kind in "fc"))
    if full:
        out["read_all"] = _attempt(lambda: sr[:, :])
        out["read_last"] = _attempt(lambda: sr[sr.ns - 1, :])
        out["read_beyond_slice"] = _attempt(lambda: sr.read(nsel=slice(max(sr.ns - 2, 0), sr.ns + 7), sync=False))
        out["read_beyond_index"] = _attempt(lambda: sr[sr.ns, :])
        out["read_sync"] = _attempt(lambda: sr.read(nsel=slice(0, 10000)))
        out["read_samples"] = _attempt(lambda: sr.read_samples(0, 3))
    return out


def run_case(label, kind, file_bin, kwargs, mutate=None, full=True):
    """
    Opens file_bin through the reference and through the imported implementation and compares.
    :param mutate: optional function(file_bin) applied between the construction (open=False) and open(): stale nbytes
    """
    global N_COMPARED, N_EXC
    results = []
    for cls in CLASSES[kind]:
        _handler.messages = []
        sr = None

        def go():
            nonlocal sr
            if mutate is None:
                sr = cls(file_bin, **kwargs)
            else:
                sr = cls(file_bin, open=False, **kwargs)
                mutate(file_bin, restore=False)
                sr.open()
            return observe_reader(sr, file_bin, full=full)
        with warnings.catch_warnings():
            warnings.simplefilter("ignore")
            res = _attempt(go)
        logs = list(_handler.messages)
        try:
            if sr is not None:
                sr.close()
        except Exception:  # noqa
            pass
        if mutate is not None:
            mutate(file_bin, restore=True)
        results.append((res, logs))
    (ref, ref_logs), (new, new_logs) = results
    N_COMPARED += 1
    N_EXC += ref[0] == "exc"
    if not _same(ref, new):
        if ref[0] == "ok" and new[0] == "ok":
            keys = [k for k in ref[1] if not _same(ref[1][k], new[1].get(k))]
            FAILURES.append(f"{label}: results differ for {keys}: {[(ref[1][k], new[1].get(k)) for k in keys][:2]}")
        else:
            FAILURES.append(f"{label}: outcome differs: reference {ref[0]} {ref[1] if ref[0] == 'exc' else ''}"
                            f" / new {new[0]} {new[1] if new[0] == 'exc' else ''}")
    if not _same(ref_logs, new_logs):
        FAILURES.append(f"{label}: logged messages differ\n  ref: {ref_logs}\n  new: {new_logs}")
    return ref


def write_nidq_meta(file_meta, nc, fs, ftsec, nbytes, ftsec_text=None):
    txt = (
        "acqMnMaXaDw=0,0,8,1\n"
        "appVersion=20190327\n"
        f"fileSizeBytes={int(nbytes)}\n"
        f"fileTimeSecs={ftsec_text if ftsec_text is not None else _fmt_float(ftsec)}\n"
        "niAiRangeMax=5\n"
        "niAiRangeMin=-5\n"
        "niMAGain=1\n"
        "niMNGain=200\n"
        f"niSampRate={_fmt_float(fs) if float(fs) != int(fs) else int(fs)}\n"
        f"nSavedChans={nc}\n"
        f"snsMnMaXaDw=0,0,{nc - 1},1\n"
        "typeThis=nidq\n"
    )
    Path(file_meta).write_text(txt)


def write_imec_meta(file_meta, fixture, fs, ftsec, nbytes):
    lines = []
    for line in Path(fixture).read_text().splitlines():
        if line.startswith("fileSizeBytes="):
            line = f"fileSizeBytes={int(nbytes)}"
        elif line.startswith("fileTimeSecs="):
            line = f"fileTimeSecs={_fmt_float(ftsec)}"
        elif line.startswith("imSampRate="):
            line = f"imSampRate={_fmt_float(fs) if float(fs) != int(fs) else int(fs)}"
        lines.append(line)
    Path(file_meta).write_text("\n".join(lines) + "\n")


def write_bin(file_bin, rng, nbytes, dtype=np.int16):
    """nbytes of random payload: complete frames and possibly an incomplete trailing one"""
    payload = rng.integers(0, 256, size=int(nbytes), dtype=np.uint8)
    if np.dtype(dtype).kind == "f":  # avoid nans / infs patterns being an issue: they are compared bitwise-equal anyway
        pass
    payload.tofile(file_bin)


def make_mutator(new_bytes):
    """replaces the file content after the reader was instantiated, puts it back afterwards"""
    state = {}

    def mutate(file_bin, restore):
        file_bin = Path(file_bin)
        if not restore:
            state["orig"] = file_bin.read_bytes()
            file_bin.write_bytes(new_bytes)
        elif "orig" in state:
            file_bin.write_bytes(state.pop("orig"))
    return mutate


FS_INT = [30000, 2500, 1000, 250, 32]
FS_FRAC = [30000.271, 29999.983, 2500.0371, 12345.678, 999.5, 30003.0303030303, 2499.99975]


# ----------------------------------------------------------------------------------------------------------
# 1. exhaustive sweep of the truncation points of small files with a meta-data file
# ----------------------------------------------------------------------------------------------------------
def sweep_truncation_points(td, rng):
    icase = 0
    for nc, fs, ns_meta in [(3, 2500, 7), (2, 30000.271, 5), (5, 999.5, 4), (1, 30000, 6), (4, 12345.678, 9)]:
        frame = nc * 2
        for kind in ("offline", "online"):
            # every length from one complete frame up to well beyond what the meta-data claims, all trailing byte counts
            for nbytes in range(frame, frame * (ns_meta + 4)):
                d = td.joinpath(f"sweep_{icase:05d}")
                d.mkdir()
                icase += 1
                file_bin = d.joinpath("sweep_g0_t0.nidq.bin")
                write_bin(file_bin, rng, nbytes)
                write_nidq_meta(file_bin.with_suffix(".meta"), nc, fs, ns_meta / fs, ns_meta * frame)
                ref = run_case(f"sweep nc={nc} fs={fs} ns_meta={ns_meta} nbytes={nbytes} {kind}", kind, file_bin,
                               dict(ignore_warnings=bool(nbytes % 2)), full=(nbytes % 3 == 0))
                # sanity of the demo itself: the reference exposes the complete frames of the file
                if ref[0] != "ok" or ref[1]["raw_shape"] != (nbytes // frame, nc) or not ref[1]["prefix_ok"]:
                    FAILURES.append(f"sweep nc={nc} nbytes={nbytes} {kind}: unexpected reference outcome {ref[0]}")
                shutil.rmtree(d)
    # shorter than one frame, and empty: whatever happens must happen in both
    for nbytes in (0, 1, 3, 5):
        for kind in ("offline", "online"):
            d = td.joinpath(f"sweep_{icase:05d}")
            d.mkdir()
            icase += 1
            file_bin = d.joinpath("short_g0_t0.nidq.bin")
            write_bin(file_bin, rng, nbytes)
            write_nidq_meta(file_bin.with_suffix(".meta"), 3, 2500, 4 / 2500, 24)
            run_case(f"short file nbytes={nbytes} {kind}", kind, file_bin, {})
            shutil.rmtree(d)


# ----------------------------------------------------------------------------------------------------------
# 2. random cases: nidq and imec meta-data, no meta-data, stale sizes, odd meta-data
# ----------------------------------------------------------------------------------------------------------
def random_cases(td, rng, n=420):
    fixtures = [f for f in (FIXTURES.joinpath("sample3B_g0_t0.imec1.ap.meta"),
                            FIXTURES.joinpath("sampleNP2.4_4shanks_g0_t0.imec.ap.meta"),
                            FIXTURES.joinpath("sample3A_g0_t0.imec.lf.meta")) if f.exists()]
    for i in range(n):
        d = td.joinpath(f"rnd_{i:05d}")
        d.mkdir()
        kind = "online" if rng.random() < 0.4 else "offline"
        flavour = rng.choice(["nidq", "nidq", "imec", "nometa", "stale", "oddmeta"])
        if flavour == "imec" and not fixtures:
            flavour = "nidq"
        fs = float(rng.choice(FS_FRAC)) if rng.random() < 0.5 else int(rng.choice(FS_INT))
        ns_meta = int(rng.integers(1, 60))
        kwargs = dict(ignore_warnings=bool(rng.random() < 0.3))
        if rng.random() < 0.15:
            kwargs["sort"] = False
        mutate = None
        dtype = np.int16
        if flavour == "imec":
            fixture = fixtures[int(rng.integers(len(fixtures)))]
            nc = int(spikeglx.read_meta_data(fixture)["nSavedChans"])
            file_bin = d.joinpath("rnd_g0_t0.imec0.ap.bin")
        elif flavour == "nometa":
            nc = int(rng.integers(1, 12))
            dtype = np.dtype(str(rng.choice(["int16", "float32", "uint8", "int32", "float64"])))
            file_bin = d.joinpath("flat.bin")
        else:
            nc = int(rng.integers(1, 17))
            file_bin = d.joinpath("rnd_g0_t0.nidq.bin")
        frame = nc * np.dtype(dtype).itemsize
        # the size of the file relative to what the meta-data claims
        mode = rng.choice(["equal", "shorter", "longer", "trail", "any"])
        if mode == "equal":
            nbytes = ns_meta * frame
        elif mode == "shorter":
            nbytes = int(rng.integers(1, ns_meta + 1)) * frame + int(rng.integers(0, frame)) * int(rng.random() < 0.5)
            nbytes = min(nbytes, ns_meta * frame)
        elif mode == "longer":
            nbytes = (ns_meta + int(rng.integers(1, 30))) * frame + int(rng.integers(0, frame)) * int(rng.random() < 0.5)
        elif mode == "trail":
            nbytes = ns_meta * frame + int(rng.integers(1, frame)) if frame > 1 else ns_meta * frame + 1
        else:
            nbytes = int(rng.integers(frame, frame * (ns_meta + 20)))
        write_bin(file_bin, rng, nbytes, dtype)
        if flavour == "imec":
            write_imec_meta(file_bin.with_suffix(".meta"), fixture, fs, ns_meta / fs, ns_meta * frame)
        elif flavour == "nometa":
            kwargs.update(nc=nc, ns=ns_meta, fs=int(fs) if rng.random() < 0.7 else fs, dtype=dtype)
            if rng.random() < 0.1:
                kwargs["fs"] = 0  # the duration cannot be computed when sizes mismatch: same exception expected
            if rng.random() < 0.3:
                kwargs["nsync"] = 1
        elif flavour == "oddmeta":
            # durations landing on or next to a rounding tie, durations that do not parse to a float, odd sizes
            choice = int(rng.integers(0, 5))
            if choice == 0:
                ftsec, txt = (ns_meta + 0.5) / fs, None
            elif choice == 1:
                ftsec, txt = np.nextafter((ns_meta + 0.5) / fs, rng.choice([0.0, 1e9])), None
            elif choice == 2:
                ftsec, txt = 0.0, repr(ns_meta / 3e7)  # exponent notation: stays a string in the meta-data
            elif choice == 3:
                ftsec, txt = 0.0, f"{ns_meta}.5,{ns_meta}"  # parses to a list
            else:
                ftsec, txt = 0.0, "0"
            write_nidq_meta(file_bin.with_suffix(".meta"), nc, fs, ftsec, nbytes + int(rng.integers(-3, 4)), txt)
        else:
            write_nidq_meta(file_bin.with_suffix(".meta"), nc, fs, ns_meta / fs, ns_meta * frame)
        if flavour == "stale":
            # the file changes between the instantiation (nbytes recorded) and open()
            nb2 = int(rng.integers(0, frame * (ns_meta + 20))) if rng.random() < 0.8 else nbytes
            mutate = make_mutator(rng.integers(0, 256, size=nb2, dtype=np.uint8).tobytes())
        run_case(f"random {i} {flavour} {kind} nc={nc} fs={fs} ns_meta={ns_meta} nbytes={nbytes} mode={mode}",
                 kind, file_bin, kwargs, mutate=mutate, full=True)
        shutil.rmtree(d)


# ----------------------------------------------------------------------------------------------------------
# 3. compressed files whose chunks disagree (or agree) with the meta-data
# ----------------------------------------------------------------------------------------------------------
def compressed_cases(td, rng, n=24):
    for i in range(n):
        d = td.joinpath(f"cbin_{i:05d}")
        d.mkdir()
        nc = int(rng.integers(1, 9))
        fs = float(rng.choice([999.5, 2500.0371, 1234.5678])) if i % 2 else int(rng.choice([1000, 2500, 500]))
        ns_true = int(rng.integers(40, 6000))
        delta = int(rng.choice([0, 0, -17, 23, 1, -1, 1500]))
        ns_meta = max(1, ns_true + delta)
        file_bin = d.joinpath("comp_g0_t0.nidq.bin")
        data = rng.integers(-2000, 2000, size=(ns_true, nc), dtype=np.int16)
        data.tofile(file_bin)
        file_cbin = file_bin.with_suffix(".cbin")
        with warnings.catch_warnings(), open(os.devnull, "w") as devnull, contextlib.redirect_stderr(devnull):
            warnings.simplefilter("ignore")  # and no progress bars
            mtscomp.compress(file_bin, out=file_cbin, outmeta=file_bin.with_suffix(".ch"), sample_rate=fs,
                             n_channels=nc, dtype=np.int16, chunk_duration=float(rng.choice([0.5, 1.0, 3.0])))
        file_bin.unlink()
        with_meta = i % 8 != 7
        kwargs = dict(ignore_warnings=bool(i % 3 == 0))
        if with_meta:
            write_nidq_meta(file_cbin.with_suffix(".meta"), nc, fs, ns_meta / fs, ns_meta * nc * 2)
        else:  # no meta-data: the fudge cannot be written, same exception expected unless shapes agree
            kwargs.update(nc=nc, ns=ns_meta, fs=int(fs))
        for kind in ("offline", "online"):
            run_case(f"compressed {i} {kind} nc={nc} fs={fs} ns_true={ns_true} ns_meta={ns_meta} meta={with_meta}",
                     kind, file_cbin, kwargs, full=True)
        shutil.rmtree(d)


# ----------------------------------------------------------------------------------------------------------
# 4. the sample count property on its own, for all sorts of durations and sampling rates
# ----------------------------------------------------------------------------------------------------------
def ns_property_cases(rng, n=1500):
    global N_COMPARED, N_EXC

    def mk(cls, ftsec, fs, typ):
        sr = object.__new__(cls)
        key = "imSampRate" if typ == "imec" else "niSampRate"
        sr.meta = Bunch({"typeThis": typ, key: fs, "fileTimeSecs": ftsec, "nSavedChans": 4.0})
        sr._ns = 12
        return sr

    values = []
    for _ in range(n):
        fs = float(rng.choice(FS_FRAC)) if rng.random() < 0.5 else float(rng.choice(FS_INT))
        k = int(rng.integers(0, 10 ** int(rng.integers(1, 12))))
        c = int(rng.integers(0, 7))
        if c == 0:
            ft = k / fs
        elif c == 1:
            ft = (k + 0.5) / fs
        elif c == 2:
            ft = float(np.nextafter((k + 0.5) / fs, rng.choice([-1.0, 1e300])))
        elif c == 3:
            ft = float(rng.random() * 10.0 ** int(rng.integers(-8, 8)))
        elif c == 4:
            ft = k + 0.5
            fs = 1.0
        elif c == 5:
            ft = (k // 1000 + 0.5) / 2 ** int(rng.integers(0, 8))
            fs = float(2 ** int(rng.integers(0, 8)))
        else:
            ft = -float(rng.random() * 100)
        values.append((ft, fs))
    specials = [float("inf"), float("-inf"), float("nan"), 0.0, -0.0, 0.5, 1.5, 2.5, -0.5, -1.5, 1e300, 1e308, 5e-324,
                2.0 ** 53, 2.0 ** 53 + 2, 4503599627370496.5, None, "12.5", [1.0, 2.0], 3, 2 ** 70, True,
                np.float64(12.5), np.float64(13.5), np.float32(7.5), np.float32(0.1), np.float16(2.5), np.int64(12), np.int16(3),
                np.array(12.5), np.array(13.5), np.array([14.5]), np.array([1.5, 2.5]), np.float64("nan"), np.float64("inf"),
                1 + 2j, np.longdouble(2.5)]
    for s in specials:
        for fs in (1.0, 1, 2.5, 30000.0, np.float64(2.0), np.float32(1.0), 3, None, "30000", 0.0, 1e308):
            values.append((s, fs))
    for ft, fs in values:
        for typ in ("imec", "nidq"):
            with warnings.catch_warnings():
                warnings.simplefilter("ignore")
                ref = _attempt(lambda: mk(RefReader, ft, fs, typ).ns)
                new = _attempt(lambda: mk(spikeglx.Reader, ft, fs, typ).ns)
            N_COMPARED += 1
            N_EXC += ref[0] == "exc"
            if not _same(ref, new):
                FAILURES.append(f"ns property fileTimeSecs={ft!r} fs={fs!r} {typ}: reference {ref} / new {new}")
    # without meta-data
    for cls_ref, cls_new in ((RefReader, spikeglx.Reader),):
        a, b = object.__new__(cls_ref), object.__new__(cls_new)
        a.meta = b.meta = None
        a._ns = b._ns = 1234
        N_COMPARED += 1
        if not _same(a.ns, b.ns):
            FAILURES.append("ns property without meta-data differs")


def main():
    rng = np.random.default_rng(SEED)
    with tempfile.TemporaryDirectory(prefix="demo_c11_") as td:
        td = Path(td)
        sweep_truncation_points(td, rng)
        n_sweep = N_COMPARED
        random_cases(td, rng)
        n_random = N_COMPARED - n_sweep
        compressed_cases(td, rng)
        n_comp = N_COMPARED - n_sweep - n_random
    ns_property_cases(rng)
    n_prop = N_COMPARED - n_sweep - n_random - n_comp
    print(f"{N_COMPARED} comparisons ({n_sweep} truncation sweep, {n_random} random files, {n_comp} compressed, "
          f"{n_prop} sample-count property), {N_EXC} of them raising in the reference, "
          f"{time.time() - T_START:.1f} s")
    if FAILURES:
        print(f"DIFFERENCES FOUND: {len(FAILURES)}")
        for f in FAILURES[:25]:
            print(" -", f)
        return 1
    print("all results identical: OK")
    return 0


if __name__ == "__main__":
    sys.exit(main())
