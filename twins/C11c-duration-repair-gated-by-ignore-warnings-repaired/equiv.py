import sys, os; sys.path.insert(0, os.path.join(os.path.dirname(os.path.abspath(__file__)), "src"))
"""
C11: truncated / inconsistent files open and expose exactly the complete sample frames present.

The check is made for every way of constructing the reader that the API allows (offline / online reader,
ignore_warnings False / True), on flat binaries cut at arbitrary byte positions (shorter and longer than the
meta-data announces, integer and fractional sampling rates) and on a compressed file shorter than announced.
The oracle is plain NumPy: floor(nbytes / (nc * 2)) frames, values equal to the file's prefix.
"""
import logging
import shutil
import tempfile
from pathlib import Path

import numpy as np

import spikeglx

logging.disable(logging.CRITICAL)
FIXTURES = Path(spikeglx.__file__).parent.joinpath("tests", "fixtures")
failures = []


def check_reader(label, cls, file_bin, expected, fs, **kwargs):
    """expected: (nframes, nc) int16 array of the complete frames physically in the file"""
    nfr, nc = expected.shape
    try:
        sr = cls(file_bin, **kwargs)
    except Exception as e:  # opening must succeed
        failures.append(f"{label}: opening raised {type(e).__name__}: {e}")
        return
    try:
        if sr.ns != nfr or sr.shape != (nfr, nc):
            failures.append(f"{label}: exposes shape {sr.shape}, the file holds {nfr} complete frames of {nc} channels")
            return
        if not np.isclose(sr.rl, nfr / fs, rtol=0, atol=0.25 / fs):
            failures.append(f"{label}: duration {sr.rl} s does not match the {nfr} samples exposed ({nfr / fs} s)")
        # (the online reader counts its samples from the file itself, its meta-data has no duration to speak of)
        if cls is spikeglx.Reader and not np.isclose(sr.meta["fileTimeSecs"] * fs, nfr, rtol=0, atol=0.25):
            failures.append(f"{label}: fileTimeSecs {sr.meta['fileTimeSecs']} does not match {nfr} samples")
        raw = np.asarray(sr._raw[0:nfr + 7, :])  # an over-long slice must stop at the end of the file
        if raw.shape != expected.shape or not np.array_equal(raw, expected):
            failures.append(f"{label}: samples read {raw.shape} differ from the file's prefix {expected.shape}")
        last = sr[nfr - 1, :]  # the last complete frame is readable through the public indexing
        ref = expected[nfr - 1, sr.raw_channel_order] * sr.sample2volts
        if not np.allclose(last, ref):
            failures.append(f"{label}: last complete frame differs from the file content")
    except Exception as e:
        failures.append(f"{label}: reading raised {type(e).__name__}: {e}")
    finally:
        sr.close()


def flat_binaries(tdir, name, meta, nc, ns_meta):
    mock = spikeglx._mock_spikeglx_file(
        Path(tdir).joinpath(name), FIXTURES.joinpath(meta), ns=ns_meta, nc=nc, sync_depth=8, random=True)
    file_bin = mock["bin_file"]
    fs = spikeglx._get_fs_from_meta(spikeglx.read_meta_data(file_bin.with_suffix(".meta")))
    frame = nc * 2
    rng = np.random.default_rng(11)
    # what the writer had put on disk before being cut: longer than anything the meta-data announces
    written = rng.integers(-3000, 3000, size=(ns_meta + 12) * nc, dtype=np.int16)
    meta_original = file_bin.with_suffix(".meta").read_text()
    for nfr in (1, 22, ns_meta - 1, ns_meta, ns_meta + 9):
        for extra in (0, 1, frame // 2, frame - 1):
            nbytes = nfr * frame + extra
            with open(file_bin, "wb") as fid:
                fid.write(written.tobytes()[:nbytes])
            expected = np.fromfile(file_bin, dtype=np.uint8)[:nfr * frame].view(np.int16).reshape(nfr, nc)
            for cls in (spikeglx.Reader, spikeglx.OnlineReader):
                for ignore_warnings in (False, True):
                    file_bin.with_suffix(".meta").write_text(meta_original)
                    label = (f"{name} fs={fs} announced={ns_meta} frames, on disk {nfr} frames + {extra} bytes, "
                             f"{cls.__name__}(ignore_warnings={ignore_warnings})")
                    check_reader(label, cls, file_bin, expected, fs, ignore_warnings=ignore_warnings)


def compressed_shorter_than_announced(tdir):
    nc, ns_meta, ns_disk = 385, 45000, 31000
    mock = spikeglx._mock_spikeglx_file(
        Path(tdir).joinpath("short_g0_t0.imec.ap.bin"), FIXTURES.joinpath("sample3A_short_g0_t0.imec.ap.meta"),
        ns=ns_meta, nc=nc, sync_depth=16, random=True)
    file_bin = mock["bin_file"]
    meta_original = file_bin.with_suffix(".meta").read_text()
    with open(file_bin, "r+b") as fid:  # acquisition interrupted, then the file gets compressed
        fid.truncate(ns_disk * nc * 2)
    expected = mock["D"][:ns_disk, :]
    import mtscomp
    file_cbin = file_bin.with_suffix(".cbin")
    mtscomp.compress(file_bin, out=file_cbin, outmeta=file_bin.with_suffix(".ch"),
                     sample_rate=30000, n_channels=nc, dtype=np.int16)
    file_bin.unlink()
    for ignore_warnings in (False, True):
        file_bin.with_suffix(".meta").write_text(meta_original)
        label = f"cbin announced={ns_meta}, compressed {ns_disk} frames, Reader(ignore_warnings={ignore_warnings})"
        check_reader(label, spikeglx.Reader, file_cbin, expected, 30000, ignore_warnings=ignore_warnings)


tdir = tempfile.mkdtemp(prefix="c11_demo_")
try:
    flat_binaries(tdir, "int_g0_t0.imec.ap.bin", "sample3A_g0_t0.imec.ap.meta", nc=385, ns_meta=32)
    flat_binaries(tdir, "frac_g0_t0.nidq.bin", "sample3B_g0_t0.nidq.meta", nc=2, ns_meta=4001)
    compressed_shorter_than_announced(tdir)
finally:
    shutil.rmtree(tdir, ignore_errors=True)

if failures:
    print(f"C11 violated in {len(failures)} cases, e.g.:")
    for f in failures[:12]:
        print("  -", f)
    sys.exit(1)
print("C11 holds: every truncated / inconsistent file exposes exactly its complete frames")
sys.exit(0)
