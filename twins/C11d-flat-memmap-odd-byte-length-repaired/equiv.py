import sys, os; sys.path.insert(0, os.path.join(os.path.dirname(os.path.abspath(__file__)), "src"))
"""
C11: a binary whose size disagrees with its meta-data must open and expose exactly the complete sample
frames physically present, floor(nbytes / (nc * itemsize)), equal to the prefix of the file, with a
duration that matches.  The binary is cut at every byte of its last frame, as an interrupted writer or a
truncated copy would leave it, shorter and longer than what the meta-data announce.

The oracle is the definition: integer arithmetic on the file size and np.fromfile on the prefix.
"""
import logging
import shutil
import tempfile
from pathlib import Path

import numpy as np

import spikeglx

logging.disable(logging.CRITICAL)
FIXTURES = Path(spikeglx.__file__).parent.joinpath("tests", "fixtures")
ITEMSIZE = 2


def check_one(bin_file, full_bytes, nc, nbytes, failures, label):
    """Cuts the binary at nbytes, opens it and compares with the definition"""
    with open(bin_file, "wb") as fid:
        fid.write(full_bytes[:nbytes])
    ns_expected = nbytes // (nc * ITEMSIZE)
    expected = np.frombuffer(full_bytes[: ns_expected * nc * ITEMSIZE], dtype=np.int16).reshape(ns_expected, nc)
    tag = f"{label}: {nbytes} bytes = {ns_expected} frames + {nbytes - ns_expected * nc * ITEMSIZE} trailing bytes"
    sr = None
    try:
        sr = spikeglx.Reader(bin_file, sort=False)
        if sr.ns != ns_expected or sr.shape != (ns_expected, nc):
            failures.append(f"{tag}: reader exposes shape {sr.shape}, expected ({ns_expected}, {nc})")
            return
        if not np.isclose(sr.meta["fileTimeSecs"] * sr.fs, ns_expected, atol=1e-3) or sr.rl != ns_expected / sr.fs:
            failures.append(f"{tag}: duration {sr.meta['fileTimeSecs']} s / {sr.rl} s does not match {ns_expected} samples")
            return
        data = sr.read(nsel=slice(None), sync=False)
        if data.shape != (ns_expected, nc):
            failures.append(f"{tag}: full read returns shape {data.shape}")
            return
        counts = np.rint(data[:, :-1] / sr.sample2volts[:-1]).astype(np.int64)
        if not np.array_equal(counts, expected[:, :-1]):
            failures.append(f"{tag}: samples differ from the prefix of the file")
            return
        if sr.read(nsel=slice(ns_expected, ns_expected + 10), sync=False).shape[0] != 0:
            failures.append(f"{tag}: read past the last complete frame returns data")
    except Exception as e:  # noqa
        failures.append(f"{tag}: {type(e).__name__}: {e}")
    finally:
        if sr is not None and sr.is_open:
            sr.close()


def run_case(tdir, name, meta_name, ns_announced, nc, sync_depth, frames, failures):
    bin_file = Path(tdir).joinpath(name)
    # the mock writes a meta-data file that announces ns_announced samples
    spikeglx._mock_spikeglx_file(
        bin_file, FIXTURES.joinpath(meta_name), ns=ns_announced, nc=nc, sync_depth=sync_depth, random=True)
    rng = np.random.default_rng(len(name))
    nframes_max = max(frames) + 2
    full_bytes = rng.integers(-500, 500, size=(nframes_max, nc), dtype=np.int16).tobytes()
    frame = nc * ITEMSIZE
    n = 0
    for k in frames:
        for trail in range(frame):  # every truncation point inside the frame that follows k complete ones
            check_one(bin_file, full_bytes, nc, k * frame + trail, failures, f"{name} (announced {ns_announced} samples)")
            n += 1
    return n


def main():
    failures = []
    tdir = tempfile.mkdtemp(prefix="c11_demo_")
    try:
        n = 0
        # imec ap band, 385 channels, 30 kHz: shorter, equal to and longer than announced
        n += run_case(tdir, "sample3A_g0_t0.imec.ap.bin", "sample3A_g0_t0.imec.ap.meta",
                      ns_announced=24, nc=385, sync_depth=16, frames=[17, 24], failures=failures)
        # nidq, 2 channels, fractional sampling rate 30003.0003 Hz
        n += run_case(tdir, "sample3B_g0_t0.nidq.bin", "sample3B_g0_t0.nidq.meta",
                      ns_announced=32, nc=2, sync_depth=8, frames=[1, 2, 15, 31, 32, 33, 47], failures=failures)
    finally:
        shutil.rmtree(tdir, ignore_errors=True)
    if failures:
        print(f"C11 violated for {len(failures)} of {n} truncation points, first ones:")
        for f in failures[:8]:
            print("  - " + f)
        odd = sum("trailing" in f and int(f.split(" bytes = ")[0].rsplit(" ", 1)[1]) % 2 == 1 for f in failures)
        print(f"({odd} of the failing file lengths are odd numbers of bytes)")
        return 1
    print(f"C11 holds for the {n} truncation points tested: every file opens and exposes floor(nbytes / frame) samples")
    return 0


if __name__ == "__main__":
    sys.exit(main())
