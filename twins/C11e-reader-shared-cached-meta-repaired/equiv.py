import sys, os; sys.path.insert(0, os.path.join(os.path.dirname(os.path.abspath(__file__)), "src"))
"""
C11 - truncated / inconsistent files expose exactly the complete sample frames physically present,
and the duration reported afterwards matches the exposed sample count.

Every reader below is opened on a binary whose size disagrees with its meta-data.  For each reader the oracle
is the plain definition: n = floor(bytes present when the reader was opened / (nc * 2)), the exposed values are
the first n frames of the file read with numpy, reader.ns == n, reader.rl == n / fs and a read of [0, reader.ns)
returns reader.ns frames.  The checks are done once right after opening, and once more *afterwards*, when another
reader has been opened on a binary that is described by the same meta-data file.
"""
import logging
import shutil
import tempfile
from pathlib import Path

import numpy as np

import spikeglx

logging.getLogger("ibllib").setLevel(logging.ERROR)
FIXTURES = Path(spikeglx.__file__).parent.joinpath("tests", "fixtures")
NC = 385
FRAME = NC * 2
errors = []


def oracle(bin_file, nbytes):
    """complete frames among the first nbytes of the file, straight from the definition"""
    n = nbytes // FRAME
    return n, np.fromfile(bin_file, dtype=np.int16, count=n * NC).reshape(n, NC)


def check(label, sr, bin_file, nbytes):
    n, expected = oracle(bin_file, nbytes)
    fs = sr.fs
    if sr.ns != n:
        errors.append(f"{label}: reader reports ns={sr.ns}, the file held {n} complete frames "
                      f"({nbytes} bytes) when it was opened")
    if not np.isclose(sr.rl, n / fs, rtol=0, atol=1e-9):
        errors.append(f"{label}: reported duration {sr.rl} s, exposed frames last {n / fs} s")
    if sr.shape != (n, NC):
        errors.append(f"{label}: shape {sr.shape}, expected {(n, NC)}")
    try:
        raw = np.array(sr._raw[:sr.ns, :])
        d = sr.read(nsel=slice(0, sr.ns), sync=False)
    except Exception as e:  # no read should raise
        errors.append(f"{label}: reading the [0, ns) range raised {type(e).__name__}: {e}")
        return
    if d.shape[0] != sr.ns:
        errors.append(f"{label}: reading [0, ns={sr.ns}) returned {d.shape[0]} frames: "
                      f"the reported sample count does not match what is exposed")
    if raw.shape != expected.shape or not np.array_equal(raw, expected):
        errors.append(f"{label}: exposed values differ from the {n}-frame prefix of the file")


def write_frames(bin_file, data, trailing_bytes, mode="wb"):
    with open(bin_file, mode) as fid:
        fid.write(data.tobytes())
        fid.write(b"\x07" * trailing_bytes)


def scenario_recording_in_progress(tdir, meta_fixture, tag):
    """one file that grows: a reader is opened, the acquisition goes on, the file is polled with a new reader"""
    rng = np.random.default_rng(11)
    folder = Path(tdir).joinpath(tag)
    folder.mkdir()
    mock = spikeglx._mock_spikeglx_file(
        folder.joinpath("rec_g0_t0.imec0.ap.bin"), FIXTURES.joinpath(meta_fixture), ns=40, nc=NC, sync_depth=16)
    bin_file = mock["bin_file"]
    data = rng.integers(-2000, 2000, size=(40, NC), dtype=np.int16)
    # acquisition interrupted in the middle of frame 23: 22 complete frames and 431 bytes of the next one
    write_frames(bin_file, data[:22], 431)
    size_a = bin_file.stat().st_size
    sra = spikeglx.Reader(bin_file)
    check(f"{tag}: first reader, just opened", sra, bin_file, size_a)
    # the writer carries on appending: 9 more frames worth of samples and 128 more bytes
    write_frames(bin_file, data[22:31], 128, mode="ab")
    size_b = bin_file.stat().st_size
    srb = spikeglx.Reader(bin_file)
    check(f"{tag}: second reader, just opened", srb, bin_file, size_b)
    # afterwards: the first reader still maps what it mapped when it was opened
    check(f"{tag}: first reader, after the second one was opened", sra, bin_file, size_a)
    sra.close()
    srb.close()


def scenario_two_copies_one_meta(tdir):
    """two truncated copies of a recording in different folders, opened with the same meta_file"""
    rng = np.random.default_rng(12)
    folder = Path(tdir).joinpath("copies")
    folder.mkdir()
    mock = spikeglx._mock_spikeglx_file(
        folder.joinpath("rec_g0_t0.imec0.ap.bin"), FIXTURES.joinpath("sample3B_g0_t0.imec1.ap.meta"),
        ns=64, nc=NC, sync_depth=16)
    meta_file = mock["bin_file"].with_suffix(".meta")
    data = rng.integers(-2000, 2000, size=(64, NC), dtype=np.int16)
    copies = []
    for i, (nframes, trailing) in enumerate(((17, 769), (51, 1))):
        sub = folder.joinpath(f"copy{i}")
        sub.mkdir()
        bin_file = sub.joinpath("rec_g0_t0.imec0.ap.bin")
        write_frames(bin_file, data[:nframes], trailing)
        copies.append(bin_file)
    readers = []
    for i, bin_file in enumerate(copies):
        sr = spikeglx.Reader(bin_file, meta_file=meta_file)
        check(f"copies: copy{i}, just opened", sr, bin_file, bin_file.stat().st_size)
        readers.append(sr)
    for i, (sr, bin_file) in enumerate(zip(readers, copies)):
        check(f"copies: copy{i}, after all copies were opened", sr, bin_file, bin_file.stat().st_size)
        sr.close()


def scenario_truncated_bin_next_to_cbin(tdir):
    """a truncated .bin sits next to the complete .cbin: both have the same companion meta-data file"""
    folder = Path(tdir).joinpath("cbin")
    folder.mkdir()
    mock = spikeglx._mock_spikeglx_file(
        folder.joinpath("rec_g0_t0.imec0.ap.bin"), FIXTURES.joinpath("sample3A_g0_t0.imec.ap.meta"),
        ns=48, nc=NC, sync_depth=16, random=True)
    bin_file = mock["bin_file"]
    with spikeglx.Reader(bin_file) as sr:
        cbin_file = sr.compress_file(keep_original=True)
    # truncated copy of the flat binary: 29 frames and 3 bytes
    with open(bin_file, "r+b") as fid:
        fid.truncate(29 * FRAME + 3)
    srb = spikeglx.Reader(bin_file)
    check("bin + cbin: truncated bin, just opened", srb, bin_file, bin_file.stat().st_size)
    src = spikeglx.Reader(cbin_file)
    if src.ns != 48:
        errors.append(f"bin + cbin: compressed reader reports ns={src.ns}, expected 48")
    check("bin + cbin: truncated bin, after the cbin was opened", srb, bin_file, bin_file.stat().st_size)
    srb.close()
    src.close()


if __name__ == "__main__":
    tdir = tempfile.mkdtemp(prefix="c11_demo_")
    try:
        # integer and fractional sampling rates
        scenario_recording_in_progress(tdir, "sample3A_g0_t0.imec.ap.meta", "in progress (fs 30000)")
        scenario_recording_in_progress(tdir, "sample3B_g0_t0.imec1.ap.meta", "in progress (fractional fs)")
        scenario_two_copies_one_meta(tdir)
        scenario_truncated_bin_next_to_cbin(tdir)
    finally:
        shutil.rmtree(tdir, ignore_errors=True)
    if errors:
        print("C11 violated: truncated files do not expose / report exactly the complete frames present")
        for e in errors:
            print("  -", e)
        sys.exit(1)
    print("C11 holds: every reader exposes and reports exactly the complete frames present when it was opened")
    sys.exit(0)
