import sys, os; sys.path.insert(0, os.path.join(os.path.dirname(os.path.abspath(__file__)), "src"))
"""
C11: a binary whose size disagrees with its meta-data opens and exposes exactly
floor(bytes / (channels x bytes per sample)) frames, equal to the file's prefix.

History exercised here: the reader object is built (open=False) while the file is
still being written / copied, the file length changes, and only then is it opened.
The oracle is the file itself, read back with plain NumPy at the moment of opening.
"""
import logging
import tempfile
from pathlib import Path

import numpy as np

import spikeglx

logging.disable(logging.CRITICAL)
HERE = Path(os.path.dirname(os.path.abspath(__file__)))
FIXTURES = HERE / "src" / "tests" / "fixtures"
errors = []


def oracle(file_bin, nc):
    raw = np.fromfile(file_bin, dtype=np.int16)
    n = raw.size // nc
    return n, raw[: n * nc].reshape(n, nc)


def check(label, sr, file_bin, nc):
    n, prefix = oracle(file_bin, nc)
    try:
        if sr.ns != n:
            errors.append(f"{label}: {file_bin.stat().st_size} bytes on disk hold {n} complete frames, reader exposes ns={sr.ns}")
            return
        got = np.array(sr._raw[:n, :])
        if got.shape != prefix.shape or not np.array_equal(got, prefix):
            errors.append(f"{label}: exposed samples differ from the file prefix")
        sr.read(nsel=slice(n - 1, n), sync=False)  # the last complete frame is readable
        if int(np.round(sr.meta["fileTimeSecs"] * sr.fs)) != n or not np.isclose(sr.rl, n / sr.fs):
            errors.append(f"{label}: duration {sr.meta['fileTimeSecs']} s does not match the {n} exposed frames")
    except Exception as e:  # no read may raise
        errors.append(f"{label}: {type(e).__name__}: {e}")


def scenario(label, meta_name, nc, ns_meta, bytes_at_init, bytes_at_open, cls=spikeglx.Reader):
    """meta announces ns_meta frames; the file holds bytes_at_init when the reader is built and bytes_at_open when it is opened"""
    with tempfile.TemporaryDirectory(prefix="c11_") as td:
        stem = meta_name[: -len(".meta")]
        mock = spikeglx._mock_spikeglx_file(
            Path(td) / f"{stem}.bin", FIXTURES / meta_name, ns=ns_meta, nc=nc, sync_depth=8, random=True
        )
        file_bin = mock["bin_file"]
        stream = np.random.randint(-3000, 3000, size=max(bytes_at_init, bytes_at_open) // 2 + 1, dtype=np.int16).tobytes()
        with open(file_bin, "wb") as fid:  # what the writer has flushed so far
            fid.write(stream[:bytes_at_init])
        sr = cls(file_bin, open=False)
        with open(file_bin, "wb") as fid:  # the writer carries on (or the copy is restarted)
            fid.write(stream[:bytes_at_open])
        try:
            sr.open()
        except Exception as e:
            errors.append(f"{label}: open raised {type(e).__name__}: {e}")
            return
        try:
            check(label, sr, file_bin, nc)
        finally:
            sr.close()


fb = 385 * 2
# file still growing between construction and open, last frame incomplete (integer rate)
scenario("growing, 3A ap 30000 Hz", "sample3A_g0_t0.imec.ap.meta", 385, 64, 20 * fb + 100, 41 * fb + 333)
# same with a fractional sampling rate, growing past what the meta-data announces
scenario("growing past meta, 3B ap 30000.39 Hz", "sample3B_g0_t0.imec1.ap.meta", 385, 32, 20 * fb + 1, 47 * fb + fb - 1)
# copy restarted: shorter at open than at construction
scenario("shrunk, 3A ap 30000 Hz", "sample3A_g0_t0.imec.ap.meta", 385, 64, 50 * fb + 7, 30 * fb + 5)
# nidq, two channels, fractional rate
scenario("growing, nidq 30003.0003 Hz", "sample3B_g0_t0.nidq.meta", 2, 100, 40 * 4 + 3, 77 * 4 + 1)
# online reader: the duration written to the meta-data must follow the exposed frames
scenario("online growing, 3A ap", "sample3A_g0_t0.imec.ap.meta", 385, 64, 20 * fb + 100, 41 * fb + 333, cls=spikeglx.OnlineReader)
# control: nothing happens between construction and open
scenario("control, static truncated file", "sample3A_g0_t0.imec.ap.meta", 385, 64, 29 * fb + 11, 29 * fb + 11)

if errors:
    print("C11 violated:")
    for e in errors:
        print("  -", e)
    sys.exit(1)
print("C11 holds: every opened file exposed exactly its complete frames")
sys.exit(0)
