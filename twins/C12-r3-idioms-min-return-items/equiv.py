#!/venv/bin/python
"""
Differential check for refactor_3.diff (idiom replacements in WindowGenerator.firstlast, NP2Converter.init_params
and NP2Converter._writemetadata_lf: min() in one step, explicit assignments, keywords, dict.items()).

Runs the ORIGINAL implementation (pristine copy of HEAD in /tmp/wt_C12_tmp/orig) and the
implementation of the worktree (/tmp/wt_C12/src), each in its own interpreter, on the same inputs
and compares every observable: returned arrays (bytes, dtype, shape), in-place modified inputs,
files written (names and sha256 of *.bin / *.meta), return codes and exceptions.

Prints EQUIVALENT and exits 0 when nothing differs.
"""
import hashlib
import json
import os
from pathlib import Path
import shutil
import subprocess
import sys
import tempfile
import traceback
import types

WT = Path("/tmp/wt_C12")
SRC_NEW = WT / "src"
SCRATCH = Path("/tmp/wt_C12_tmp")
SRC_ORIG = SCRATCH / "orig"
FIXTURES = SRC_NEW / "tests" / "fixtures" / "np2split"  # meta templates, never modified here
PYTHON = "/venv/bin/python"
FOCUS = "idioms"


def ensure_orig():
    """(Re)creates the pristine copy of the library from HEAD of the worktree"""
    files = subprocess.check_output(["git", "-C", str(WT), "ls-files", "src"], text=True).split()
    for f in files:
        if f.startswith("src/tests/"):
            continue
        dest = SRC_ORIG / f[len("src/"):]
        dest.parent.mkdir(parents=True, exist_ok=True)
        dest.write_bytes(subprocess.check_output(["git", "-C", str(WT), "show", f"HEAD:{f}"]))


# --------------------------------------------------------------------------------------------
# worker: runs in a subprocess with `srcdir` first on sys.path
# --------------------------------------------------------------------------------------------
def _h(a):
    import numpy as np
    a = np.asarray(a)
    return [str(a.dtype), list(a.shape), hashlib.sha256(np.ascontiguousarray(a).tobytes()).hexdigest()]


def _call(fun, *args, **kwargs):
    """returns a json-able description of the outcome of a call, exceptions included"""
    try:
        out = fun(*args, **kwargs)
    except BaseException as e:  # noqa
        return {"exception": [type(e).__name__, str(e)]}
    return {"ok": out}


def _tree(folder):
    out = {}
    for p in sorted(Path(folder).rglob("*")):
        if p.is_file():
            out[str(p.relative_to(folder))] = [
                p.stat().st_size, hashlib.sha256(p.read_bytes()).hexdigest()]
    return out


def _make_recording(folder, version, ns, rng, kind="broadband"):
    """writes a NP2.x ap.bin + meta in folder/probe00, returns the bin file"""
    import numpy as np
    nc = 385
    pdir = Path(folder) / "probe00"
    pdir.mkdir(parents=True)
    name = "_spikeglx_ephysData_g0_t0.imec0.ap"
    if kind == "broadband":
        dat = rng.integers(-6000, 6000, size=(ns, nc)).astype(np.int16)
        # add slow components so that the low-passed trace is far from zero
        t = np.arange(ns)[:, np.newaxis]
        dat = (dat // 4 + (1500 * np.sin(2 * np.pi * t / rng.integers(200, 900, size=(1, nc))))
               .astype(np.int16)).astype(np.int16)
    elif kind == "extreme":
        dat = rng.choice(np.array([-8192, 8191, 0, 1, -1], dtype=np.int16), size=(ns, nc))
    else:
        dat = np.tile(np.arange(nc)[np.newaxis, :] + 10000, [ns, 1]).astype(np.int16)
    dat[:, -1] = rng.integers(0, 2 ** 15, size=ns).astype(np.int16)  # sync words
    dat.tofile(pdir / (name + ".bin"))
    meta = (FIXTURES / f"{version}_meta" / (name + ".meta")).read_text().splitlines()
    with open(pdir / (name + ".meta"), "w") as fid:
        for line in meta:
            if line.startswith("fileSizeBytes="):
                line = f"fileSizeBytes={ns * nc * 2}"
            if line.startswith("fileTimeSecs="):
                line = f"fileTimeSecs={ns / 30000}"
            fid.write(line + "\n")
    return pdir / (name + ".bin"), dat


def worker(srcdir, outfile):
    sys.path.insert(0, srcdir)
    import numpy as np
    import neuropixel
    import spikeglx
    import ibldsp.utils
    for m in (neuropixel, spikeglx, ibldsp.utils):
        assert Path(m.__file__).resolve().is_relative_to(Path(srcdir).resolve()), (m.__file__, srcdir)
    res = {"paths": None}
    tmp = Path(tempfile.mkdtemp(prefix="equiv_", dir=str(SCRATCH)))
    try:
        # ---- 1. WindowGenerator ------------------------------------------------------------
        rng = np.random.default_rng(1234)
        combos = [(500, 100, 50), (500, 100, 10), (600, 100, 20), (100, 100, 0), (50, 100, 10),
                  (1, 1, 0), (30000, 9000, 576), (30001, 9000.0, 576), (7001, 588, 576),
                  (12345, 60000, 576), (0, 10, 2), (10, 3, 2), (101, 100, 99)]
        for _ in range(300):
            nswin = int(rng.integers(1, 400))
            combos.append((int(rng.integers(0, 3000)), nswin, int(rng.integers(0, nswin))))
        wgres = []
        for ns, nswin, overlap in combos:
            def _wg():
                wg = ibldsp.utils.WindowGenerator(ns, nswin, overlap)
                fl, iws = [], []
                for first, last in wg.firstlast:
                    fl.append([int(first), int(last), type(first).__name__, type(last).__name__])
                    iws.append(wg.iw)
                out = {"nwin": [wg.nwin, type(wg.nwin).__name__], "fl": fl, "iw": iws,
                       "iw_end": wg.iw, "attrs": [wg.ns, wg.nswin, wg.overlap]}
                out["slices"] = [[s.start, s.stop, s.step] for s in wg.slice]
                out["tscale"] = _h(wg.tscale(fs=30000))
                out["valid"] = _call(lambda: [list(map(int, v)) for v in wg.firstlast_valid])
                out["splice"] = _call(lambda: [[int(f), int(la), _h(a)] for f, la, a in wg.firstlast_splicing])
                sig = np.arange(ns * 2).reshape(2, ns) if ns > 0 else np.zeros((2, 0))
                out["slice_array"] = [_h(x) for x in wg.slice_array(sig)]
                return out
            wgres.append(_call(_wg))
        res["wg"] = wgres
        res["wg_zero_div"] = _call(lambda: ibldsp.utils.WindowGenerator(10, 5, 5).nwin)

        # ---- 2. end to end conversions -----------------------------------------------------
        e2e = {}
        cases = [
            # version, ns, nwindow, kind, kwargs of the constructor
            ("NP24", 7001, 2400, "broadband", dict(post_check=True, compress=False)),
            ("NP24", 7001, 3600, "broadband", dict(post_check=False, compress=False)),
            ("NP24", 7001, None, "broadband", dict(post_check=True, compress=False)),
            ("NP24", 9000, 0.1 * 30000, "broadband", dict(post_check=False, compress=False)),
            ("NP24", 5003, 1200, "extreme", dict(post_check=True, compress=False)),
            ("NP24", 6000, 2004, "constant", dict(post_check=True, compress=False)),
            ("NP24", 3000, 588, "broadband", dict(post_check=False, compress=False)),
            ("NP24", 3000, 1000, "broadband", dict(post_check=False, compress=False)),  # not a multiple of 12
            ("NP24", 4001, 2400, "broadband", dict(post_check=True, compress=True)),
            ("NP21", 7001, 2400, "broadband", dict(compress=False)),
            ("NP21", 7001, 3600, "broadband", dict(compress=False)),
            ("NP21", 7001, None, "broadband", dict(compress=False)),
            ("NP21", 12345, 4800, "broadband", dict(compress=False)),
            ("NP21", 5003, 1200, "extreme", dict(compress=False)),
            ("NP21", 2999, 1212, "broadband", dict(compress=False)),
            ("NP21", 4001, 2400, "broadband", dict(compress=True)),
            ("NP1", 3000, 1200, "broadband", dict(compress=False)),
        ]
        for icase, (version, ns, nwindow, kind, kw) in enumerate(cases):
            folder = tmp / f"case{icase:02d}"
            rng = np.random.default_rng(1000 + icase)
            bin_file, _ = _make_recording(folder, version, ns, rng, kind=kind)

            def _run():
                conv = neuropixel.NP2Converter(bin_file, **kw)
                try:
                    conv.init_params(nwindow=nwindow, extra="_x")
                    params = {k: repr(getattr(conv, k)) for k in (
                        "fs_ap", "fs_lf", "ratio", "nsamples", "samples_window", "samples_overlap",
                        "samples_taper", "napch", "idxsyncch", "extra", "nshank")}
                    params["taper"] = _h(conv.taper)
                    params["sos_lp"] = _h(conv.sos_lp)
                    status = conv.process()
                    info = {}
                    for sh, d in getattr(conv, "shank_info", {}).items():
                        info[sh] = {k: (_h(v) if k == "chns" else str(Path(v).relative_to(folder)))
                                    for k, v in d.items()}
                    shapes = {}
                    for sh, d in getattr(conv, "shank_info", {}).items():
                        for k in ("ap_file", "lf_file"):
                            if k in d:
                                sr = spikeglx.Reader(d[k], sort=False)
                                shapes[f"{sh}/{k}"] = [sr.ns, sr.nc, sr.fs, sr.type, _h(sr[:, :])]
                                sr.close()
                    return {"status": status, "params": params, "info": info, "shapes": shapes,
                            "keys": list(getattr(conv, "shank_info", {}).keys())}
                finally:
                    conv.sr.close()
            out = _call(_run)
            out["tree"] = _tree(folder)
            e2e[f"{icase:02d}_{version}_{ns}_{nwindow}_{kind}"] = out
        res["e2e"] = e2e

        # ---- 3. direct calls of the methods on one converter --------------------------------
        folder = tmp / "direct"
        rng = np.random.default_rng(77)
        bin_file, _ = _make_recording(folder, "NP24", 3000, rng)
        conv = neuropixel.NP2Converter(bin_file, post_check=False, compress=False)
        direct = {}
        for nwindow in (2400, 1200.0, 588, None):
            conv.init_params(nwindow=nwindow)
            # extract_lfp / extract_lfp_sync
            for i, (shape, dtype) in enumerate([
                ((384, 2400), np.float32), ((384, 2399), np.float32), ((5, 601), np.float64),
                ((1, 288), np.float32), ((3, 289), np.float32), ((2, 144), np.float32),
                ((2, 100), np.float32), ((0, 600), np.float32), ((4, 1000), np.int16),
                ((600,), np.float32), ((2, 3, 400), np.float32), ((3, 12), np.float64),
            ]):
                chunk = (rng.standard_normal(shape) * 1e-4).astype(dtype) if dtype != np.int16 \
                    else rng.integers(-100, 100, size=shape).astype(dtype)
                original = chunk.copy()

                def _lfp():
                    out = conv.extract_lfp(chunk)
                    return [_h(out), bool(np.shares_memory(out, chunk)), list(out.strides)]
                r = _call(_lfp)
                # the argument is modified in place by the taper: must be identical too
                direct[f"lfp_{nwindow}_{i}"] = [r, _h(chunk), bool(np.array_equal(original, chunk))]

                def _sync():
                    out = conv.extract_lfp_sync(original)
                    return [_h(out), bool(np.shares_memory(out, original)), list(out.strides)]
                direct[f"sync_{nwindow}_{i}"] = _call(_sync)
            direct[f"sync_list_{nwindow}"] = _call(lambda: _h(conv.extract_lfp_sync([[1, 2, 3]])))
            # _ind2save
            for j in range(40):
                nwin = int(rng.integers(1, 5))
                iw = int(rng.integers(0, nwin + 1))
                ratio = [1, 12, 12, 12, 5, 0, 7.5][j % 7]
                etype = ["ap", "lf", "lf", "ap", "xx", "lf"][j % 6]
                n = int(rng.integers(1, 3000))
                nch = [384, 384, 384, 10, 384][j % 5]
                chk = (rng.standard_normal((nch, n)) * 1e-3).astype([np.float32, np.float64][j % 2])
                if j % 11 == 10:
                    chk[0, :3] = [np.nan, np.inf, 1.0]  # goes through round and the int16 cast
                snc = (rng.integers(0, 2 ** 15, size=(1, n)) * [1.0, 1.0, 100.0][j % 3]).astype(np.float32)
                if j % 13 == 12:
                    snc = snc[0]  # 1-D: IndexError
                if j % 17 == 16:
                    snc = snc[:, :-1]  # mismatch between the signal and the sync lengths
                wg = types.SimpleNamespace(iw=iw, nwin=nwin)

                def _i2s():
                    c0, s0 = chk.copy(), snc.copy()
                    out = conv._ind2save(chk, snc, wg, ratio=ratio, etype=etype)
                    return [_h(out), bool(np.array_equal(c0, chk, equal_nan=True)), bool(np.array_equal(s0, snc))]
                with np.errstate(all="ignore"):
                    direct[f"i2s_{nwindow}_{j}"] = _call(_i2s)
            wg = types.SimpleNamespace(iw=None, nwin=3)  # window generator that was never iterated
            direct[f"i2s_none_{nwindow}"] = _call(
                lambda: _h(conv._ind2save(np.ones((384, 700), np.float32), np.ones((1, 700), np.float32),
                                          wg, ratio=12, etype="lf")))
            direct[f"i2s_default_{nwindow}"] = _call(
                lambda: _h(conv._ind2save(np.ones((384, 3000), np.float32) * 1e-3,
                                          np.ones((1, 3000), np.float32), types.SimpleNamespace(iw=1, nwin=3))))
        direct["bad_window"] = _call(lambda: conv.init_params(nwindow=1000))
        conv.sr.close()
        res["direct"] = direct
    finally:
        shutil.rmtree(tmp, ignore_errors=True)
    with open(outfile, "w") as fid:
        json.dump(res, fid, sort_keys=True, default=str)


# --------------------------------------------------------------------------------------------
# driver
# --------------------------------------------------------------------------------------------
def _diff(a, b, path=""):
    if type(a) is not type(b):
        return [f"{path}: {a!r} != {b!r}"]
    if isinstance(a, dict):
        out = []
        for k in sorted(set(a) | set(b)):
            if k not in a or k not in b:
                out.append(f"{path}/{k}: only on one side")
            else:
                out += _diff(a[k], b[k], f"{path}/{k}")
        return out
    if isinstance(a, list):
        if len(a) != len(b):
            return [f"{path}: lengths {len(a)} != {len(b)}"]
        out = []
        for i, (x, y) in enumerate(zip(a, b)):
            out += _diff(x, y, f"{path}[{i}]")
        return out
    return [] if a == b else [f"{path}: {a!r} != {b!r}"]


def main():
    SCRATCH.mkdir(exist_ok=True)
    ensure_orig()
    outs = []
    for label, src in (("orig", SRC_ORIG), ("new", SRC_NEW)):
        out = SCRATCH / f"equiv_{FOCUS}_{label}.json"
        out.unlink(missing_ok=True)
        env = dict(os.environ, TMPDIR=str(SCRATCH), PYTHONDONTWRITEBYTECODE="1")
        env.pop("PYTHONPATH", None)
        log = SCRATCH / f"equiv_{FOCUS}_{label}.log"
        with open(log, "w") as fid:  # the library is chatty (logging, progress bars): keep it in a file
            proc = subprocess.run([PYTHON, "-W", "ignore", __file__, "--worker", str(src), str(out)],
                                  env=env, cwd=str(SCRATCH), stdout=fid, stderr=subprocess.STDOUT)
        if proc.returncode != 0:
            print(log.read_text()[-5000:])
            sys.exit(f"worker {label} failed, see {log}")
        outs.append(json.loads(out.read_text()))
    # sanity: the comparison is not vacuous
    e2e = outs[0]["e2e"]
    nok = sum("ok" in v for v in e2e.values())
    nlf = sum(any(k.endswith(".lf.bin") for k in v["tree"]) for v in e2e.values())
    assert nok >= 14 and nlf >= 12, (nok, nlf, {k: v.get("exception") for k, v in e2e.items()})
    ndirect_ok = sum("ok" in (v[0] if isinstance(v, list) else v) for v in outs[0]["direct"].values())
    assert ndirect_ok > 100, ndirect_ok
    differences = _diff(outs[0], outs[1])
    if differences:
        print("DIFFERENT")
        print("\n".join(differences[:50]))
        sys.exit(1)
    print(f"compared {len(outs[0]['wg'])} window generators, {len(e2e)} conversions ({nlf} with lf files), "
          f"{len(outs[0]['direct'])} direct calls ({ndirect_ok} without exception)")
    print("EQUIVALENT")


if __name__ == "__main__":
    if len(sys.argv) > 1 and sys.argv[1] == "--worker":
        try:
            worker(sys.argv[2], sys.argv[3])
        except BaseException:
            traceback.print_exc()
            sys.exit(2)
    else:
        main()
