import sys, os; sys.path.insert(0, os.path.join(os.path.dirname(os.path.abspath(__file__)), "src"))
"""
Differential equivalence check for the C12 housekeeping change (NP2Converter LFP extraction helpers and
ibldsp.utils.WindowGenerator).

The ORIGINAL implementations of every function touched by the patch are copied verbatim below (section "reference
implementations"); they are compared, on several hundred seeded random and edge-case inputs, with whatever is found
in ./src (patched or not).  Exit code 0 when everything is identical, 1 with a message otherwise.
"""
import copy
import hashlib
import logging
import shutil
import tempfile
import types
from pathlib import Path

import numpy as np
import scipy.signal

import neuropixel
import spikeglx
import ibldsp.utils

logging.getLogger("ibllib").setLevel(logging.CRITICAL)
HERE = Path(__file__).resolve().parent
FIXTURES = HERE.joinpath("src", "tests", "fixtures", "np2split")
META_NAME = "_spikeglx_ephysData_g0_t0.imec0.ap.meta"
BIN_NAME = "_spikeglx_ephysData_g0_t0.imec0.ap.bin"


# --------------------------------------------------------------------------------------------------------------------
# reference implementations: verbatim copies of the original code
# --------------------------------------------------------------------------------------------------------------------
class RefWindowGenerator(object):
    """
    `wg = WindowGenerator(ns, nswin, overlap)`

    Provide sliding windows indices generator for signal processing applications.
    For straightforward spectrogram / periodogram implementation, prefer scipy methods !

    Example of implementations in test_dsp.py.
    """

    def __init__(self, ns, nswin, overlap):
        """
        :param ns: number of sample of the signal along the direction to be windowed
        :param nswin: number of samples of the window
        :return: dsp.WindowGenerator object:
        """
        self.ns = int(ns)
        self.nswin = int(nswin)
        self.overlap = int(overlap)
        self.nwin = max(int(np.ceil(float(ns - nswin) / float(nswin - overlap))), 0) + 1
        self.iw = None

    @property
    def firstlast_splicing(self):
        """
        Generator that yields the indices as well as an amplitude function that can be used
        to splice the windows together.
        In the overlap, the amplitude function gradually transitions the amplitude from one window
        to the next. The amplitudes always sum to one (ie. windows are symmetrical)

        :return: tuple of (first_index, last_index, amplitude_vector]
        """
        w = scipy.signal.windows.hann((self.overlap + 1) * 2 + 1, sym=True)[1:self.overlap + 1]
        assert np.all(np.isclose(w + np.flipud(w), 1))

        for first, last in self.firstlast:
            amp = np.ones(last - first)
            if first > 0:
                amp[:self.overlap] = w
            if last < self.ns:
                amp[last - first - self.overlap:] = np.flipud(w)
            yield (first, last, amp)

    @property
    def firstlast_valid(self):
        """
        Generator that yields a tuple of first, last, first_valid, last_valid index of windows
        The valid indices span up to half of the overlap
        :return:
        """
        assert self.overlap % 2 == 0, "Overlap must be even"
        for first, last in self.firstlast:
            first_valid = 0 if first == 0 else first + self.overlap // 2
            last_valid = last if last == self.ns else last - self.overlap // 2
            yield (first, last, first_valid, last_valid)

    @property
    def firstlast(self, return_valid=False):
        """
        Generator that yields first and last index of windows

        :return: tuple of [first_index, last_index] of the window
        """
        self.iw = 0
        first = 0
        while True:
            last = first + self.nswin
            last = min(last, self.ns)
            yield (first, last)
            if last == self.ns:
                break
            first += self.nswin - self.overlap
            self.iw += 1

    @property
    def slice(self):
        """
        Generator that yields slices of windows

        :return: a slice of the window
        """
        for first, last in self.firstlast:
            yield slice(first, last)

    def slice_array(self, sig, axis=-1):
        """
        Provided an array or sliceable object, generator that yields
        slices corresponding to windows. Especially useful when working on memmpaps

        :param sig: array
        :param axis: (optional, -1) dimension along which to provide the slice
        :return: array slice Generator
        """
        for first, last in self.firstlast:
            yield np.take(sig, np.arange(first, last), axis=axis)

    def tscale(self, fs):
        """
        Returns the time scale associated with Window slicing (middle of window)
        :param fs: sampling frequency (Hz)
        :return: time axis scale
        """
        return np.array(
            [(first + (last - first - 1) / 2) / fs for first, last in self.firstlast]
        )


def ref_init_params(self, nsamples=None, nwindow=None, extra=None, nshank=None):
    """
    Initiliases parameters for processing.

    :param nsamples: the number of samples to process
    :param nwindow: the number of samples in each window when iterating through nsamples
    :param extra: extra string to add the individual shank folder names
    :param nshank: number of shanks to process, must be a list [0], you would only want to
    override this for testing purposes
    :return:
    """
    self.fs_ap = 30000
    self.fs_lf = 2500
    self.ratio = int(self.fs_ap / self.fs_lf)
    self.nsamples = nsamples or self.sr.ns
    self.samples_window = nwindow or 2 * self.fs_ap
    assert (
        np.mod(self.samples_window, self.ratio) == 0
    ), f"nwindow must be a factor or {self.ratio}"
    self.samples_overlap = 576
    assert (
        np.mod(self.samples_overlap, self.ratio) == 0
    ), f"samples_overlap must be a factor or {self.ratio}"
    self.samples_taper = int(self.samples_overlap / 4)
    assert (
        np.mod(self.samples_taper, self.ratio) == 0
    ), f"samples_taper must be a factor or {self.ratio}"
    self.taper = np.r_[
        0, scipy.signal.windows.cosine((self.samples_taper - 1) * 2), 0
    ]

    # Low pass filter (acts as both anti-aliasing and LP filter)
    butter_lp_kwargs = {"N": 2, "Wn": 1000 / self.fs_lf / 2, "btype": "lowpass"}
    self.sos_lp = scipy.signal.butter(**butter_lp_kwargs, output="sos")

    # Number of ap channels
    self.napch = int(self.sr.meta["snsApLfSy"][0])
    # Position of start of sync channels in the raw data
    self.idxsyncch = int(self.sr.meta["snsApLfSy"][0])

    self.extra = extra or ""
    self.nshank = nshank or None
    self.check_completed = False


def ref__ind2save(self, chunk, chunk_sync, wg, ratio=1, etype="ap"):
    """
    Determines the portion of the full chunk to save based on the window and taper used. Cuts
    off beginning and end to get rid of filtering/ decimating artefacts

    :param chunk: chunk of ephys signal
    :param chunk_sync: chunk of sync signal
    :param wg: Window generator object
    :param ratio: downsample ratio
    :param etype: ephys type, either 'ap' or 'lf'
    :return:
    """

    ind2save = [
        int(self.samples_taper * 2 / ratio),
        int((self.samples_window - self.samples_taper * 2) / ratio),
    ]
    if wg.iw == 0:
        ind2save[0] = 0
    if wg.iw == wg.nwin - 1:
        ind2save[1] = int(self.samples_window / ratio)

    chunk2save = np.round(
        np.c_[
            chunk[:, slice(*ind2save)].T
            / self.sr.channel_conversion_sample2v[etype][: self.napch],
            chunk_sync[:, slice(*ind2save)].T
            / self.sr.channel_conversion_sample2v[etype][self.idxsyncch:],
        ]
    ).astype(np.int16)

    return chunk2save


def ref_extract_lfp(self, chunk):
    """
    Extracts LFP signal from full band signal, first applies low pass to anti-alias and LP,
    then downsamples

    :param chunk: portion of signal to extract LFP from
    :return: LFP signal
    """

    chunk[:, : self.samples_taper] *= self.taper[: self.samples_taper]
    chunk[:, -self.samples_taper:] *= self.taper[self.samples_taper:]
    chunk = scipy.signal.sosfiltfilt(self.sos_lp, chunk)
    chunk = chunk[:, :: self.ratio]
    return chunk


def ref_extract_lfp_sync(self, chunk_sync):
    """
    Extracts downsampled signal of imec sync trace

    :param chunk_sync: portion of sync signal to downsample
    :return: downsampled sync signal
    """

    chunk_sync = chunk_sync[:, :: self.ratio]
    return chunk_sync


def ref__writemetadata_lf(self):
    """
    Function to create lf meta data file. Adapts the relevant keys in the spikeglx meta file
    to contain the correct number of channels. Also adds key to indicate that this is not an
    original meta data file, but one that has been adapted

    :return:
    """

    for sh in self.shank_info.keys():
        n_chns = len(self.shank_info[sh]["chns"])
        meta_shank = copy.deepcopy(self.sr.meta)
        meta_shank["acqApLfSy"][0] = 0
        meta_shank["acqApLfSy"][1] = n_chns - 1
        meta_shank["snsApLfSy"][0] = 0
        meta_shank["snsApLfSy"][1] = n_chns - 1
        meta_shank["fileSizeBytes"] = self.shank_info[sh]["lf_file"].stat().st_size
        meta_shank["imSampRate"] = self.fs_lf
        if self.np_version == "NP2.4":
            meta_shank["snsSaveChanSubset_orig"] = spikeglx._get_savedChans_subset(
                self.shank_info[sh]["chns"]
            )
            meta_shank["snsSaveChanSubset"] = f"0:{n_chns-1}"
            meta_shank["nSavedChans"] = n_chns
        meta_shank["original_meta"] = False
        meta_shank[f"{self.np_version}_shank"] = int(sh[-1])
        meta_file = self.shank_info[sh]["lf_file"].with_suffix(".meta")
        spikeglx.write_meta_data(meta_shank, meta_file)


REF_METHODS = {
    "init_params": ref_init_params,
    "_ind2save": ref__ind2save,
    "extract_lfp": ref_extract_lfp,
    "extract_lfp_sync": ref_extract_lfp_sync,
    "_writemetadata_lf": ref__writemetadata_lf,
}


class RefNP2Converter(neuropixel.NP2Converter):
    """The converter under test with every touched method replaced by its original version"""


for _name, _fun in REF_METHODS.items():
    setattr(RefNP2Converter, _name, _fun)


# --------------------------------------------------------------------------------------------------------------------
# comparison helpers
# --------------------------------------------------------------------------------------------------------------------
class Mismatch(Exception):
    pass


NCASES = 0


def same(a, b, where):
    """Strict recursive comparison: type, dtype, shape, memory layout and values"""
    if type(a) is not type(b):
        raise Mismatch(f"{where}: type {type(a)} != {type(b)}")
    if isinstance(a, np.ndarray):
        if a.dtype != b.dtype or a.shape != b.shape:
            raise Mismatch(f"{where}: {a.dtype}{a.shape} != {b.dtype}{b.shape}")
        if a.strides != b.strides and a.size > 0:
            raise Mismatch(f"{where}: strides {a.strides} != {b.strides}")
        if not np.array_equal(a, b, equal_nan=a.dtype.kind in "fc"):
            raise Mismatch(f"{where}: values differ")
    elif isinstance(a, dict):
        if list(a.keys()) != list(b.keys()):
            raise Mismatch(f"{where}: keys {list(a.keys())} != {list(b.keys())}")
        for k in a:
            same(a[k], b[k], f"{where}[{k!r}]")
    elif isinstance(a, (list, tuple)):
        if len(a) != len(b):
            raise Mismatch(f"{where}: len {len(a)} != {len(b)}")
        for i, (x, y) in enumerate(zip(a, b)):
            same(x, y, f"{where}[{i}]")
    elif isinstance(a, float) and a != a:
        if b == b:
            raise Mismatch(f"{where}: nan != {b}")
    elif isinstance(a, types.SimpleNamespace):
        same(vars(a), vars(b), where)
    else:
        if a != b:
            raise Mismatch(f"{where}: {a!r} != {b!r}")


def outcome(fun, *args, **kwargs):
    """Returns ('ok', value) or ('exc', exception type, message)"""
    try:
        return ("ok", fun(*args, **kwargs))
    except Exception as e:  # noqa
        return ("exc", type(e), str(e))


def compare(where, ref_fun, new_fun, make_args):
    """make_args() is called twice so that both implementations receive identical, independent inputs"""
    global NCASES
    NCASES += 1
    args_ref, kwargs_ref = make_args()
    args_new, kwargs_new = make_args()
    out_ref = outcome(ref_fun, *args_ref, **kwargs_ref)
    out_new = outcome(new_fun, *args_new, **kwargs_new)
    same(out_ref, out_new, f"{where}: result")
    # the inputs after the call: in-place modifications and attributes set on self have to be the same too
    same(_public(args_ref), _public(args_new), f"{where}: arguments after the call")
    return out_ref


def _public(args):
    return [a for a in args if isinstance(a, (np.ndarray, types.SimpleNamespace, dict, list, tuple, int, float, str))]


def fake_reader(rng, napch=None, ns=None, nsync=1):
    napch = napch if napch is not None else int(rng.integers(1, 20))
    ns = ns if ns is not None else int(rng.integers(1, 200000))
    s2v_ap = np.r_[np.ones(napch) * rng.choice([7.6293946e-07, 2.34375e-06, 1.0]), np.ones(nsync)]
    s2v_lf = np.r_[np.ones(napch) * rng.choice([7.6293946e-07, 4.6875e-06, 1.0]), np.ones(nsync)]
    return types.SimpleNamespace(
        ns=ns,
        meta={"snsApLfSy": [napch, 0, nsync], "acqApLfSy": [napch, 0, nsync]},
        channel_conversion_sample2v={"ap": s2v_ap, "lf": s2v_lf},
    )


def fake_converter(rng, seed_reader, **kwargs):
    """A stand-in for NP2Converter on which the methods are called unbound; initialised by the REFERENCE init_params"""
    self = types.SimpleNamespace(sr=fake_reader(np.random.default_rng(seed_reader)))
    ref_init_params(self, **kwargs)
    return self


# --------------------------------------------------------------------------------------------------------------------
# the checks
# --------------------------------------------------------------------------------------------------------------------
def wg_summary(cls, ns, nswin, overlap, iterate=True):
    wg = cls(ns, nswin, overlap)
    out = {"attrs": dict(vars(wg))}
    if not iterate:
        return out
    fl = []
    iws = []
    for first_last in wg.firstlast:
        fl.append(first_last)
        iws.append(wg.iw)
    out["firstlast"] = fl
    out["iw"] = iws
    out["iw_end"] = wg.iw
    out["slices"] = [(s.start, s.stop, s.step) for s in wg.slice]
    out["tscale"] = wg.tscale(30000.0)
    out["valid"] = outcome(lambda: list(wg.firstlast_valid))
    if nswin - overlap >= overlap:  # splicing only defined when the overlaps do not run into each other
        out["splicing"] = outcome(lambda: [x for x in wg.firstlast_splicing])
    sig = np.arange(int(ns) * 2).reshape(2, int(ns))
    out["slice_array"] = [x for x in wg.slice_array(sig)]
    return out


def check_window_generator(rng):
    new_cls = ibldsp.utils.WindowGenerator
    cases = [
        (30000, 9000, 576), (30000, 9000.0, 576), (30001, 60000, 576), (60000, 60000, 576), (60001, 60000, 576),
        (119424, 60000, 576), (119425, 60000, 576), (1, 12, 0), (12, 12, 0), (13, 12, 0), (100, 10, 0),
        (100, 10, 9), (35, 12, 6), (np.int64(1000), np.int32(120), np.int16(12)), (1000.0, 120.0, 12.0),
        (999.5, 120, 12), (1000, 120.7, 12.2),
    ]
    for _ in range(150):
        nswin = int(rng.integers(2, 5000))
        overlap = int(rng.integers(0, nswin))
        ns = int(rng.integers(1, 20 * nswin))
        cases.append((ns, nswin, overlap))
    for _ in range(40):  # the converter's own grid: windows multiple of 12, overlap 576, lengths anything
        nswin = 12 * int(rng.integers(60, 6000))
        cases.append((int(rng.integers(1, 12 * nswin)), float(nswin) if rng.random() < 0.3 else nswin, 576))
    for ns, nswin, overlap in cases:
        compare(f"WindowGenerator{(ns, nswin, overlap)}", wg_summary, wg_summary,
                _alternate([(RefWindowGenerator, ns, nswin, overlap), (new_cls, ns, nswin, overlap)]))
    # constructor only: zero or negative stride (iteration would not terminate), exceptions
    for ns, nswin, overlap in [(100, 10, 10), (100, 12, 12.0), (100, 10, 11), (5, 10, 20), ("a", 10, 2), (100, None, 2)]:
        compare(f"WindowGenerator{(ns, nswin, overlap)}", wg_summary, wg_summary,
                _alternate([(RefWindowGenerator, ns, nswin, overlap, False), (new_cls, ns, nswin, overlap, False)]))


def _alternate(arg_sets):
    """make_args returning the first argument set on the first call (reference) and the second on the second (new)"""
    it = iter(arg_sets)

    def make_args():
        return next(it), {}
    return make_args


def check_init_params(rng):
    new = neuropixel.NP2Converter.init_params
    kwargs_list = [
        {}, {"nsamples": 0}, {"nsamples": 12345}, {"nwindow": 9000}, {"nwindow": 0.3 * 30000}, {"nwindow": 0.5 * 30000},
        {"nwindow": 1 * 30000}, {"nwindow": 0}, {"nwindow": 9001}, {"nwindow": 9000.5}, {"nwindow": 11}, {"nwindow": -12},
        {"nwindow": np.int64(24000)}, {"nwindow": np.float32(24000)}, {"extra": "_test"}, {"extra": ""}, {"extra": None},
        {"nshank": [0]}, {"nshank": []}, {"nshank": [0, 2]}, {"nshank": 0}, {"nwindow": "9000"},
        {"nsamples": 30000 * 3, "nwindow": 12 * 1000, "extra": "_x", "nshank": [1]},
    ]
    for _ in range(80):
        kw = {}
        if rng.random() < 0.6:
            kw["nsamples"] = int(rng.integers(0, 500000))
        if rng.random() < 0.8:
            nwindow = int(rng.integers(1, 10000)) * (12 if rng.random() < 0.7 else 1)
            kw["nwindow"] = float(nwindow) if rng.random() < 0.3 else nwindow
        if rng.random() < 0.5:
            kw["extra"] = str(rng.choice(["", "_a", "_test", "_0_5s_test"]))
        if rng.random() < 0.5:
            kw["nshank"] = [int(x) for x in rng.choice(4, size=int(rng.integers(0, 4)), replace=False)]
        kwargs_list.append(kw)
    for i, kw in enumerate(kwargs_list):
        seed = int(rng.integers(0, 2 ** 31))

        def make_args(kw=kw, seed=seed):
            return (types.SimpleNamespace(sr=fake_reader(np.random.default_rng(seed))),), copy.deepcopy(kw)
        compare(f"init_params({kw})", ref_init_params, new, make_args)
    # a reader whose meta lacks the key: same exception
    compare("init_params(no meta key)", ref_init_params, new,
            lambda: ((types.SimpleNamespace(sr=types.SimpleNamespace(ns=10, meta={})),), {}))


def check_extract_lfp(rng):
    new = neuropixel.NP2Converter.extract_lfp
    new_sync = neuropixel.NP2Converter.extract_lfp_sync
    lengths = [0, 1, 9, 10, 11, 143, 144, 145, 287, 288, 289, 300, 575, 576, 577, 1000, 9000, 9001, 12 * 77 + 5]
    lengths += [int(x) for x in rng.integers(1, 12000, size=90)]
    for i, n in enumerate(lengths):
        nc = int(rng.integers(1, 8))
        dtype = [np.float32, np.float32, np.float64, np.int16, np.float16][i % 5]
        order = "F" if i % 3 == 0 else "C"
        seed = int(rng.integers(0, 2 ** 31))

        def make_chunk(n=n, nc=nc, dtype=dtype, order=order, seed=seed):
            r = np.random.default_rng(seed)
            x = (r.standard_normal((nc, n)) * r.choice([1e-6, 1e-3, 1.0, 300.0])).astype(dtype)
            if order == "F":  # what the converter passes: the transpose of a (samples, channels) read
                x = np.ascontiguousarray(x.T).T
            return x

        def make_args(make_chunk=make_chunk, seed=seed):
            return (fake_converter(None, seed), make_chunk()), {}
        compare(f"extract_lfp(n={n}, nc={nc}, {dtype.__name__}, {order})", ref_extract_lfp, new, make_args)

        def make_args_sync(n=n, seed=seed, order=order):
            r = np.random.default_rng(seed)
            s = r.integers(0, 2 ** 15, size=(int(r.integers(1, 3)), n)).astype([np.float32, np.int16][seed % 2])
            if order == "F":
                s = np.ascontiguousarray(s.T).T
            return (fake_converter(None, seed), s), {}
        out = compare(f"extract_lfp_sync(n={n})", ref_extract_lfp_sync, new_sync, make_args_sync)
        if out[0] == "ok" and n > 0 and out[1].base is None:
            raise Mismatch("extract_lfp_sync is expected to return a view")
    # not 2D: same exception
    compare("extract_lfp(1D)", ref_extract_lfp, new, lambda: ((fake_converter(None, 1), np.ones(1000, dtype=np.float32)), {}))
    compare("extract_lfp_sync(1D)", ref_extract_lfp_sync, new_sync, lambda: ((fake_converter(None, 1), np.ones(1000)), {}))


def check_ind2save(rng):
    new = neuropixel.NP2Converter._ind2save
    for i in range(200):
        seed = int(rng.integers(0, 2 ** 31))
        r0 = np.random.default_rng(seed)
        nwindow = 12 * int(r0.integers(50, 1500))
        if i % 4 == 0:
            nwindow = float(nwindow)
        ratio = [1, 12][i % 2]
        etype = ["ap", "lf"][i % 2] if i % 7 else "lf"
        nwin = int(r0.integers(1, 5))
        iw = [0, nwin - 1, int(r0.integers(0, nwin)), None][i % 4]
        # full window, or a shorter last window
        n = int(nwindow) if i % 3 else int(r0.integers(1, int(nwindow)))
        n = -(-n // ratio)
        if i == 7:
            ratio = 0  # ZeroDivisionError in both
        if i == 9:
            etype = "nope"  # KeyError in both

        def make_args(seed=seed, nwindow=nwindow, ratio=ratio, etype=etype, nwin=nwin, iw=iw, n=n, i=i):
            r = np.random.default_rng(seed + 1)
            self = fake_converter(None, seed, nwindow=nwindow)
            scale = self.sr.channel_conversion_sample2v.get(etype, np.ones(1))[0]
            dtype = np.float64 if ratio == 12 else np.float32
            chunk = (r.integers(-40000, 40000, size=(n, self.napch)) * scale * r.choice([1, 1, 0.5])).astype(dtype).T
            sync = r.integers(0, 2 ** 7, size=(n, 1)).astype(np.float32).T
            if i % 5 == 0:  # a decimated view, as returned by extract_lfp_sync
                sync = np.repeat(sync, 3, axis=1)[:, ::3]
            if i == 11:
                sync = sync[:, :-1]  # sizes do not match: ValueError in both
            wg = types.SimpleNamespace(iw=iw, nwin=nwin)
            return (self, chunk, sync, wg), {"ratio": ratio, "etype": etype}
        compare(f"_ind2save(case {i})", ref__ind2save, new, make_args)
    # default arguments
    compare("_ind2save(defaults)", ref__ind2save, new, lambda: (
        (fake_converter(None, 5, nwindow=1200), np.ones((fake_converter(None, 5).napch, 1200), dtype=np.float32) * 1e-4,
         np.ones((1, 1200), dtype=np.float32), types.SimpleNamespace(iw=1, nwin=4)), {}))


def _digest_dir(path):
    out = {}
    for f in sorted(Path(path).rglob("*")):
        if f.is_file():
            out[str(f.relative_to(path))] = hashlib.sha256(f.read_bytes()).hexdigest()
    return out


def check_writemetadata_lf(rng, tmp):
    new = neuropixel.NP2Converter._writemetadata_lf
    metas = {
        "NP2.4": spikeglx.read_meta_data(FIXTURES.joinpath("NP24_meta", META_NAME)),
        "NP2.1": spikeglx.read_meta_data(FIXTURES.joinpath("NP21_meta", META_NAME)),
    }
    for i in range(60):
        version = ["NP2.4", "NP2.1", "NP1"][i % 3 if i % 10 else 2]
        meta = metas.get(version, metas["NP2.1"])
        nshanks = int(rng.integers(0, 5)) if version == "NP2.4" else 1
        sizes = [int(rng.integers(0, 5000)) for _ in range(nshanks)]
        chns = [np.r_[np.sort(rng.choice(384, size=int(rng.integers(1, 200)), replace=False)), 384] for _ in range(nshanks)]
        missing = i == 13  # the lf file does not exist: FileNotFoundError in both

        def make_args(tag=[0], i=i, version=version, meta=meta, sizes=sizes, chns=chns, missing=missing):
            tag[0] += 1
            root = Path(tmp).joinpath(f"meta_{i}_{tag[0]}")
            shank_info = {}
            for ish, (size, ch) in enumerate(zip(sizes, chns)):
                folder = root.joinpath(f"probe00{chr(97 + ish)}")
                folder.mkdir(parents=True)
                lf_file = folder.joinpath("_spikeglx_ephysData_g0_t0.imec0.lf.bin")
                if not missing:
                    lf_file.write_bytes(b"\0" * size)
                shank_info[f"shank{ish}"] = {"chns": ch.copy(), "lf_file": lf_file}
            self = types.SimpleNamespace(
                sr=types.SimpleNamespace(meta=copy.deepcopy(meta)), shank_info=shank_info, fs_lf=2500, np_version=version)
            return (self,), {}
        global NCASES
        NCASES += 1
        roots, outs = [], []
        for fun in (ref__writemetadata_lf, new):
            (self,), _ = make_args()
            outs.append(outcome(fun, self))
            roots.append(self)
        if outs[0][0] == "exc":  # the message holds the (different) folder name
            outs = [o[:2] for o in outs]
        same(outs[0], outs[1], f"_writemetadata_lf(case {i}, {version}): result")
        # the reader's meta data and the channel lists are left as they were, identically
        same(roots[0].sr.meta, roots[1].sr.meta, f"_writemetadata_lf(case {i}): sr.meta after the call")
        same(roots[0].sr.meta, copy.deepcopy(meta), f"_writemetadata_lf(case {i}): sr.meta untouched")
        same([v["chns"] for v in roots[0].shank_info.values()], [v["chns"] for v in roots[1].shank_info.values()],
             f"_writemetadata_lf(case {i}): chns after the call")
        d_ref, d_new = [_digest_dir(next(iter(s.shank_info.values()))["lf_file"].parents[1]) if s.shank_info else {}
                        for s in roots]
        same(d_ref, d_new, f"_writemetadata_lf(case {i}): files written")
        if not missing and nshanks and not any(k.endswith(".meta") for k in d_ref):
            raise Mismatch("no meta file written by the reference ?")


def run_converter(cls, wg_cls, folder, version, ns, nwindow, data_seed, **process_kwargs):
    """Full conversion of a synthetic recording in its own folder; returns status, attributes and the files written"""
    probe = Path(folder).joinpath("probe00")
    probe.mkdir(parents=True)
    meta_dir = {"NP2.4": "NP24_meta", "NP2.1": "NP21_meta"}[version]
    shutil.copy(FIXTURES.joinpath(meta_dir, META_NAME), probe.joinpath(META_NAME))
    r = np.random.default_rng(data_seed)
    dat = (r.standard_normal((ns, 385)) * 300).astype(np.int16)
    dat += (np.cumsum(r.standard_normal((ns, 1)), axis=0) * 20).astype(np.int16)  # broadband + slow component
    dat[:, -1] = r.integers(0, 2, size=ns) * 64
    dat.tofile(probe.joinpath(BIN_NAME))
    old_wg = neuropixel.WindowGenerator
    neuropixel.WindowGenerator = wg_cls
    try:
        conv = cls(probe.joinpath(BIN_NAME), post_check=version == "NP2.4", compress=False)
        conv.init_params(nwindow=nwindow, extra="_x")
        status = conv.process(**process_kwargs)
        conv.sr.close()
    finally:
        neuropixel.WindowGenerator = old_wg
    attrs = {k: getattr(conv, k) for k in (
        "fs_ap", "fs_lf", "ratio", "nsamples", "samples_window", "samples_overlap", "samples_taper", "taper", "sos_lp",
        "napch", "idxsyncch", "extra", "nshank", "check_completed")}
    shanks = {sh: {"chns": info["chns"], "lf_file": str(info["lf_file"].relative_to(folder))}
              for sh, info in conv.shank_info.items()}
    return {"status": status, "attrs": attrs, "shanks": shanks, "files": _digest_dir(folder)}


def check_end_to_end(rng, tmp):
    cases = [
        ("NP2.4", 30000, 9000), ("NP2.4", 30000, 0.5 * 30000), ("NP2.4", 30007, 12 * 1111), ("NP2.4", 9001, 9000),
        ("NP2.1", 30000, 9000.0), ("NP2.1", 29993, 12 * 900), ("NP2.1", 61234, None), ("NP2.1", 10000, 12000),
        ("NP2.4", 12 * 1500 + 1, 12 * 500), ("NP2.1", 12 * 1500 + 11, 12 * 250),
        ("NP2.4", 100, 9000),  # shorter than the filter padding: same exception
    ]
    for i, (version, ns, nwindow) in enumerate(cases):
        seed = int(rng.integers(0, 2 ** 31))
        it = iter([
            (RefNP2Converter, RefWindowGenerator, Path(tmp).joinpath(f"e2e_{i}_ref")),
            (neuropixel.NP2Converter, ibldsp.utils.WindowGenerator, Path(tmp).joinpath(f"e2e_{i}_new")),
        ])

        def make_args(version=version, ns=ns, nwindow=nwindow, seed=seed):
            cls, wg_cls, folder = next(it)
            return (cls, wg_cls, folder, version, ns, nwindow, seed), {}

        def run(cls, wg_cls, folder, *args):
            return run_converter(cls, wg_cls, folder, *args)
        global NCASES
        NCASES += 1
        out_ref = outcome(run, *make_args()[0])
        out_new = outcome(run, *make_args()[0])
        same(out_ref, out_new, f"end to end {version} ns={ns} nwindow={nwindow}")
        if out_ref[0] == "ok":
            n_lf = [k for k in out_ref[1]["files"] if k.endswith("lf.bin")]
            if out_ref[1]["status"] != 1 or not n_lf:
                raise Mismatch(f"end to end case {i}: the reference did not write any lf file ({out_ref[1]['status']})")
        shutil.rmtree(Path(tmp).joinpath(f"e2e_{i}_ref"), ignore_errors=True)
        shutil.rmtree(Path(tmp).joinpath(f"e2e_{i}_new"), ignore_errors=True)


def main():
    rng = np.random.default_rng(20240612)
    tmp = tempfile.mkdtemp(prefix="demo_c12_", dir=os.environ.get("TMPDIR") or None)
    try:
        check_window_generator(rng)
        check_init_params(rng)
        check_extract_lfp(rng)
        check_ind2save(rng)
        check_writemetadata_lf(rng, tmp)
        check_end_to_end(rng, tmp)
    except Mismatch as e:
        print(f"DIFFERENCE after {NCASES} cases: {e}")
        return 1
    finally:
        shutil.rmtree(tmp, ignore_errors=True)
    print(f"identical results on {NCASES} cases")
    return 0


if __name__ == "__main__":
    sys.exit(main())
