import sys, os; sys.path.insert(0, os.path.join(os.path.dirname(os.path.abspath(__file__)), "src"))
"""
Differential equivalence check for the performance clean-up of NP2Converter._ind2save (property C12).

The reference below is a verbatim copy of the ORIGINAL implementation of the only function that was
changed.  It is run next to the implementation found in ./src on
  1. several hundred seeded random unit inputs (dtypes, memory layouts, window positions, degenerate
     shapes, non finite / out of range values, inputs that make the function raise);
  2. complete NP2.4 and NP2.1 conversions of small synthetic recordings, where every file written
     (ap / lf binaries and meta files) is compared byte for byte.
Exits 0 if everything is identical, 1 with a message otherwise.
"""
import hashlib
import shutil
import tempfile
import time
import types
import warnings
from pathlib import Path

import numpy as np

import neuropixel
from neuropixel import NP2Converter

HERE = Path(__file__).resolve().parent
FIXTURES = HERE.joinpath("src", "tests", "fixtures", "np2split")


# --------------------------------------------------------------------------------------------------
# verbatim copy of the original implementation
# --------------------------------------------------------------------------------------------------
def ref_ind2save(self, chunk, chunk_sync, wg, ratio=1, etype="ap"):
    """
    Determines the portion of the full chunk to save based on the window and taper used. Cuts
    off beginning and end to get rid of filtering/ decimating artefacts

    :param chunk: chunk of ephys signal
    :param chunk_sync: chunk of sync signal
    :param wg: Window generator object
    :param ratio: downsample ratio
    :param etype: ephys type, either 'ap' or 'lf'
    :return:
    """

    ind2save = [
        int(self.samples_taper * 2 / ratio),
        int((self.samples_window - self.samples_taper * 2) / ratio),
    ]
    if wg.iw == 0:
        ind2save[0] = 0
    if wg.iw == wg.nwin - 1:
        ind2save[1] = int(self.samples_window / ratio)

    chunk2save = np.round(
        np.c_[
            chunk[:, slice(*ind2save)].T
            / self.sr.channel_conversion_sample2v[etype][: self.napch],
            chunk_sync[:, slice(*ind2save)].T
            / self.sr.channel_conversion_sample2v[etype][self.idxsyncch:],
        ]
    ).astype(np.int16)

    return chunk2save


class RefConverter(NP2Converter):
    """The converter with the original implementation of the changed function"""
    _ind2save = ref_ind2save


# --------------------------------------------------------------------------------------------------
# helpers
# --------------------------------------------------------------------------------------------------
def fail(msg):
    print(f"DIFFERENCE: {msg}")
    sys.exit(1)


def call(fcn, *args, **kwargs):
    """Returns (result, None) or (None, exception)"""
    with warnings.catch_warnings():
        warnings.simplefilter("ignore")
        try:
            return fcn(*args, **kwargs), None
        except Exception as e:  # noqa
            return None, e


def same_array(a, b):
    if type(a) is not type(b):
        return f"types {type(a)} != {type(b)}"
    if a.dtype != b.dtype:
        return f"dtypes {a.dtype} != {b.dtype}"
    if a.shape != b.shape:
        return f"shapes {a.shape} != {b.shape}"
    if not np.array_equal(a, b):
        return f"values differ at {np.argwhere(a != b)[:5].tolist()}"
    if a.tobytes() != b.tobytes():
        return "bytes differ"
    for flag in ("C_CONTIGUOUS", "F_CONTIGUOUS", "OWNDATA", "WRITEABLE"):
        if a.flags[flag] != b.flags[flag]:
            return f"flag {flag}: {a.flags[flag]} != {b.flags[flag]}"
    if min(a.shape) > 1 and a.strides != b.strides:
        return f"strides {a.strides} != {b.strides}"
    return None


def with_layout(rng, a, layout):
    """Returns an array equal to the 2d array a (channels, samples) held in the requested memory layout"""
    nr, nc = a.shape
    if layout == "C":
        return np.ascontiguousarray(a)
    if layout == "F":  # what the reader returns: (samples, channels) array transposed
        return np.asfortranarray(a)
    if layout == "decimated":  # what extract_lfp returns: every 12th sample of a C array
        big = np.zeros((nr, nc * 12), dtype=a.dtype)
        big[:, ::12] = a
        return big[:, ::12]
    if layout == "wide_T":  # channel subset of a wider (samples, channels) array, transposed
        big = np.zeros((nc, nr + 3), dtype=a.dtype)
        big[:, 1:nr + 1] = a.T
        return big[:, 1:nr + 1].T
    if layout == "wide":  # sample subset of a wider (channels, samples) array
        big = np.zeros((nr, nc + 5), dtype=a.dtype)
        big[:, 2:nc + 2] = a
        return big[:, 2:nc + 2]
    if layout == "reversed":  # negative strides
        return np.ascontiguousarray(a[::-1, ::-1])[::-1, ::-1]
    if layout == "readonly":
        b = np.ascontiguousarray(a)
        b.flags.writeable = False
        return b
    raise ValueError(layout)


LAYOUTS = ["C", "F", "decimated", "wide_T", "wide", "reversed", "readonly"]
DTYPES = [np.float32] * 6 + [np.float64] * 6 + [np.float16, np.longdouble, np.int16, np.int32,
                                                np.dtype(">f4"), np.dtype(">f8")]
FLOATS = [np.float16, np.float32, np.float64, np.longdouble]


def fake_converter(rng, napch, nsync, samples_window, s2v_dtype):
    """A converter object with only the attributes _ind2save looks at"""
    conv = object.__new__(NP2Converter)
    conv.samples_taper = 144
    conv.samples_window = samples_window
    conv.napch = napch
    conv.idxsyncch = napch
    s2v = {}
    for etype, scale in (("ap", 2.34375e-06), ("lf", 4.6875e-06)):
        v = np.ones(napch + nsync) * scale * rng.choice([1, 1, 0.76, 3.1])
        if nsync:
            v[napch:] = 1
        s2v[etype] = v.astype(s2v_dtype)
    conv.sr = types.SimpleNamespace(channel_conversion_sample2v=s2v)
    return conv


def unit_case(rng, icase):
    napch = int(rng.choice([1, 2, 3, 5, 16, 96, 384], p=[.08, .1, .2, .2, .2, .12, .1]))
    nsync = int(rng.choice([1, 0, 2, 3], p=[.85, .05, .05, .05]))
    ratio = int(rng.choice([1, 12]))
    etype = "ap" if ratio == 1 else "lf"
    samples_window = int(rng.choice([624, 636, 720, 1200, 3000])) if napch > 16 else \
        int(rng.choice([588, 600, 624, 636, 720, 1200, 3000, 9000]))
    if rng.random() < .15:
        samples_window = float(samples_window)  # the tests use nwindow=0.3 * FS
    nwin = int(rng.integers(1, 5))
    iw = int(rng.integers(0, nwin))
    if rng.random() < .04:
        iw = None  # generator never started
    # number of samples held by the chunk: full window, or the shorter last one, or degenerate
    nfull = int(samples_window / ratio)
    kind = rng.choice(["full", "short", "tiny", "empty"], p=[.6, .3, .07, .03])
    n = {"full": nfull, "short": int(rng.integers(1, nfull + 1)), "tiny": int(rng.integers(0, 4)),
         "empty": 0}[kind]
    dtype = DTYPES[int(rng.integers(len(DTYPES)))]
    sync_dtype = dtype if rng.random() < .7 else DTYPES[int(rng.integers(len(DTYPES)))]
    s2v_dtype = np.float64 if rng.random() < .8 else np.float32
    conv = fake_converter(rng, napch, nsync, samples_window, s2v_dtype)

    # content: integer samples times the conversion factor as returned by the reader, or filtered like values
    s2v = conv.sr.channel_conversion_sample2v[etype].astype(np.float64)
    content = rng.choice(["samples", "broadband", "halves", "wild"], p=[.35, .35, .15, .15])
    if content == "samples":
        a = rng.integers(-32768, 32768, (napch, n)).astype(np.float64) * s2v[:napch, None]
    elif content == "broadband":
        a = rng.normal(0, 3000, (napch, n)) * s2v[:napch, None]
    elif content == "halves":  # ties of the rounding
        a = (rng.integers(-2000, 2000, (napch, n)) + .5) * s2v[:napch, None]
    else:  # non finite and out of int16 range
        a = rng.normal(0, 1e5, (napch, n)) * s2v[:napch, None]
        a[rng.random((napch, n)) < .05] = np.nan
        a[rng.random((napch, n)) < .05] = np.inf
        a[rng.random((napch, n)) < .05] = -np.inf
    b = rng.integers(0, 2 ** 15, (nsync, n)).astype(np.float64)
    if np.dtype(dtype).kind == "i":
        a = rng.integers(-3000, 3000, (napch, n))
    chunk = with_layout(rng, a.astype(dtype), LAYOUTS[int(rng.integers(len(LAYOUTS)))])
    chunk_sync = with_layout(rng, b.astype(sync_dtype), LAYOUTS[int(rng.integers(len(LAYOUTS)))])

    # inputs that are not what the converter produces
    twist = rng.choice(["none", "etype", "len", "rows", "onerow", "1d", "3d", "list", "zero"],
                       p=[.80, .03, .03, .03, .03, .02, .02, .02, .02])
    if twist == "etype":
        etype = "nidq"
    elif twist == "len" and n > 0:
        chunk_sync = chunk_sync[:, :-1]
    elif twist == "rows":
        chunk = np.concatenate((chunk, chunk), axis=0)
    elif twist == "onerow":
        chunk = chunk[:1, :]
    elif twist == "1d":
        chunk = chunk[0]
    elif twist == "3d":
        chunk_sync = chunk_sync[:, :, np.newaxis]
    elif twist == "list":
        chunk = chunk.tolist()
    elif twist == "zero":
        conv.sr.channel_conversion_sample2v[etype][0] = 0
    wg = types.SimpleNamespace(iw=iw, nwin=nwin)
    return conv, chunk, chunk_sync, wg, ratio, etype


def snapshot(x):
    return np.array(x, copy=True) if isinstance(x, np.ndarray) else x


def grid_cases(rng):
    """Every float dtype combination x memory layout x window position, on the shapes the converter produces"""
    for dtype in FLOATS:
        for sync_dtype in FLOATS:
            for s2v_dtype in (np.float32, np.float64):
                for layout in LAYOUTS:
                    for iw, nwin in ((0, 3), (1, 3), (2, 3), (0, 1)):
                        ratio = int(rng.choice([1, 12]))
                        etype = "ap" if ratio == 1 else "lf"
                        napch = int(rng.integers(2, 7))
                        conv = fake_converter(rng, napch, 1, 1200, s2v_dtype)
                        n = int(1200 / ratio) if iw < nwin - 1 else int(rng.integers(600, 1200) / ratio)
                        s2v = conv.sr.channel_conversion_sample2v[etype].astype(np.float64)
                        a = (rng.normal(0, 2000, (napch, n)) * s2v[:napch, None]).astype(dtype)
                        b = rng.integers(0, 2 ** 15, (1, n)).astype(sync_dtype)
                        sync_layout = LAYOUTS[int(rng.integers(len(LAYOUTS)))]
                        yield (conv, with_layout(rng, a, layout), with_layout(rng, b, sync_layout),
                               types.SimpleNamespace(iw=iw, nwin=nwin), ratio, etype)


def check_unit(rng, icase, counts, case=None):
    conv, chunk, chunk_sync, wg, ratio, etype = case or unit_case(rng, icase)
    before = snapshot(chunk), snapshot(chunk_sync)
    res_ref, err_ref = call(ref_ind2save, conv, chunk, chunk_sync, wg, ratio=ratio, etype=etype)
    res_new, err_new = call(NP2Converter._ind2save, conv, chunk, chunk_sync, wg, ratio=ratio, etype=etype)
    label = f"unit case {icase}"
    if (err_ref is None) != (err_new is None):
        fail(f"{label}: reference raised {err_ref!r}, refactored raised {err_new!r}")
    if err_ref is not None:
        if type(err_ref) is not type(err_new) or str(err_ref) != str(err_new):
            fail(f"{label}: reference raised {err_ref!r}, refactored raised {err_new!r}")
        counts["raised"] += 1
    else:
        msg = same_array(res_ref, res_new)
        if msg:
            fail(f"{label}: {msg}")
        counts["returned"] += 1
    for x, x0 in zip((chunk, chunk_sync), before):
        if isinstance(x, np.ndarray) and not np.array_equal(x, x0, equal_nan=x.dtype.kind == "f"):
            fail(f"{label}: an input was modified")


# --------------------------------------------------------------------------------------------------
# complete conversions
# --------------------------------------------------------------------------------------------------
def write_recording(folder, version, ns, rng, content):
    folder.mkdir(parents=True)
    bin_file = folder.joinpath("_spikeglx_ephysData_g0_t0.imec0.ap.bin")
    if content == "broadband":
        dat = rng.normal(0, 800, (ns, 385))
        dat += 1500 * np.sin(np.arange(ns)[:, None] / rng.uniform(20, 400, 385)[None, :])
        dat = np.clip(np.round(dat), -8192, 8191).astype(np.int16)
    else:  # full range of the int16
        dat = rng.integers(-32768, 32768, (ns, 385)).astype(np.int16)
    dat[:, -1] = rng.integers(0, 2 ** 15, ns)
    dat.tofile(bin_file)
    lines = FIXTURES.joinpath(f"{version}_meta", bin_file.with_suffix(".meta").name).read_text().splitlines()
    fs = [float(ln.split("=")[1]) for ln in lines if ln.startswith("imSampRate=")][0]
    with open(bin_file.with_suffix(".meta"), "w") as fid:
        for ln in lines:
            if ln.startswith("fileSizeBytes="):
                ln = f"fileSizeBytes={ns * 385 * 2}"
            elif ln.startswith("fileTimeSecs="):
                ln = f"fileTimeSecs={ns / fs!r}"
            fid.write(ln + "\n")
    return bin_file


def digest_tree(folder):
    out = {}
    for f in sorted(Path(folder).rglob("*")):
        if f.is_file():
            out[str(f.relative_to(folder))] = (f.stat().st_size, hashlib.sha256(f.read_bytes()).hexdigest())
    return out


def run_conversion(cls, root, version, ns, nwindow, seed, content):
    rng = np.random.default_rng(seed)
    bin_file = write_recording(root.joinpath("probe00"), version, ns, rng, content)
    conv = cls(bin_file, post_check=True, compress=False)
    if conv.sr.ns != ns:
        fail(f"synthetic recording has {conv.sr.ns} samples instead of {ns}")
    conv.init_params(nwindow=nwindow, extra="_out")
    with warnings.catch_warnings():
        warnings.simplefilter("ignore")
        status = conv.process()
    conv.sr.close()
    bin_file.unlink()  # the input is the same for both, no need to hash it
    return status, digest_tree(root)


def check_conversions(tmp):
    nconv = 0
    cases = [  # version, ns (not a multiple of 12 nor of the window), window (multiple of 12), content
        ("NP24", 7001, 3000, "broadband"),
        ("NP24", 3611, 1200, "fullrange"),
        ("NP24", 2999, 3000, "broadband"),   # single, short window
        ("NP21", 7001, 3000, "broadband"),
        ("NP21", 5003, 0.04 * 30000, "fullrange"),  # float window size as in the tests
        ("NP21", 4339, 720, "broadband"),
    ]
    for icase, (version, ns, nwindow, content) in enumerate(cases):
        outs = []
        for cls in (RefConverter, NP2Converter):
            root = Path(tempfile.mkdtemp(dir=tmp))
            outs.append(run_conversion(cls, root, version, ns, nwindow, 1000 + icase, content))
            shutil.rmtree(root)
        (status_ref, files_ref), (status_new, files_new) = outs
        label = f"conversion {version} ns={ns} nwindow={nwindow}"
        if status_ref != status_new or status_ref != 1:
            fail(f"{label}: status {status_ref} != {status_new}")
        if list(files_ref) != list(files_new):
            fail(f"{label}: files written {list(files_ref)} != {list(files_new)}")
        nlf = [f for f in files_ref if f.endswith(".lf.bin")]
        if not nlf:
            fail(f"{label}: no lf file written")
        for f in files_ref:
            if files_ref[f] != files_new[f]:
                fail(f"{label}: content of {f} differs")
        nconv += 1
    return nconv


def main():
    t0 = time.time()
    print(f"neuropixel imported from {neuropixel.__file__}")
    rng = np.random.default_rng(20241012)
    counts = {"returned": 0, "raised": 0}
    ncases = 1200
    for icase in range(ncases):
        check_unit(rng, icase, counts)
    for case in grid_cases(rng):
        check_unit(rng, ncases, counts, case=case)
        ncases += 1
    print(f"{ncases} unit inputs identical ({counts['returned']} returned, {counts['raised']} raised the same exception)")
    tmp = HERE.joinpath(".tmp")
    tmp.mkdir(exist_ok=True)
    tmp = Path(tempfile.mkdtemp(prefix="demo_", dir=tmp))
    try:
        nconv = check_conversions(tmp)
    finally:
        shutil.rmtree(tmp, ignore_errors=True)
    print(f"{nconv} complete conversions wrote identical files")
    print(f"all identical in {time.time() - t0:.1f} s")
    sys.exit(0)


if __name__ == "__main__":
    main()
