import sys, os; sys.path.insert(0, os.path.join(os.path.dirname(os.path.abspath(__file__)), "src"))
"""
C12 - LFP extraction equals zero-phase low-pass + decimation by 12, independent of the windowing.

Two recordings are converted one after the other in the same interpreter, each with a brand new
NP2Converter and the same processing window.  Every LFP file is compared with an independent oracle
(scipy.signal.sosfiltfilt of the whole AP trace, every 12th sample, rounded) away from the file edges,
its sync channel with every 12th AP sync word, its length with ceil(n / 12) and its meta data with 2500 Hz.

exit 0: all conversions satisfy the property, exit 1: at least one does not (details are printed)
"""
import logging
import shutil
import tempfile
from pathlib import Path

import numpy as np
import scipy.signal

import spikeglx
from neuropixel import NP2Converter

logging.getLogger("ibllib").setLevel(logging.ERROR)

HERE = Path(os.path.dirname(os.path.abspath(__file__)))
META_NP24 = HERE.joinpath("src", "tests", "fixtures", "np2split", "NP24_meta", "_spikeglx_ephysData_g0_t0.imec0.ap.meta")
RATIO = 12
NC = 385
EDGE = 60  # LF samples ignored at both ends of the file (5 AP windows tapers)


def make_recording(folder, ns, seed):
    """Broadband NP2.4 recording with DC offsets and a busy sync channel"""
    rng = np.random.default_rng(seed)
    folder.mkdir(parents=True)
    data = rng.normal(0, 400, size=(ns, NC)) + rng.integers(-300, 300, size=(1, NC))
    # a slow component so that the LFP band is not only noise
    t = np.arange(ns)[:, np.newaxis] / 30000
    data += 600 * np.sin(2 * np.pi * (3 + np.arange(NC)[np.newaxis, :] / 40) * t)
    data = np.round(data).astype(np.int16)
    data[:, -1] = rng.integers(-2 ** 15, 2 ** 15, size=ns).astype(np.int16)  # 16 bits sync words changing at each sample
    bin_file = folder.joinpath("_spikeglx_ephysData_g0_t0.imec0.ap.bin")
    data.tofile(bin_file)
    md = spikeglx.read_meta_data(META_NP24)
    md["fileTimeSecs"] = ns / md["imSampRate"]
    md["fileSizeBytes"] = ns * NC * 2
    spikeglx.write_meta_data(md, bin_file.with_suffix(".meta"))
    return bin_file, data


def oracle_lfp(data):
    """the definition: zero-phase 2nd order Butterworth on the whole trace, then every 12th sample"""
    sos = scipy.signal.butter(N=2, Wn=1000 / 2500 / 2, btype="lowpass", output="sos")
    lf = scipy.signal.sosfiltfilt(sos, data[:, :-1].astype(np.float64), axis=0)[::RATIO]
    return np.c_[np.round(lf), data[::RATIO, -1]].astype(np.int64)


def check(label, bin_file, data, nwindow, extra):
    conv = NP2Converter(bin_file, post_check=False, compress=False)
    conv.init_params(nwindow=nwindow, extra=extra, nshank=[0])
    conv.process()
    chns = conv.shank_info["shank0"]["chns"]
    sr_lf = spikeglx.Reader(conv.shank_info["shank0"]["lf_file"], sort=False)
    lf_raw = np.array(sr_lf._raw[:, :]).astype(np.int64)
    fs, shape = sr_lf.fs, sr_lf.shape
    sr_lf.close()
    conv.sr.close()
    errors = []
    ns = data.shape[0]
    expected = oracle_lfp(data)[:, chns]
    n_lf = int(np.ceil(ns / RATIO))
    if fs != 2500:
        errors.append(f"LF meta data declares {fs} Hz instead of 2500")
    if shape != (n_lf, chns.size) or lf_raw.shape != (n_lf, chns.size):
        errors.append(f"LF file has shape {shape} / {lf_raw.shape}, expected {(n_lf, chns.size)}")
    else:
        if not np.array_equal(lf_raw[:, -1], expected[:, -1]):
            bad = np.flatnonzero(lf_raw[:, -1] != expected[:, -1])
            errors.append(f"LF sync differs from every 12th AP sync word at {bad.size} samples, first at {bad[0]}")
        diff = np.abs(lf_raw[EDGE:-EDGE, :-1] - expected[EDGE:-EDGE, :-1])
        if diff.max() > 1:
            bad = np.flatnonzero(diff.max(axis=1) > 1) + EDGE
            errors.append(
                f"LFP differs from low-pass + decimation of the whole trace by up to {diff.max()} LSB "
                f"at {bad.size} LF samples away from the file edges: LF samples {bad[0]}..{bad[-1]} "
                f"(AP samples {bad[0] * RATIO}..{bad[-1] * RATIO}), window of {nwindow} AP samples"
            )
    print(f"{label}: ns={ns}, nwindow={nwindow} -> " + ("OK" if not errors else "PROPERTY VIOLATED"))
    for e in errors:
        print("    " + e)
    return lf_raw, errors


def main():
    tmp = Path(tempfile.mkdtemp(prefix="c12_demo_"))
    nerr = 0
    try:
        nwindow = 6000  # multiple of 12
        # two sessions converted one after the other, as a batch job would do
        file_a, data_a = make_recording(tmp.joinpath("sessA", "probe00"), ns=15000 + 7, seed=1)
        file_b, data_b = make_recording(tmp.joinpath("sessB", "probe00"), ns=21000 + 5, seed=2)
        _, err = check("session A (first conversion) ", file_a, data_a, nwindow, "_w6000")
        nerr += len(err)
        lf_b1, err = check("session B (second conversion)", file_b, data_b, nwindow, "_w6000")
        nerr += len(err)
        # window independence for session B, fresh window size
        lf_b2, err = check("session B (other window size)", file_b, data_b, 9000, "_w9000")
        nerr += len(err)
        if lf_b1.shape == lf_b2.shape:
            d = np.abs(lf_b1 - lf_b2).max()
            ok = d <= 1
            print(f"session B: nwindow=6000 against nwindow=9000 -> max difference {d} LSB " + ("OK" if ok else "WINDOW DEPENDENT"))
            nerr += 0 if ok else 1
    finally:
        shutil.rmtree(tmp, ignore_errors=True)
    if nerr:
        print(f"FAIL: {nerr} violation(s) of property C12")
        return 1
    print("PASS: property C12 holds for all conversions")
    return 0


if __name__ == "__main__":
    sys.exit(main())
