import sys, os; sys.path.insert(0, os.path.join(os.path.dirname(os.path.abspath(__file__)), "src"))
"""
C12 - LFP extraction equals low-pass plus decimation, independent of windowing.

Builds a broadband NP2.1 and a NP2.4 AP recording (length not a multiple of 12 nor of the window),
extracts the LFP with several admissible processing windows (multiples of 12) and compares every
output with the definition computed here with plain NumPy / SciPy on the whole trace:
    lf = round(sosfiltfilt(butter(2, 0.2), ap_int16)[::12]),  sync_lf = sync_ap[::12]
Exits 1 and prints the discrepancies if the property does not hold, 0 otherwise.
"""
import logging
import shutil
import tempfile
from pathlib import Path

import numpy as np
import scipy.signal

logging.disable(logging.CRITICAL)

import spikeglx  # noqa: E402
from neuropixel import NP2Converter  # noqa: E402

HERE = Path(os.path.dirname(os.path.abspath(__file__)))
FIXTURES = HERE.joinpath("src", "tests", "fixtures", "np2split")
RATIO = 12
NS = 20003  # not a multiple of 12, nor of any of the windows below
WINDOWS = [1200, 3000, 9000]  # all multiples of 12, all accepted by the unchanged code
EDGE = 60  # LF samples ignored at both ends of the file when comparing values


def make_recording(folder, version, rng):
    """Writes a broadband AP file + meta for the given probe version, returns (bin_file, raw int16 array)"""
    folder.mkdir(parents=True)
    nc = 385
    t = np.arange(NS)[:, np.newaxis]
    raw = (
        rng.normal(0, 900, size=(NS, nc))  # broadband
        + 2500 * np.sin(2 * np.pi * t * (3 + np.arange(nc)[np.newaxis, :] % 7) / 3000.0)  # slow
        + np.cumsum(rng.normal(0, 25, size=(NS, nc)), axis=0)  # drift
    )
    raw = np.clip(np.round(raw), -8000, 8000).astype(np.int16)
    # sync words: change value at irregular times, never a period of 12
    sync = np.zeros(NS, dtype=np.int16)
    edges = np.sort(rng.choice(np.arange(1, NS), size=400, replace=False))
    for e in edges:
        sync[e:] = rng.integers(0, 2 ** 7)
    raw[:, -1] = sync
    bin_file = folder.joinpath("_spikeglx_ephysData_g0_t0.imec0.ap.bin")
    raw.tofile(bin_file)
    meta_src = FIXTURES.joinpath(f"{version}_meta", "_spikeglx_ephysData_g0_t0.imec0.ap.meta")
    lines = []
    for line in meta_src.read_text().splitlines():
        if line.startswith("fileSizeBytes"):
            line = f"fileSizeBytes={NS * nc * 2}"
        if line.startswith("fileTimeSecs"):
            line = f"fileTimeSecs={NS / 30000}"
        lines.append(line)
    bin_file.with_suffix(".meta").write_text("\n".join(lines) + "\n")
    return bin_file, raw


def oracle(raw):
    """Definition of the LFP: zero-phase low pass of the whole trace, then every 12th sample"""
    sos = scipy.signal.butter(N=2, Wn=1000 / 2500 / 2, btype="lowpass", output="sos")
    lf = scipy.signal.sosfiltfilt(sos, raw[:, :-1].astype(np.float64), axis=0)[::RATIO]
    return lf, raw[::RATIO, -1]


def check(label, lf_file, lf_ref, sync_ref, nchan_expected, chns, problems):
    sr = spikeglx.Reader(lf_file, sort=False)
    try:
        n_expected = int(np.ceil(NS / RATIO))
        nbytes = Path(lf_file).stat().st_size
        n_written = nbytes / 2 / nchan_expected
        if sr.fs != 2500:
            problems.append(f"{label}: LF meta declares {sr.fs} Hz instead of 2500")
        if sr.nc != nchan_expected or sr.nc * sr.ns * 2 != nbytes:
            problems.append(f"{label}: LF reader shape {(sr.ns, sr.nc)} does not match {nbytes} bytes")
        if n_written != n_expected:
            problems.append(
                f"{label}: LF file holds {n_written:g} samples, expected ceil({NS}/12) = {n_expected}"
            )
        data = np.array(sr._raw[:, :])
        n = min(data.shape[0], n_expected)
        bad_sync = np.flatnonzero(data[:n, -1] != sync_ref[:n])
        if bad_sync.size:
            problems.append(
                f"{label}: LF sync differs from every 12th AP sync word at {bad_sync.size} samples, "
                f"first at LF sample {bad_sync[0]}"
            )
        err = np.abs(data[EDGE:n - EDGE, :-1].astype(np.float64) - lf_ref[EDGE:n - EDGE][:, chns])
        if err.max() > 1.0:
            first = int(np.flatnonzero(err.max(axis=1) > 1.0)[0]) + EDGE
            problems.append(
                f"{label}: LF differs from low-pass + decimation of the whole trace by up to "
                f"{err.max():.0f} LSB (first beyond 1 LSB at LF sample {first})"
            )
        return data
    finally:
        sr.close()


def main():
    problems = []
    tmp = Path(tempfile.mkdtemp(prefix="c12_demo_"))
    try:
        for version in ("NP21", "NP24"):
            outputs = {}
            for w in WINDOWS:
                # same content for every window size
                rng_w = np.random.default_rng(7 if version == "NP21" else 11)
                bin_file, raw = make_recording(tmp.joinpath(f"{version}_{w}", "probe00"), version, rng_w)
                lf_ref, sync_ref = oracle(raw)
                conv = NP2Converter(bin_file, post_check=False, compress=False)
                conv.init_params(nwindow=w)
                status = conv.process()
                conv.sr.close()
                if status != 1:
                    problems.append(f"{version} nwindow={w}: process() returned {status}")
                    continue
                for sh, info in conv.shank_info.items():
                    chns = np.asarray(info["chns"])[:-1]
                    label = f"{version} nwindow={w} {sh}"
                    outputs[(w, sh)] = check(
                        label, info["lf_file"], lf_ref, sync_ref, chns.size + 1, chns, problems
                    )
            # window independence, to 1 LSB
            for (w, sh), data in outputs.items():
                ref = outputs.get((WINDOWS[-1], sh))
                if ref is None or w == WINDOWS[-1]:
                    continue
                if data.shape != ref.shape:
                    problems.append(
                        f"{version} {sh}: LF shape {data.shape} with nwindow={w} but {ref.shape} "
                        f"with nwindow={WINDOWS[-1]}"
                    )
                elif np.abs(data.astype(np.int32) - ref.astype(np.int32)).max() > 1:
                    problems.append(f"{version} {sh}: LF depends on the window size ({w} vs {WINDOWS[-1]})")
    finally:
        shutil.rmtree(tmp, ignore_errors=True)

    if problems:
        print("C12 VIOLATED: the extracted LFP is not low-pass + decimation independent of windowing")
        for p in problems[:20]:
            print("  -", p)
        if len(problems) > 20:
            print(f"  ... and {len(problems) - 20} more")
        return 1
    print("C12 holds: LFP = low-pass + decimate by 12 for all windows, sync is every 12th word, meta ok")
    return 0


if __name__ == "__main__":
    sys.exit(main())
