import sys, os; sys.path.insert(0, os.path.join(os.path.dirname(os.path.abspath(__file__)), "src"))
"""
C12 - the LFP stream written by neuropixel.NP2Converter equals zero-phase low-pass of the whole AP
trace followed by a stride-12 pick, whatever the processing window.

Builds small broadband NP2.1 / NP2.4 recordings whose length is neither a multiple of 12 nor of
the window, runs the converter with two window sizes and compares the lf.bin content with a
whole-trace oracle written with scipy / NumPy only.

exit 0: property holds, exit 1: property broken (details printed).
"""
import re
import logging
import shutil
import tempfile
from pathlib import Path

import numpy as np
import scipy.signal

import spikeglx
from neuropixel import NP2Converter

HERE = Path(os.path.dirname(os.path.abspath(__file__)))
FIXTURES = HERE.joinpath("src", "tests", "fixtures", "np2split")
RATIO = 12
EDGE = 1200  # AP samples ignored at both ends of the file for the value comparison
NC = 385
problems = []
logging.disable(logging.CRITICAL)  # the readers are chatty about the mock meta data


def report(msg):
    problems.append(msg)
    print("PROBLEM: " + msg)


def make_recording(folder, version, ns, seed):
    """writes <folder>/probe00/..ap.bin + .meta, returns path and the int16 array (ns, 385)"""
    rng = np.random.default_rng(seed)
    pdir = folder.joinpath("probe00")
    pdir.mkdir(parents=True)
    ap_file = pdir.joinpath("_spikeglx_ephysData_g0_t0.imec0.ap.bin")
    meta = FIXTURES.joinpath(f"{version}_meta", "_spikeglx_ephysData_g0_t0.imec0.ap.meta").read_text()
    meta = re.sub(r"fileSizeBytes=.*", f"fileSizeBytes={ns * NC * 2}", meta)
    meta = re.sub(r"fileTimeSecs=.*", f"fileTimeSecs={ns / 30000}", meta)
    ap_file.with_suffix(".meta").write_text(meta)
    # broadband traces: white noise + a slow oscillation, different on every channel
    t = np.arange(ns)[:, np.newaxis]
    dat = rng.normal(0, 1500, size=(ns, NC)) + 3000 * np.sin(2 * np.pi * t / (700 + np.arange(NC)))
    dat = np.round(dat).astype(np.int16)
    # sync words change at every sample so that a wrong pick cannot go unnoticed
    dat[:, -1] = rng.integers(0, 2 ** 15, size=ns).astype(np.int16)
    dat.tofile(ap_file)
    return ap_file, dat


def oracle_lf(dat):
    """definition: zero-phase 2nd order Butterworth low-pass on the whole trace, every 12th sample"""
    sos = scipy.signal.butter(N=2, Wn=1000 / 2500 / 2, btype="lowpass", output="sos")
    lp = scipy.signal.sosfiltfilt(sos, dat[:, :-1].astype(np.float64), axis=0)
    return lp[::RATIO, :], dat[::RATIO, -1]


def check_lf(label, lf_file, chns, dat, exp_lf, exp_sync):
    ns = dat.shape[0]
    nlf = int(np.ceil(ns / RATIO))
    sr = spikeglx.Reader(lf_file, sort=False)
    out = None
    try:
        if sr.fs != 2500:
            report(f"{label}: lf meta declares {sr.fs} Hz")
        if sr.nc != len(chns):
            report(f"{label}: lf meta declares {sr.nc} channels, {len(chns)} written")
        nbytes = Path(lf_file).stat().st_size
        if nbytes != nlf * len(chns) * 2:
            report(f"{label}: lf file has {nbytes / 2 / len(chns)} samples, expected ceil({ns}/12) = {nlf}")
            return None
        if sr.shape != (nlf, len(chns)):
            report(f"{label}: lf opens with shape {sr.shape}, expected {(nlf, len(chns))}")
            return None
        out = np.array(sr._raw[:, :]).astype(np.int32)
    finally:
        sr.close()
    # sync: exactly every 12th word of the AP sync
    bad = np.where(out[:, -1] != exp_sync)[0]
    if bad.size:
        report(f"{label}: {bad.size} lf sync words differ from ap_sync[::12], first at lf sample {bad[0]}"
               f" (ap sample {bad[0] * RATIO} of {ns})")
    # values away from the file edges
    k0, k1 = EDGE // RATIO, (ns - EDGE) // RATIO
    diff = np.abs(out[k0:k1, :-1] - exp_lf[k0:k1, chns[:-1]])
    if diff.max() > 1.0:
        ibad = np.where(diff.max(axis=1) > 1.0)[0] + k0
        report(f"{label}: lf differs from lowpass(ap)[::12] by up to {diff.max():.1f} LSB on {ibad.size} lf"
               f" samples, lf samples {ibad[0]}..{ibad[-1]} (ap samples {ibad[0] * RATIO}..{ibad[-1] * RATIO} of {ns})")
    return out


def run(version, ns, windows, seed):
    tmp = Path(tempfile.mkdtemp(prefix="c12_", dir=os.environ.get("TMPDIR")))
    try:
        ap_file, dat = make_recording(tmp, version, ns, seed)
        exp_lf, exp_sync = oracle_lf(dat)
        outs = {}
        for w in windows:
            conv = NP2Converter(ap_file, post_check=True, compress=False)
            conv.init_params(nwindow=w, extra=f"_w{w}")
            status = conv.process(overwrite=True)
            if status != 1:
                report(f"{version} ns={ns} window={w}: process returned {status}")
                conv.sr.close()
                continue
            for sh, info in conv.shank_info.items():
                label = f"{version} ns={ns} window={w} {sh}"
                outs[(w, sh)] = check_lf(label, info["lf_file"], info["chns"], dat, exp_lf, exp_sync)
            conv.sr.close()
        # independence from the window size
        shanks = sorted({sh for _, sh in outs})
        for sh in shanks:
            a, b = outs.get((windows[0], sh)), outs.get((windows[1], sh))
            if a is None or b is None or a.shape != b.shape:
                continue
            d = np.abs(a - b)
            if d.max() > 1:
                ibad = np.where(d.max(axis=1) > 1)[0]
                report(f"{version} ns={ns} {sh}: window {windows[0]} and window {windows[1]} give lf streams that differ"
                       f" by up to {d.max()} LSB (lf samples {ibad[0]}..{ibad[-1]})")
    finally:
        shutil.rmtree(tmp, ignore_errors=True)


if __name__ == "__main__":
    # recording lengths: not multiples of 12 nor of the window; windows: multiples of 12
    run("NP21", ns=15007, windows=(6000, 4200), seed=1)
    run("NP24", ns=13333, windows=(4800, 6000), seed=2)
    # a length that is a multiple of 12 (but not of the window) must of course work too
    run("NP21", ns=12000, windows=(4200, 9000), seed=3)
    if problems:
        print(f"C12 BROKEN: {len(problems)} problem(s)")
        sys.exit(1)
    print("C12 holds: lf == lowpass(ap)[::12] within 1 LSB, sync == ap_sync[::12], independent of the window")
    sys.exit(0)
