"""
Differential check for refactoring N (see REFACTORING below) of property C13
(waveform extraction: make_channel_index, extract_wfs_array, _make_wfs_table,
write_wfs_chunk / extract_wfs_cbin, WaveformsLoader.load_waveforms).

Usage:   /venv/bin/python /tmp/wt_C13/equiv_N.py

The ORIGINAL implementation is taken from a pristine copy of HEAD (created with `git show`)
in /tmp/wt_C13_tmp/orig, the REFACTORED one from /tmp/wt_C13/src when refactor_N.diff is applied
to the worktree; if the worktree is clean, the refactored tree is rebuilt in scratch as
pristine copy + refactor_N.diff.  Both are run in separate interpreters on the very same
inputs and every output (values, dtypes, shapes, files written, exceptions) is compared bit for bit.
Prints EQUIVALENT and exits 0 on success.
"""
import hashlib
import os
import pickle
import shutil
import subprocess
import sys
from pathlib import Path

REFACTORING = 1
# a piece of text that is present in the refactored sources only: (file relative to src, text)
MARKERS = {
    1: ("ibldsp/waveform_extraction.py", "n_select = min(max_wf, nspikes)"),
    2: ("ibldsp/waveform_extraction.py", "def _preprocess_snippet("),
    3: ("ibldsp/waveform_extraction.py", "sample_indices = "),
}
WT = Path("/tmp/wt_C13")
SCRATCH = Path("/tmp/wt_C13_tmp")
FILES = ["ibldsp/waveform_extraction.py", "ibldsp/utils.py"]


# ----------------------------------------------------------------------------------------------
# worker: runs all the cases against the implementation found first on sys.path
# ----------------------------------------------------------------------------------------------
def _where_in_worker():
    import ibldsp.waveform_extraction as m
    import ibldsp.utils as u
    import spikeglx as s
    return m.__file__, u.__file__, s.__file__


def worker(srcdir, outfile, base):
    import types
    import warnings
    srcdir = str(Path(srcdir).resolve())
    assert sys.path[0] == srcdir, sys.path[:3]
    import numpy as np
    import pandas as pd
    from joblib import Parallel, delayed
    import ibldsp.utils as utils
    import ibldsp.waveform_extraction as we
    import spikeglx
    import neuropixel
    for mod in (utils, we, spikeglx, neuropixel):
        assert str(Path(mod.__file__).resolve()).startswith(srcdir + os.sep), (mod.__file__, srcdir)
    # the parallel workers must import the same implementation
    for files in Parallel(n_jobs=2)(delayed(_where_in_worker)() for _ in range(4)):
        for f in files:
            assert str(Path(f).resolve()).startswith(srcdir + os.sep), (f, srcdir)

    base = Path(base)
    if base.exists():
        shutil.rmtree(base)
    base.mkdir(parents=True)
    results = {}

    def canon(x):
        if isinstance(x, np.memmap):
            x = np.array(x)
        if isinstance(x, np.ndarray):
            if x.dtype == object:
                return ("ndobj", x.shape, [canon(v) for v in x.ravel().tolist()])
            return ("nd", x.dtype.str, x.shape, hashlib.sha1(np.ascontiguousarray(x).tobytes()).hexdigest(),
                    repr(x.ravel()[:6].tolist()))
        if isinstance(x, pd.DataFrame):
            return ("df", [str(c) for c in x.columns], [str(t) for t in x.dtypes], canon(x.index.to_numpy()),
                    str(x.index.dtype), [canon(x[c]) for c in x.columns])
        if isinstance(x, pd.Series):
            return ("series", str(x.dtype), str(x.name), canon(x.index.to_numpy()),
                    canon(x.to_numpy(dtype=object) if str(x.dtype) in ("Int64",) else x.to_numpy()))
        if isinstance(x, np.generic):
            return ("npscalar", x.dtype.str, repr(x.item()))
        if isinstance(x, (tuple, list)):
            return (type(x).__name__, [canon(v) for v in x])
        if isinstance(x, dict):
            return ("dict", [(str(k), canon(v)) for k, v in x.items()])
        if isinstance(x, float) and x != x:
            return ("float", "nan")
        if x is None or isinstance(x, (int, float, str, bool)):
            return (type(x).__name__, x)
        if x is pd.NA:
            return ("NA",)
        raise TypeError(type(x))

    def record(key, fun, *args, **kwargs):
        assert key not in results, key
        try:
            with warnings.catch_warnings(record=True) as w:
                warnings.simplefilter("always")
                out = fun(*args, **kwargs)
            results[key] = ("ok", canon(out), sorted((wi.category.__name__, str(wi.message)) for wi in w))
        except BaseException as e:  # noqa
            results[key] = ("exc", type(e).__name__, str(e).replace(str(base), "<BASE>"))
        return results[key][0]

    geoms = {}
    for name, (version, nshank) in {"np1": (1, 1), "np2": (2, 1), "np24": (2, 4)}.items():
        h = neuropixel.trace_header(version=version, nshank=nshank)
        geoms[name] = (h, np.c_[h["x"], h["y"]])

    # ------------------------------------------------------------------ make_channel_index
    rng = np.random.default_rng(1234)
    for name, (h, geom) in geoms.items():
        for radius in (0.0, 10.0, 20.0, 35.0, 50.0, 100.0, 200.0, 201.0, 500.0, 1e5):
            for pad_val in (None, -1, 0, 7):
                record(f"mci/{name}/{radius}/{pad_val}", utils.make_channel_index, geom, radius=radius, pad_val=pad_val)
        record(f"mci/{name}/default", utils.make_channel_index, geom)
        record(f"mci/{name}/positional", utils.make_channel_index, geom, 75, 999)
        record(f"mci/{name}/int-radius", utils.make_channel_index, geom.astype(int), 40)
    for k in range(30):
        n = int(rng.integers(1, 60))
        geom = rng.uniform(0, 300, size=(n, int(rng.integers(1, 4))))
        if k % 3 == 0:
            geom = np.round(geom / 20) * 20  # ties exactly at the radius
        record(f"mci/random/{k}", utils.make_channel_index, geom, radius=float(rng.choice([20, 40, 100, 400])))
    record("mci/empty", utils.make_channel_index, np.zeros((0, 2)))
    record("mci/one", utils.make_channel_index, np.zeros((1, 2)))
    record("mci/1d", utils.make_channel_index, np.arange(5.0))
    record("mci/list", utils.make_channel_index, [[0, 0], [0, 20], [0, 500]])

    # ------------------------------------------------------------------ extract_wfs_array
    for k in range(60):
        name = ["np1", "np2", "np24"][k % 3]
        geom = geoms[name][1]
        radius = [40.0, 100.0, 200.0, 300.0][k % 4]
        cn = utils.make_channel_index(geom, radius=radius)
        nc = geom.shape[0]
        ns = int(rng.integers(200, 1500))
        dtype = [np.float32, np.float64, np.float16][k % 3]
        add_nan = bool(k % 2)
        if k % 5 == 4:
            arr = rng.integers(-100, 100, size=(nc if add_nan else nc + 1, ns)).astype(np.int16)
        else:
            arr = rng.normal(size=(nc if add_nan else nc + 1, ns)).astype(dtype)
            if not add_nan:
                arr[-1, :] = np.nan
        trough = int(rng.choice([0, 1, 20, 42, 64]))
        length = int(rng.choice([1, 32, 64, 128]))
        nwf = int(rng.integers(1, 40))
        lo, hi = trough, ns - (length - trough) - 1
        if k % 7 == 6:
            hi = ns + 5  # may run past the end -> AssertionError or IndexError
        if k % 11 == 10:
            lo = -ns  # negative samples wrap around
        samples = np.sort(rng.integers(lo, max(hi, lo) + 1, size=nwf))
        if k % 4 == 0:
            samples[0] = trough
            samples[-1] = ns - (length - trough) - 1
        if k % 9 == 8:
            samples = samples[::-1].copy()  # unsorted: the check bears on the last row only
        peaks = rng.integers(0, nc, size=nwf)
        peaks[0] = 0
        peaks[-1] = nc - 1
        df = pd.DataFrame({"sample": samples, "peak_channel": peaks})
        if k % 6 == 5:
            df.index = rng.permutation(nwf) + 10  # non default index
        kw = dict(trough_offset=trough, spike_length_samples=length, add_nan_trace=add_nan)
        if k % 8 == 7:
            kw["verbose"] = True
        record(f"ewa/{k}", we.extract_wfs_array, arr, df, cn, **kw)
    cn = utils.make_channel_index(geoms["np1"][1])
    arr = rng.normal(size=(385, 500)).astype(np.float32)
    record("ewa/defaults", we.extract_wfs_array, arr, pd.DataFrame({"sample": [42, 100, 371], "peak_channel": [0, 200, 383]}), cn)
    record("ewa/past-end", we.extract_wfs_array, arr, pd.DataFrame({"sample": [42, 100, 414], "peak_channel": [0, 200, 383]}), cn)
    record("ewa/empty", we.extract_wfs_array, arr, pd.DataFrame({"sample": np.zeros(0, int), "peak_channel": np.zeros(0, int)}), cn)
    record("ewa/positional", we.extract_wfs_array, arr[:384], pd.DataFrame({"sample": [30, 60], "peak_channel": [3, 5]}), cn,
           10, 20, True, False)
    record("ewa/float-samples", we.extract_wfs_array, arr, pd.DataFrame({"sample": [50.0, 60.0], "peak_channel": [3, 5]}), cn)
    record("ewa/bad-peak", we.extract_wfs_array, arr, pd.DataFrame({"sample": [50, 60], "peak_channel": [3, 500]}), cn)
    record("ewa/no-nan-row", we.extract_wfs_array, arr[:384], pd.DataFrame({"sample": [50, 60], "peak_channel": [3, 383]}), cn)

    # ------------------------------------------------------------------ _make_wfs_table
    def spike_train(rng, ns, nunits, max_wf, trough, length, chunk, n_big=3000, edge_unit=False):
        sizes = []
        for u in range(nunits):
            sizes.append(int([max_wf - 1, max_wf, max_wf + 1, 1, 3 * max_wf, 2][u % 6]))
        sizes = [max(s, 1) for s in sizes]
        labels = rng.permutation(np.arange(nunits) * 3 + int(rng.integers(0, 5)))
        samples, clusters = [], []
        edges = [0, 1, trough - 1, trough, trough + 1, ns - 1, ns - (length - trough) - 1, ns - (length - trough),
                 ns - (length - trough) + 1]
        for u, n in zip(labels, sizes):
            s = rng.integers(0, ns, size=n)
            samples.append(s)
            clusters.append(np.full(n, u))
        # edge cases distributed on the units
        extra = np.array(edges + [c for k in range(1, int(ns // chunk) + 1) for c in (k * chunk - 1, k * chunk, k * chunk + 1)])
        extra = extra[(extra >= 0) & (extra < ns)]
        samples.append(extra)
        clusters.append(rng.choice(labels, size=extra.size))
        # the same times in two units
        samples.append(extra[::2])
        clusters.append(rng.choice(labels, size=extra[::2].size))
        if edge_unit:  # a unit with no valid spike at all
            samples.append(np.array([0, 1, ns - 1, trough]))
            clusters.append(np.full(4, labels.max() + 1))
        samples = np.concatenate(samples)
        clusters = np.concatenate(clusters)
        order = np.argsort(samples, kind="stable")
        samples, clusters = samples[order], clusters[order]
        channels = rng.integers(0, 384, size=samples.size)
        channels[:3] = [0, 383, 1]
        channels[-3:] = [383, 0, 382]
        return samples, clusters, channels

    for k in range(40):
        ns = int(rng.integers(2000, 40000))
        max_wf = int(rng.choice([1, 2, 5, 16, 256]))
        trough = int(rng.choice([0, 10, 42]))
        length = int(rng.choice([43, 64, 128]))
        ss, sc, sch = spike_train(rng, ns, int(rng.integers(1, 9)), min(max_wf, 20), trough, length, 3000, edge_unit=(k % 4 == 3))
        sr = types.SimpleNamespace(ns=ns)
        seed = None if k == 39 else int(rng.integers(0, 1000))
        if k % 5 == 0:
            ss, sc, sch = ss.astype(np.uint64), sc.astype(np.int32), sch.astype(np.float64)
        if k % 7 == 0:  # unsorted input
            p = rng.permutation(ss.size)
            ss, sc, sch = ss[p], sc[p], sch[p]
        if k == 39:
            # unseeded: only the deterministic part of the output can be compared
            def fun(*a, **kw):
                wf, uid = we._make_wfs_table(*a, **kw)
                return wf.shape, [str(t) for t in wf.dtypes], list(wf.columns), uid, np.sort(wf["waveform_index"].to_numpy())
            record(f"mwt/{k}", fun, sr, ss, sc, sch, max_wf=max_wf, trough_offset=trough, spike_length_samples=length, seed=seed)
        else:
            record(f"mwt/{k}", we._make_wfs_table, sr, ss, sc, sch, max_wf=max_wf, trough_offset=trough,
                   spike_length_samples=length, seed=seed)
    sr = types.SimpleNamespace(ns=5000)
    record("mwt/defaults", we._make_wfs_table, sr, np.arange(0, 5000, 7), np.arange(0, 5000, 7) % 3, np.arange(0, 5000, 7) % 384, seed=3)
    record("mwt/positional", we._make_wfs_table, sr, np.arange(0, 5000, 7), np.arange(0, 5000, 7) % 3, np.arange(0, 5000, 7) % 384,
           4, 10, 50, 8)
    record("mwt/empty", we._make_wfs_table, sr, np.zeros(0, int), np.zeros(0, int), np.zeros(0, int), seed=1)
    record("mwt/no-valid", we._make_wfs_table, sr, np.array([0, 1, 4999]), np.array([1, 1, 2]), np.array([1, 1, 2]), seed=1)
    record("mwt/max_wf0", we._make_wfs_table, sr, np.arange(100, 200), np.arange(100) % 2, np.arange(100), max_wf=0, seed=1)
    record("mwt/lists", we._make_wfs_table, sr, [100, 200, 300], [1, 1, 2], [3, 4, 5], seed=1)
    record("mwt/series", we._make_wfs_table, sr, pd.Series([100, 200, 300, 400]), pd.Series([1, 1, 2, 1]), pd.Series([3, 4, 5, 6]),
           max_wf=2, seed=1)
    record("mwt/mismatch", we._make_wfs_table, sr, np.arange(100, 200), np.arange(50) % 2, np.arange(100), seed=1)

    # ------------------------------------------------------------------ extract_wfs_cbin + loader
    def load_outputs(outdir):
        out = {}
        for f in sorted(p.name for p in outdir.iterdir()):
            fp = outdir / f
            if f.endswith(".npy"):
                out[f] = np.load(fp)
            elif f.endswith(".npz"):
                z = np.load(fp)
                out[f] = {kk: z[kk] for kk in z.files}
            elif f.endswith(".pqt"):
                out[f] = pd.read_parquet(fp)
            else:
                out[f] = hashlib.sha1(fp.read_bytes()).hexdigest()
        return out

    def loader_queries(key, outdir):
        try:
            wfl = we.WaveformsLoader(outdir)
        except BaseException as e:  # noqa
            results[key + "/loader-init"] = ("exc", type(e).__name__, str(e).replace(str(base), "<BASE>"))
            return
        record(key + "/loader/attrs", lambda: (wfl.data_version, wfl.nu, wfl.ns, wfl.nc, wfl.nw, int(wfl.max_wf),
                                               str(wfl.wfs_dtype), wfl.df_wav, wfl.df_clusters, np.array(wfl.templates),
                                               wfl.channels))
        labels_all = np.array(wfl.df_clusters.index)
        lrng = np.random.default_rng(99)
        queries = [
            dict(),
            dict(return_info=False),
            dict(flatten=True),
            dict(labels=labels_all[:1]),
            dict(labels=list(labels_all[::2])),
            dict(labels=labels_all[::-1], indices=np.arange(3)),
            dict(labels=labels_all, indices=[0]),
            dict(labels=labels_all[-1:], indices=0),
            dict(indices=np.array([1, 3, 1000])),
            dict(indices=[]),
            dict(labels=[labels_all.max() + 17]),
            dict(labels=[]),
            dict(labels=np.r_[labels_all[:2], labels_all[:1]], indices=np.arange(2), return_info=False),
            dict(labels=labels_all[:2], indices=np.array([[0, 1], [1, 2]])),
            dict(labels=lrng.choice(labels_all, size=min(3, labels_all.size), replace=False), indices=lrng.integers(0, 6, size=4)),
            dict(labels=int(labels_all[0])),
        ]
        for iq, q in enumerate(queries):
            record(f"{key}/loader/q{iq}", wfl.load_waveforms, **q)
        del wfl

    def make_bin(fn, ns, nc, seed, dtype):
        r = np.random.default_rng(seed)
        if dtype == "float32":
            data = r.normal(size=(ns, nc)).astype(np.float32)
            data += np.sin(np.arange(ns) / 30.0)[:, None].astype(np.float32)
        else:
            data = r.integers(-400, 400, size=(ns, nc)).astype(np.int16)
        data[:, -1] = 0
        data.tofile(fn)

    bins = {}
    for ib, (ns, dtype) in enumerate([(12007, "float32"), (9000, "int16"), (20000, "float32")]):
        fn = base / f"rec{ib}.bin"
        make_bin(fn, ns, 385, 100 + ib, dtype)
        bins[ib] = (fn, ns, dtype)

    labels_bad = np.zeros(384)
    labels_bad[[5, 100, 101, 380]] = 1
    labels_bad[[50, 383]] = 2
    labels_oob = labels_bad.copy()
    labels_oob[370:] = 3

    configs = [
        # bin, geom, chunk, n_jobs, steps, max_wf, trough, length, nunits, seed, channel_labels, edge_unit
        (0, "np1", 500, 1, [], 5, 42, 128, 6, 1, None, False),
        (0, "np1", 3000, 2, None, 8, 42, 128, 7, 2, None, True),
        (0, "np2", 10000, 4, ["butterworth", "phase_shift", "bad_channel_interpolation", "car"], 6, 42, 128, 5, 3, labels_bad, False),
        (0, "np1", 777, 3, ["kfilt"], 4, 42, 128, 4, 4, None, False),
        (0, "np24", 1000, 8, [], 7, 20, 64, 8, 5, None, False),
        (1, "np1", 2500, 2, ["butterworth"], 16, 42, 128, 3, 6, None, False),
        (1, "np2", 9000, 1, ["phase_shift", "bad_channel_interpolation"], 3, 30, 90, 5, 7, labels_oob, False),
        (1, "np1", 4500, 5, [], 256, 42, 128, 2, 8, None, False),
        (2, "np1", 5000, 4, [], 10, 42, 128, 9, 9, None, True),
        (2, "np2", 6667, 2, ["car"], 5, 0, 43, 4, 10, None, False),
        (2, "np1", 20000, 1, [], 2, 42, 128, 3, 11, None, False),
        (2, "np1", 25000, 2, [], 2, 42, 128, 3, 12, None, False),
        (0, None, 3000, 2, [], 5, 42, 128, 3, 13, None, False),  # geometry from the reader
    ]
    for ic, (ib, gname, chunk, n_jobs, steps, max_wf, trough, length, nunits, seed, chlabels, edge_unit) in enumerate(configs):
        fn, ns, dtype = bins[ib]
        crng = np.random.default_rng(1000 + ic)
        ss, sc, sch = spike_train(crng, ns, nunits, max_wf, trough, length, chunk, edge_unit=edge_unit)
        outdir = base / f"out{ic}"
        outdir.mkdir()
        kwargs = dict(max_wf=max_wf, trough_offset=trough, spike_length_samples=length, chunksize_samples=chunk,
                      reader_kwargs={"ns": ns, "nc": 385, "nsync": 1, "dtype": dtype}, n_jobs=n_jobs,
                      preprocess_steps=steps, seed=seed)
        if gname is not None:
            kwargs["h"] = geoms[gname][0]
        if chlabels is not None:
            kwargs["channel_labels"] = chlabels
        status = record(f"cbin/{ic}/call", we.extract_wfs_cbin, fn, outdir, ss, sc, sch, **kwargs)
        record(f"cbin/{ic}/files", load_outputs, outdir)
        record(f"cbin/{ic}/inputs", lambda: (ss, sc, sch))
        loader_queries(f"cbin/{ic}", outdir)
        # same extraction with another chunking / number of workers must give the same files in both
        if status == "ok" and ic in (0, 4, 8):
            outdir2 = base / f"out{ic}b"
            outdir2.mkdir()
            kwargs.update(chunksize_samples=3333, n_jobs=3)
            record(f"cbin/{ic}b/call", we.extract_wfs_cbin, fn, outdir2, ss, sc, sch, **kwargs)
            record(f"cbin/{ic}b/files", load_outputs, outdir2)

    # error paths and degenerate inputs
    fn, ns, dtype = bins[0]
    rk = {"ns": ns, "nc": 385, "nsync": 1, "dtype": dtype}
    ss, sc, sch = spike_train(np.random.default_rng(5), ns, 3, 4, 42, 128, 3000)
    for name, kw in {
        "car+kfilt": dict(preprocess_steps=["car", "kfilt"]),
        "bad-step": dict(preprocess_steps=["destripe"]),
        "str-outdir": dict(preprocess_steps=[], outdir_as_str=True),
        "no-reader-kwargs": dict(preprocess_steps=[]),
        "positional": dict(),
    }.items():
        outdir = base / f"err_{name}"
        outdir.mkdir()
        od = str(outdir) if kw.pop("outdir_as_str", False) else outdir
        if name == "positional":
            record(f"cbinerr/{name}/call", we.extract_wfs_cbin, fn, od, ss, sc, sch, geoms["np1"][0], None, 4, 42, 128, 4000, rk, 2,
                   np.float32, [], 5, None)
        elif name == "no-reader-kwargs":
            record(f"cbinerr/{name}/call", we.extract_wfs_cbin, fn, od, ss, sc, sch, n_jobs=1, seed=1, **kw)
        else:
            record(f"cbinerr/{name}/call", we.extract_wfs_cbin, fn, od, ss, sc, sch, reader_kwargs=rk, n_jobs=1, seed=1, **kw)
        record(f"cbinerr/{name}/files", load_outputs, outdir)
    for name, (ss_, sc_, sch_) in {
        "empty": (np.zeros(0, int), np.zeros(0, int), np.zeros(0, int)),
        "no-valid": (np.array([0, 3, ns - 1]), np.array([1, 1, 2]), np.array([1, 1, 2])),
        "single": (np.array([5000]), np.array([4]), np.array([383])),
        "unsorted": (ss[::-1].copy(), sc[::-1].copy(), sch[::-1].copy()),
    }.items():
        outdir = base / f"deg_{name}"
        outdir.mkdir()
        record(f"cbindeg/{name}/call", we.extract_wfs_cbin, fn, outdir, ss_, sc_, sch_, reader_kwargs=rk, n_jobs=2, seed=1,
               preprocess_steps=[], max_wf=4, h=geoms["np1"][0])
        record(f"cbindeg/{name}/files", load_outputs, outdir)
        if name in ("single", "unsorted"):
            loader_queries(f"cbindeg/{name}", outdir)

    # write_wfs_chunk called directly (chunk 0 and chunk > 0, empty table)
    cn = utils.make_channel_index(geoms["np1"][1])
    wf_flat, _ = we._make_wfs_table(types.SimpleNamespace(ns=ns), ss, sc, sch, max_wf=4, seed=2)
    for i_chunk, steps in [(0, []), (1, []), (2, ["butterworth", "phase_shift"]), (3, ["kfilt"]), (1, ["car"])]:
        chunk = 3000
        s0, s1 = i_chunk * chunk, min((i_chunk + 1) * chunk, ns)
        sl = slice(*np.searchsorted(wf_flat["sample"], [s0, s1]))
        mm = np.full((wf_flat.shape[0], cn.shape[1], 128), -7.0, dtype=np.float32)
        ret = record(f"wwc/{i_chunk}/{'-'.join(steps)}/call", we.write_wfs_chunk, i_chunk, fn, mm, geoms["np1"][0], np.zeros(384), cn,
                     wf_flat.iloc[sl], (s0, s1), chunk, 42, 128, rk, steps)
        record(f"wwc/{i_chunk}/{'-'.join(steps)}/mm", lambda: mm)
    mm = np.full((3, cn.shape[1], 128), -7.0, dtype=np.float32)
    record("wwc/empty/call", we.write_wfs_chunk, 1, base / "does-not-exist.bin", mm, geoms["np1"][0], np.zeros(384), cn,
           wf_flat.iloc[0:0], (3000, 6000), 3000, 42, 128, rk, [])
    record("wwc/empty/mm", lambda: mm)

    # synthetic legacy (4-D traces, "data version 1") dataset for the loader
    v1 = base / "v1"
    v1.mkdir()
    nu, mw, ncx, nsx = 3, 4, cn.shape[1], 16
    tr = np.random.default_rng(7).normal(size=(nu, mw, ncx, nsx)).astype(np.float32)
    tr[1, 2:] = np.nan
    np.save(v1 / "waveforms.traces.npy", tr)
    np.save(v1 / "waveforms.templates.npy", np.nanmedian(tr, axis=1).astype(np.float32))
    tab = pd.DataFrame({
        "index": np.arange(nu * mw),
        "sample": np.arange(nu * mw, dtype=float) * 100 + 50,
        "cluster": np.repeat([3, 5, 9], mw),
        "peak_channel": np.tile([0.0, 10.0, 200.0, 383.0], nu),
        "wf_number": np.tile(np.arange(mw), nu),
        "linear_index": np.arange(nu * mw),
    })
    tab.loc[[6, 7], ["sample", "peak_channel"]] = np.nan
    tab.to_parquet(v1 / "waveforms.table.pqt")
    np.savez(v1 / "waveforms.channels.npz", channels=cn[np.nan_to_num(tab["peak_channel"].to_numpy(), nan=0).astype(int)])
    loader_queries("v1", v1)

    with open(outfile, "wb") as fid:
        pickle.dump(results, fid)
    shutil.rmtree(base)


# ----------------------------------------------------------------------------------------------
# driver
# ----------------------------------------------------------------------------------------------
def git_show(rel, dest):
    dest.parent.mkdir(parents=True, exist_ok=True)
    dest.write_bytes(subprocess.check_output(["git", "-C", str(WT), "show", f"HEAD:src/{rel}"]))


def prepare_trees():
    orig = SCRATCH / "orig"
    tracked = subprocess.check_output(["git", "-C", str(WT), "ls-files", "src"], text=True).split()
    tracked = [t[len("src/"):] for t in tracked if not t.startswith("src/tests/")]
    for rel in tracked:
        git_show(rel, orig / rel)
    for rel in FILES:  # the pristine copy really is HEAD
        assert (orig / rel).read_bytes() == subprocess.check_output(["git", "-C", str(WT), "show", f"HEAD:src/{rel}"])
    mfile, mtext = MARKERS[REFACTORING]
    if mtext in (WT / "src" / mfile).read_text():
        ref = WT / "src"
        print(f"refactored implementation: worktree {ref} (refactor_{REFACTORING}.diff is applied)")
    else:
        ref = SCRATCH / f"refactored_{REFACTORING}" / "src"
        if ref.parent.exists():
            shutil.rmtree(ref.parent)
        shutil.copytree(orig, ref)
        subprocess.check_call(["git", "apply", "--unsafe-paths", f"--directory={ref.parent}", "-p1",
                               str(WT / f"refactor_{REFACTORING}.diff")], cwd="/")
        print(f"refactored implementation: worktree is clean, using pristine copy + refactor_{REFACTORING}.diff in {ref}")
        assert mtext in (ref / mfile).read_text()
    assert mtext not in (orig / mfile).read_text()
    changed = [rel for rel in FILES if (orig / rel).read_bytes() != (ref / rel).read_bytes()]
    assert changed, "the refactored tree is identical to the original"
    print("files differing from the original:", changed)
    return orig, ref


def main():
    orig, ref = prepare_trees()
    out = {}
    for tag, src in (("orig", orig), ("ref", ref)):
        outfile = SCRATCH / f"equiv_{REFACTORING}_{tag}.pkl"
        if outfile.exists():
            outfile.unlink()
        env = dict(os.environ)
        env["PYTHONPATH"] = str(src.resolve())
        env["PYTHONDONTWRITEBYTECODE"] = "1"
        env["TMPDIR"] = str(SCRATCH)
        env["JOBLIB_TEMP_FOLDER"] = str(SCRATCH)
        # the same base directory is used for both runs, one after the other
        subprocess.check_call([sys.executable, "-P", __file__, "--worker", str(src.resolve()), str(outfile),
                               str(SCRATCH / f"equiv_{REFACTORING}_work")], env=env, cwd=str(SCRATCH))
        with open(outfile, "rb") as fid:
            out[tag] = pickle.load(fid)
    a, b = out["orig"], out["ref"]
    bad = []
    if set(a) != set(b):
        bad.append(("keys", sorted(set(a) ^ set(b))))
    for k in sorted(set(a) & set(b)):
        if a[k] != b[k]:
            bad.append((k, a[k], b[k]))
    n_ok = sum(v[0] == "ok" for v in a.values())
    n_exc = sum(v[0] == "exc" for v in a.values())
    print(f"{len(a)} cases compared ({n_ok} returning a value, {n_exc} raising an exception)")
    if bad:
        for item in bad[:20]:
            print("DIFFERENCE:", repr(item)[:2000])
        print("NOT EQUIVALENT")
        return 1
    print("EQUIVALENT")
    return 0


if __name__ == "__main__":
    if len(sys.argv) > 1 and sys.argv[1] == "--worker":
        sys.path.insert(0, str(Path(sys.argv[2]).resolve()))
        worker(sys.argv[2], sys.argv[3], sys.argv[4])
    else:
        sys.exit(main())
